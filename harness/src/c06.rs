//! C06 — misspelt exactly when not in the dictionary.
//! K: the accept / contains_word / contains_exact_word decision vs the Lean model, fed with the
//!    slice of the real word list whose lower-cased normalized spelling equals the query's.
//! O: exhaustive pass over the real word list × 4 dialects (alone and embedded), capitalised and
//!    upper-case forms, non-words, suggestions.
//! K `sugg` (w24): the suggestion list of the lint a REAL `SpellCheck` instance reports on a flagged word vs
//!    `Spell.lintSuggestions` (back-off, dialect filter with its `unwrap`, at most three, first letters upper-cased), fed
//!    with what `suggest_correct_spelling` returns and the entries of the real word list the candidates name.
use crate::c01::DIALECTS;
use crate::common::*;
use harper_core::linting::{Lint, LintGroup, LintKind, Linter, SpellCheck, Suggestion};
use harper_core::parsers::PlainEnglish;
use harper_core::spell::{FuzzyMatchResult, suggest_correct_spelling};
use harper_core::{CharStringExt, Dialect, Dictionary, Document, FstDictionary, MutableDictionary, TokenKind, WordId, WordMetadata};
use serde_json::{Value, json};
use std::collections::HashMap;

fn only_spellcheck(dialect: Dialect) -> LintGroup {
    let mut lg = LintGroup::new_curated(FstDictionary::curated(), dialect);
    lg.config.clear();
    lg.set_all_rules_to(Some(false));
    lg.config.set_rule_enabled("SpellCheck", true);
    lg
}

fn cs(s: &str) -> Vec<char> {
    s.chars().collect()
}

fn lownorm(w: &[char]) -> String {
    w.normalized().to_lower().iter().collect()
}

struct Words {
    all: Vec<Vec<char>>,
    by_key: HashMap<String, Vec<usize>>,
}

fn spelling_lints(lg: &mut LintGroup, text: &str) -> Result<(Document, Vec<Lint>), String> {
    let dict = FstDictionary::curated();
    guarded(|| {
        let doc = Document::new(text, &PlainEnglish, &dict);
        let l: Vec<Lint> = lg.lint(&doc).into_iter().filter(|l| l.lint_kind == LintKind::Spelling).collect();
        (doc, l)
    })
}

/// does `w` come out of the lexer + condense passes as exactly one Word token?
fn one_word_token(doc: &Document, len: usize) -> bool {
    let t = doc.get_tokens();
    t.len() == 1 && matches!(t[0].kind, TokenKind::Word(_)) && t[0].span.start == 0 && t[0].span.end == len
}

/// narrow matcher of the recorded finding: the entry contains a character the lexer never puts
/// inside a single Word token, or an apostrophe pattern `condense_contractions` does not join
fn unlexable_shape(w: &[char]) -> bool {
    let apos = w.iter().filter(|c| matches!(**c, '\'' | '’')).count();
    // a character `lex_word` does not take: not English-lingual (e.g. the modifier letter `ʻ` of `Nukuʻalofa`, a
    // letter of another script), not an ASCII digit, not an apostrophe
    let odd_char = w.iter().any(|c| !(crate::tokfmt::is_english_lingual(*c) || c.is_ascii_digit() || matches!(*c, '\'' | '’')));
    let edge_apos = matches!(w.first(), Some('\'' | '’')) || matches!(w.last(), Some('\'' | '’'));
    let digit_lead = w.first().is_some_and(|c| c.is_ascii_digit()) || w.iter().any(|c| c.is_ascii_digit());
    let dotted = w.contains(&'.');
    odd_char || apos >= 2 || edge_apos || digit_lead || dotted
}

fn field(s: &[char]) -> String {
    chars_field(s)
}

fn k_case(sess: &mut Session, words: &Words, dict: &FstDictionary, dialect: usize, w: &[char], rng: &mut Rng, real_accept: Option<bool>) {
    // closure of the strings the model touches under lower / normalize
    let mut strs: Vec<Vec<char>> = vec![w.to_vec()];
    let key = lownorm(w);
    let mut entries: Vec<usize> = words.by_key.get(&key).cloned().unwrap_or_default();
    for _ in 0..2 {
        entries.push(rng.below(words.all.len()));
    }
    entries.sort();
    entries.dedup();
    // entries whose key equals the query's come from an independent index (to_lower ∘ normalized),
    // not from WordId
    for e in &entries {
        strs.push(words.all[*e].clone());
    }
    let mut i = 0;
    while i < strs.len() && strs.len() < 64 {
        let s = strs[i].clone();
        for img in [s.to_lower().to_vec(), s.normalized().to_vec()] {
            if !strs.contains(&img) {
                strs.push(img);
            }
        }
        i += 1;
    }
    let ent = entries
        .iter()
        .map(|e| {
            let c = &words.all[*e];
            let ok = dict.get_word_metadata(c).map(|m| m.dialect.is_none_or(|d| d == DIALECTS[dialect])).unwrap_or(false);
            format!("{} {}", if ok { 1 } else { 0 }, field(c))
        })
        .collect::<Vec<_>>()
        .join(" ; ");
    let tab = strs.iter().map(|s| format!("{} , {} , {}", field(s), field(&s.to_lower()), field(&s.normalized()))).collect::<Vec<_>>().join(" ; ");
    let op = format!("acc | {} | {} | {}", field(w), ent, tab);
    let Some(acc) = real_accept else { return };
    let imp = format!("ok {} {} {}", acc as u8, dict.contains_word(w) as u8, dict.contains_exact_word(w) as u8);
    sess.k(&op, &imp);
    // law monitors of the theorems
    let n = w.normalized();
    sess.monitor("Laws.norm_idem (normalized is idempotent)", n.normalized() == n);
    sess.monitor("Laws.key_lower (lower∘normalize∘lower = lower∘normalize)", lownorm(&w.to_lower()) == lownorm(w));
}


// ------------------------------------------------------------------------------------------------
// K `sugg`: what SpellCheck offers for one flagged word (model: Spell.lintSuggestions)
// ------------------------------------------------------------------------------------------------

const HF: &str = "sugg: hf — every candidate suggest_correct_spelling returns is the listed spelling of an entry of the word list (hypothesis of suggestions_are_words_strong / lintSuggestions_are_words)";
const SUGG_UNIQUE: &str = "sugg: UniqueKeys on the entries handed to the model";

/// misspellings of the unit tests of spell_check.rs / spell/mod.rs, dialect words, words whose suggestions are of another dialect
/// only, a word with more than three candidates, words with none within distance 2, non-ASCII first letters
const SUGG_CORPUS: [&str; 44] = [
    "markdown", "harper", "automattic", "color", "colour", "labor", "labour", "organise", "organize", "centre", "center", "punctation", "youre", "thats", "weve", "ths",
    "semantical", "im", "hvllo", "aout", "adviced", "aknowledged", "alcaholic", "slaves", "conciousness", "teh", "recieve", "adress", "wich", "definately", "seperate",
    "thier", "colr", "colur", "favourit", "neighbr", "xqzvyk", "qqqqqqqq", "dont", "alot", "ärger", "élan", "ǆungla", "ßtreet",
];

#[derive(Default)]
struct SuggOut {
    k: Option<(String, String)>,
    fails: Vec<(String, String, Value)>,
    counts: Vec<&'static str>,
    monitors: Vec<(&'static str, bool)>,
    nontrivial: bool,
}

fn words_line(ws: &[Vec<char>]) -> String {
    let mut parts: Vec<String> = vec!["ok".into()];
    for (i, w) in ws.iter().enumerate() {
        if i > 0 {
            parts.push(",".into());
        }
        parts.push(field(w));
    }
    parts.join(" ")
}

fn cap_first_form(w: &[char]) -> Option<Vec<char>> {
    let mut v = w.to_vec();
    let c = v.first_mut()?;
    let up: Vec<char> = c.to_uppercase().collect();
    if up.len() != 1 || up[0] == *c {
        return None;
    }
    *c = up[0];
    Some(v)
}

/// One flagged word `w` under dialect `dialect` and dictionary `dict` (the real curated one, or a small one).
/// `entries_for(s)` = the listed spellings whose lower-cased normalized spelling equals that of `s`, from an index that does
/// not go through `WordId`; `all_rounds` = hand the model the three searches even when the loop stops earlier;
/// `real` = the dictionary is the curated one (oracles and the hf monitor apply).
fn sugg_case<D: Dictionary + Clone>(dict: &D, entries_for: &dyn Fn(&[char]) -> Vec<Vec<char>>, decoys: &[Vec<char>], dialect: Dialect, w: &[char], all_rounds: bool, real: bool, input: Value) -> SuggOut {
    let mut out = SuggOut::default();
    let text: String = w.iter().collect();
    let Ok(doc) = guarded(|| Document::new(&text, &PlainEnglish, dict)) else {
        out.counts.push("sugg:document-panicked(C01's business)");
        return out;
    };
    if !one_word_token(&doc, w.len()) {
        out.counts.push("sugg:not-one-word-token");
        return out;
    }
    // ---- the real SpellCheck, a fresh instance
    let imp = match guarded(|| SpellCheck::new(dict.clone(), dialect).lint(&doc)) {
        Err(e) => {
            if real {
                out.fails.push(("sugg-panic".into(), format!("SpellCheck panics on {:?}: {}", text, e), input.clone()));
            }
            out.counts.push("sugg:real-panics");
            "panic".to_string()
        }
        Ok(ls) => {
            if ls.is_empty() {
                out.counts.push("sugg:accepted(no case)");
                return out;
            }
            if ls.len() != 1 || ls[0].span.start != 0 || ls[0].span.end != w.len() || ls[0].lint_kind != LintKind::Spelling {
                out.fails.push(("sugg-lint-shape".into(), format!("SpellCheck on the single word {:?} reports {:?}", text, ls.iter().map(|l| (l.span.start, l.span.end, l.lint_kind)).collect::<Vec<_>>()), input.clone()));
                return out;
            }
            let mut sv: Vec<Vec<char>> = vec![];
            for s in &ls[0].suggestions {
                match s {
                    Suggestion::ReplaceWith(v) => sv.push(v.clone()),
                    other => out.fails.push(("sugg-not-replace".into(), format!("SpellCheck offers {:?} for {:?}", other, text), input.clone())),
                }
            }
            if sv.len() > 3 {
                out.fails.push(("sugg-more-than-three".into(), format!("SpellCheck offers {} suggestions for {:?}", sv.len(), text), input.clone()));
            }
            if real {
                // the property's clause: every suggestion is a listed word of the active dialect, up to its first letter's case
                for v in &sv {
                    let mut low_first = v.clone();
                    if let Some(c) = low_first.first_mut() {
                        let l: Vec<char> = c.to_lowercase().collect();
                        if l.len() == 1 {
                            *c = l[0];
                        }
                    }
                    let ok = [v, &low_first].iter().any(|cand| {
                        let cand: &[char] = cand.as_slice();
                        entries_for(cand).iter().any(|e| e.as_slice() == cand) && dict.get_word_metadata(cand).is_some_and(|m| m.dialect.is_none_or(|x| x == dialect))
                    });
                    if !ok {
                        out.fails.push(("suggestion-not-a-word".into(), format!("suggestion {:?} for {:?} is not a dictionary word of the dialect", v.iter().collect::<String>(), text), input.clone()));
                    }
                    out.counts.push("suggestion-checked");
                }
            }
            match sv.len() {
                0 => out.counts.push("sugg:offers-0"),
                1 => out.counts.push("sugg:offers-1"),
                2 => out.counts.push("sugg:offers-2"),
                _ => out.counts.push("sugg:offers-3"),
            }
            out.nontrivial = !sv.is_empty();
            words_line(&sv)
        }
    };
    // ---- the searches, from the public API
    let mut rounds: Vec<Vec<Vec<char>>> = vec![];
    let mut found = false;
    for dist in 2u8..5 {
        if found && !all_rounds {
            break;
        }
        let r: Vec<Vec<char>> = match guarded(|| suggest_correct_spelling(w, 100, dist, dict).into_iter().map(|v| v.to_vec()).collect()) {
            Ok(r) => r,
            Err(_) => {
                out.counts.push("sugg:search-panicked(no case)");
                return out;
            }
        };
        if !found && !r.is_empty() {
            found = true;
            out.counts.push(match dist { 2 => "sugg:found-at-distance-2", 3 => "sugg:found-at-distance-3", _ => "sugg:found-at-distance-4" });
            if r.len() > 3 {
                out.counts.push("sugg:more-than-three-candidates");
            }
            if real {
                out.monitors.push((HF, r.iter().all(|s| entries_for(s).iter().any(|e| e == s))));
            }
        }
        rounds.push(r);
    }
    if !found {
        out.counts.push("sugg:nothing-within-distance-4");
    }
    if all_rounds {
        out.counts.push("sugg:all-three-searches-given");
    }
    // ---- the entries the candidates name (+ decoys), the lower / normalize table (identity rows left out), the characters
    let mut canons: Vec<Vec<char>> = decoys.to_vec();
    for r in &rounds {
        for s in r {
            canons.extend(entries_for(s));
        }
    }
    canons.sort();
    canons.dedup();
    {
        let mut keys: Vec<String> = canons.iter().map(|c| lownorm(c)).collect();
        keys.sort();
        let n = keys.len();
        keys.dedup();
        out.monitors.push((SUGG_UNIQUE, keys.len() == n));
    }
    let mut dropped = false;
    let ent = canons
        .iter()
        .map(|c| {
            let ok = dict.get_word_metadata(c).map(|m| m.dialect.is_none_or(|d| d == dialect)).unwrap_or(false);
            if !ok && rounds.iter().find(|r| !r.is_empty()).is_some_and(|r| r.contains(c)) {
                dropped = true;
            }
            format!("{} {}", if ok { 1 } else { 0 }, field(c))
        })
        .collect::<Vec<_>>()
        .join(" ; ");
    if dropped {
        out.counts.push("sugg:a-candidate-of-another-dialect");
    }
    let mut strs: Vec<Vec<char>> = vec![];
    for x in canons.iter().chain(rounds.iter().flatten()) {
        for y in [x.clone(), x.normalized().to_vec()] {
            if !strs.contains(&y) {
                strs.push(y);
            }
        }
    }
    let tab = strs
        .iter()
        .filter(|s| s.to_lower().as_ref() != s.as_slice() || s.normalized().as_ref() != s.as_slice())
        .map(|s| format!("{} , {} , {}", field(s), field(&s.to_lower()), field(&s.normalized())))
        .collect::<Vec<_>>()
        .join(" ; ");
    // every letter of the word (the model reads the first one only — a model that read another would be caught), the first of every candidate
    let mut chars: Vec<char> = w.iter().copied().chain(rounds.iter().flatten().filter_map(|s| s.first().copied())).collect();
    chars.sort();
    chars.dedup();
    if w.first().is_some_and(|c| c.is_uppercase()) {
        out.counts.push("sugg:capitalised-word");
    } else if w.iter().any(|c| c.is_uppercase()) {
        out.counts.push("sugg:upper-case-letter-not-first");
    }
    let cf = chars.iter().map(|c| format!("{}/{}/{}", *c as u32, if c.is_uppercase() { "u" } else { "n" }, c.to_uppercase().next().unwrap_or(*c) as u32)).collect::<Vec<_>>().join(" ");
    let rs = rounds.iter().map(|r| r.iter().map(|s| field(s)).collect::<Vec<_>>().join(" , ")).collect::<Vec<_>>().join(" ; ");
    out.k = Some((format!("sugg | {} | {} | {} | {} | {}", field(w), rs, ent, tab, cf), imp));
    out
}

/// A small dictionary for the exhaustive scope: a real `MutableDictionary` (its `get_word_metadata`, `contains_exact_word`,
/// `fuzzy_match` are the code's) whose `fuzzy_match` additionally returns `ghost` — a word the dictionary does not contain —
/// when the distance allowed reaches `ghost.1` (the `unwrap()` in the dialect filter of `SpellCheck` is reached only so)
#[derive(Clone)]
struct SmallDict {
    inner: std::sync::Arc<MutableDictionary>,
    ghost: Option<(Vec<char>, u8)>,
    ghost_md: WordMetadata,
}

impl Dictionary for SmallDict {
    fn contains_word(&self, word: &[char]) -> bool {
        self.inner.contains_word(word)
    }
    fn contains_word_str(&self, word: &str) -> bool {
        self.inner.contains_word_str(word)
    }
    fn contains_exact_word(&self, word: &[char]) -> bool {
        self.inner.contains_exact_word(word)
    }
    fn contains_exact_word_str(&self, word: &str) -> bool {
        self.inner.contains_exact_word_str(word)
    }
    fn fuzzy_match(&self, word: &[char], max_distance: u8, max_results: usize) -> Vec<FuzzyMatchResult<'_>> {
        let mut v = self.inner.fuzzy_match(word, max_distance, max_results);
        if let Some((g, d)) = &self.ghost {
            if *d <= max_distance {
                v.push(FuzzyMatchResult { word: g, edit_distance: *d, metadata: &self.ghost_md });
            }
        }
        v
    }
    fn fuzzy_match_str(&self, word: &str, max_distance: u8, max_results: usize) -> Vec<FuzzyMatchResult<'_>> {
        let w: Vec<char> = word.chars().collect();
        self.fuzzy_match(&w, max_distance, max_results)
    }
    fn get_correct_capitalization_of(&self, word: &[char]) -> Option<&'_ [char]> {
        self.inner.get_correct_capitalization_of(word)
    }
    fn get_word_metadata(&self, word: &[char]) -> Option<&WordMetadata> {
        self.inner.get_word_metadata(word)
    }
    fn get_word_metadata_str(&self, word: &str) -> Option<&WordMetadata> {
        self.inner.get_word_metadata_str(word)
    }
    fn words_iter(&self) -> Box<dyn Iterator<Item = &'_ [char]> + Send + '_> {
        self.inner.words_iter()
    }
    fn word_count(&self) -> usize {
        self.inner.word_count()
    }
    fn get_word_from_id(&self, id: &WordId) -> Option<&[char]> {
        self.inner.get_word_from_id(id)
    }
}

fn merge_sugg(sess: &mut Session, o: SuggOut, key: &str) {
    for c in o.counts {
        sess.count(c);
    }
    for (m, held) in o.monitors {
        sess.monitor(m, held);
    }
    if o.nontrivial {
        sess.nontrivial(key);
    }
    if let Some((op, imp)) = o.k {
        sess.k(&op, &imp);
        sess.count("sugg:k-cases");
    }
    for (c, m, i) in o.fails {
        sess.fail(&c, m, i, None);
    }
}

/// the exhaustive small scope: every dictionary over six words (each absent / of every dialect / American / British) at
/// edit distances 1, 1, 2, 1 (capitalised entry), 3, 4 of the query × query `abcd` / `Abcd` / `aBCD` × no ghost / a ghost at distance 1 /
/// a ghost at distance 3 × SpellCheck American / British. `part` of `parts` (quick: a quarter, by seed).
const SMALL_POOL: [&str; 6] = ["abcx", "abcy", "abxy", "Abcq", "axyz", "wxyz"];
const SMALL_GHOSTS: [Option<(&str, u8)>; 3] = [None, Some(("abcg", 1)), Some(("azzz", 3))];
const SMALL_QUERIES: [&str; 3] = ["abcd", "Abcd", "aBCD"];

fn sugg_small_total() -> usize {
    4usize.pow(SMALL_POOL.len() as u32) * SMALL_QUERIES.len() * SMALL_GHOSTS.len() * 2
}

/// case `j` of the small scope
fn sugg_small_job(j: usize) -> SuggOut {
    let n_dicts = 4usize.pow(SMALL_POOL.len() as u32);
    let (di, rest) = (j % n_dicts, j / n_dicts);
    let (qi, rest) = (rest % SMALL_QUERIES.len(), rest / SMALL_QUERIES.len());
    let (gi, li) = (rest % SMALL_GHOSTS.len(), (rest / SMALL_GHOSTS.len()) % 2);
    let mut md = MutableDictionary::new();
    let mut listed: Vec<Vec<char>> = vec![];
    let mut code = di;
    for p in SMALL_POOL.iter() {
        let st = code % 4;
        code /= 4;
        if st == 0 {
            continue;
        }
        let mut m = WordMetadata::default();
        m.dialect = match st { 1 => None, 2 => Some(Dialect::American), _ => Some(Dialect::British) };
        md.append_word(cs(p), m);
        listed.push(cs(p));
    }
    let dict = SmallDict { inner: std::sync::Arc::new(md), ghost: SMALL_GHOSTS[gi].map(|(g, d)| (cs(g), d)), ghost_md: WordMetadata::default() };
    let w = cs(SMALL_QUERIES[qi]);
    let dialect = if li == 0 { Dialect::American } else { Dialect::British };
    let listed2 = listed.clone();
    let entries_for = move |s: &[char]| -> Vec<Vec<char>> { let k = lownorm(s); listed2.iter().filter(|e| lownorm(e) == k).cloned().collect() };
    // every listed word is handed to the model (not only those the candidates name)
    sugg_case(&dict, &entries_for, &listed, dialect, &w, true, false, json!({"kind": "sugg-small", "job": j}))
}

fn sugg_small_scope(sess: &mut Session, part: usize, parts: usize) {
    // a mixing hash picks the part (`j % parts` would pin the state of the first pool word)
    let mix = |j: usize| ((j as u64).wrapping_mul(0x9E37_79B9_7F4A_7C15) >> 33) as usize;
    let jobs: Vec<usize> = (0..sugg_small_total()).filter(|j| mix(*j) % parts == part).collect();
    let results = par_map(jobs.len(), 16, |ji| sugg_small_job(jobs[ji]));
    for (ji, o) in results.into_iter().enumerate() {
        sess.count("sugg:small-scope-cases");
        merge_sugg(sess, o, &format!("sugg-small:{}", jobs[ji]));
    }
}

/// corpus + random single-edit mutations of listed words, on the curated dictionary. One parallel pass (the thread-local
/// Levenshtein automaton builders of fst_dictionary.rs are expensive to set up for distances 3 and 4); returns the corpus cases and
/// the others separately, so that the K lines come corpus → small scope → random.
fn sugg_real_streams(ctx: &Ctx, words: &Words, dialects: &[usize], rng: &mut Rng) -> (Vec<(String, SuggOut)>, Vec<(String, SuggOut)>) {
    let thorough = ctx.tier == Tier::Thorough;
    let mut jobs: Vec<(Vec<char>, usize, bool, Vec<usize>)> = vec![]; // word, dialect index, all three searches, decoy entries
    // 1. corpus: every word as it is, capitalised, upper-case × dialects; all three searches for the plain form
    for t in SUGG_CORPUS.iter() {
        let base = cs(t);
        let mut forms: Vec<(Vec<char>, bool)> = vec![(base.clone(), false)];
        if let Some(c) = cap_first_form(&base) {
            forms.push((c, false));
        }
        let up: Vec<char> = t.to_uppercase().chars().collect();
        if !forms.iter().any(|f| f.0 == up) {
            forms.push((up, true));
        }
        // upper-case letters but not the first one: nothing is capitalised
        let inner: Vec<char> = base.iter().enumerate().map(|(i, c)| if i == 0 { *c } else { c.to_uppercase().next().unwrap_or(*c) }).collect();
        if base.first().is_some_and(|c| c.is_lowercase()) && !forms.iter().any(|f| f.0 == inner) {
            forms.push((inner, true));
        }
        for (fi, (f, upper)) in forms.iter().enumerate() {
            for &d in dialects {
                // upper-case forms find nothing within distance 2 (three searches, twice): quick tier, first dialect only
                if *upper && !thorough && d != dialects[0] {
                    continue;
                }
                jobs.push((f.clone(), d, fi == 0 && (thorough || d == dialects[0]), vec![rng.below(words.all.len())]));
            }
        }
    }
    let n_corpus = jobs.len();
    // 2. listed words of one dialect only, looked at from another dialect (flagged, the listed spelling itself is filtered out)
    let dict = FstDictionary::curated();
    let tagged: Vec<usize> = (0..words.all.len()).filter(|i| dict.get_word_metadata(&words.all[*i]).is_some_and(|m| m.dialect.is_some())).collect();
    let n_tag = if thorough { 400 } else { 60 };
    for _ in 0..n_tag.min(tagged.len()) {
        let w = words.all[*rng.pick(&tagged)].clone();
        for &d in dialects {
            let f = if rng.chance(1, 3) { cap_first_form(&w).unwrap_or(w.clone()) } else { w.clone() };
            jobs.push((f, d, false, vec![rng.below(words.all.len())]));
        }
    }
    // 3. random single edits of listed words (insert / replace / delete / swap / double a letter), a third of them capitalised,
    //    one in ten upper-case, one in ten with one inner letter upper-cased; one in thirty-two with all three searches
    let n_rand = if thorough { 6000 } else { 700 };
    for _ in 0..n_rand {
        let base = words.all[rng.below(words.all.len())].clone();
        let mut w: Vec<char> = base.iter().copied().filter(|c| c.is_alphabetic()).collect();
        if w.len() < 3 {
            continue;
        }
        let letter = |rng: &mut Rng| (b'a' + rng.below(26) as u8) as char;
        match rng.below(5) {
            0 => { let at = rng.below(w.len() + 1); let c = letter(rng); w.insert(at, c); }
            1 => { let at = rng.below(w.len()); w[at] = letter(rng); }
            2 => { let at = rng.below(w.len()); w.remove(at); }
            3 => { let at = rng.below(w.len() - 1); w.swap(at, at + 1); }
            _ => { let at = rng.below(w.len()); let c = w[at]; w.insert(at, c); }
        }
        match rng.below(10) {
            0..=2 => { if let Some(c) = cap_first_form(&w) { w = c; } }
            3 => { let u: Vec<char> = w.iter().collect::<String>().to_uppercase().chars().collect(); w = u; }
            4 => { let at = 1 + rng.below(w.len() - 1); w[at] = w[at].to_uppercase().next().unwrap_or(w[at]); }
            _ => {}
        }
        let d = dialects[rng.below(dialects.len())];
        jobs.push((w, d, rng.chance(1, 32), vec![rng.below(words.all.len()), rng.below(words.all.len())]));
    }
    let results = par_map(jobs.len(), 16, |i| {
        let (w, d, all, decoys) = &jobs[i];
        let dict = FstDictionary::curated();
        let entries_for = |s: &[char]| -> Vec<Vec<char>> { words.by_key.get(&lownorm(s)).map(|v| v.iter().map(|i| words.all[*i].clone()).collect()).unwrap_or_default() };
        let decoys: Vec<Vec<char>> = decoys.iter().map(|i| words.all[*i].clone()).collect();
        sugg_case(&dict, &entries_for, &decoys, DIALECTS[*d], w, *all, true, json!({"kind": "sugg", "text": w.iter().collect::<String>(), "dialect": d}))
    });
    let mut corpus = vec![];
    let mut rest = vec![];
    for (i, o) in results.into_iter().enumerate() {
        let key = format!("sugg:{}:{}", jobs[i].1, jobs[i].0.iter().collect::<String>());
        if i < n_corpus { corpus.push((key, o)) } else { rest.push((key, o)) }
    }
    (corpus, rest)
}

pub fn run(ctx: &Ctx) {
    let mut sess = Session::new(ctx);
    let mut rng = Rng::new(ctx.seed);
    let dict = FstDictionary::curated();
    let all: Vec<Vec<char>> = { let mut v: Vec<Vec<char>> = dict.words_iter().map(|w| w.to_vec()).collect(); v.sort(); v };
    let mut by_key: HashMap<String, Vec<usize>> = HashMap::new();
    for (i, w) in all.iter().enumerate() {
        by_key.entry(lownorm(w)).or_default().push(i);
    }
    // monitor: keys unique (UniqueKeys hypothesis of the theorems)
    let dup = by_key.values().filter(|v| v.len() > 1).count();
    sess.monitors.insert("UniqueKeys (no two listed words share a lower-cased normalized spelling)".into(), (by_key.len() as u64, dup as u64));
    let words = Words { all, by_key };
    sess.add("dictionary_words", words.all.len() as u64);

    if let Some(v) = replay_input(ctx) {
        let text = v["text"].as_str().unwrap_or("").to_string();
        let d = v["dialect"].as_u64().unwrap_or(0) as usize;
        if let Some(uw) = v.get("merged_user_words").and_then(|a| a.as_array()) {
            use harper_core::{MergedDictionary, MutableDictionary, WordMetadata};
            use std::sync::Arc;
            let mut user = MutableDictionary::new();
            for w in uw.iter().filter_map(|w| w.as_str()) {
                user.append_word_str(w, WordMetadata::default());
            }
            let mut merged = MergedDictionary::new();
            merged.add_dictionary(FstDictionary::curated());
            merged.add_dictionary(Arc::new(user));
            let merged = Arc::new(merged);
            let mut lg = LintGroup::new_curated(merged.clone(), Dialect::American);
            lg.config.clear();
            lg.set_all_rules_to(Some(false));
            lg.config.set_rule_enabled("SpellCheck", true);
            let flagged = guarded(|| {
                let doc = Document::new(&text, &PlainEnglish, &*merged);
                lg.lint(&doc).into_iter().any(|l| l.lint_kind == LintKind::Spelling)
            });
            if flagged != Ok(false) {
                sess.fail("listed-word-flagged", format!("still fails: {}", v), v.clone(), None);
            }
            sess.o();
            sess.nontrivial("replay-a");
            sess.nontrivial("replay-b");
            sess.finish("replay of one recorded merged-dictionary input", false, json!({}));
            return;
        }
        if v["kind"].as_str() == Some("sugg-small") {
            let o = sugg_small_job(v["job"].as_u64().unwrap_or(0) as usize % sugg_small_total());
            merge_sugg(&mut sess, o, "replay-sugg-small");
            sess.o();
            sess.nontrivial("replay-a");
            sess.nontrivial("replay-b");
            sess.finish("replay of one recorded sugg small-scope case", false, json!({}));
            return;
        }
        if v["kind"].as_str() == Some("sugg") {
            let entries_for = |s: &[char]| -> Vec<Vec<char>> { words.by_key.get(&lownorm(s)).map(|v| v.iter().map(|i| words.all[*i].clone()).collect()).unwrap_or_default() };
            let o = sugg_case(&dict, &entries_for, &[], DIALECTS[d.min(3)], &cs(&text), true, true, v.clone());
            merge_sugg(&mut sess, o, "replay-sugg");
            sess.o();
            sess.nontrivial("replay-a");
            sess.nontrivial("replay-b");
            sess.finish("replay of one recorded sugg input", false, json!({}));
            return;
        }
        let mut lg = only_spellcheck(DIALECTS[d]);
        if let Ok((doc, lints)) = spelling_lints(&mut lg, &text) {
            sess.sample(json!({"text": text, "tokens": crate::tokfmt::toks_show(doc.get_tokens()), "spelling_lints": lints.iter().map(|l| (l.span.start, l.span.end)).collect::<Vec<_>>()}));
            if let Some(exp) = v.get("expect_flagged").and_then(|b| b.as_bool()) {
                if exp != !lints.is_empty() {
                    sess.fail("replayed", format!("still fails: {}", v), v.clone(), None);
                }
            }
        }
        sess.o();
        sess.nontrivial("replay-a");
        sess.nontrivial("replay-b");
        sess.finish("replay of one recorded input", false, json!({}));
        return;
    }

    let dialects: Vec<usize> = if ctx.tier == Tier::Thorough { vec![0, 1, 2, 3] } else { vec![0, 1] };
    let stride = if ctx.tier == Tier::Thorough { 1 } else { 3 };
    let offset = (ctx.seed as usize) % stride;
    let idxs: Vec<usize> = (0..words.all.len()).filter(|i| i % stride == offset).collect();
    // ---- O1: every listed word, alone and embedded; capitalised / upper-case forms -----------------
    struct R {
        k: Option<(Vec<char>, bool)>,
        fails: Vec<(String, String, Value)>,
        counts: Vec<&'static str>,
    }
    for &d in &dialects {
        let chunks: Vec<&[usize]> = idxs.chunks(2000).collect();
        let results = par_map(chunks.len(), 16, |ci| {
            let mut lg = only_spellcheck(DIALECTS[d]);
            let dict = FstDictionary::curated();
            let mut out: Vec<R> = vec![];
            for &i in chunks[ci] {
                let w = &words.all[i];
                let ws: String = w.iter().collect();
                let mut r = R { k: None, fails: vec![], counts: vec![] };
                let admitted = dict.get_word_metadata(w).map(|m| m.dialect.is_none_or(|x| x == DIALECTS[d])).unwrap_or(false);
                let forms: Vec<(String, &'static str)> = {
                    let mut f = vec![(ws.clone(), "listed")];
                    if w.iter().all(|c| c.is_lowercase() || !c.is_alphabetic()) && w.first().is_some_and(|c| c.is_alphabetic()) {
                        let mut cap = w.clone();
                        let up: Vec<char> = cap[0].to_uppercase().collect();
                        if up.len() == 1 {
                            cap[0] = up[0];
                            f.push((cap.iter().collect(), "capitalised"));
                        }
                        let upper: String = ws.to_uppercase();
                        if upper.chars().count() == w.len() {
                            f.push((upper, "upper-case"));
                        }
                    }
                    f
                };
                for (form, what) in forms {
                    let fc = cs(&form);
                    for embed in [false, true] {
                        let (text, at) = if embed { (format!("We saw {} today.", form), 7usize) } else { (form.clone(), 0usize) };
                        match spelling_lints(&mut lg, &text) {
                            Err(m) => r.fails.push(("panic".into(), m, json!({"text": text, "dialect": d}))),
                            Ok((doc, lints)) => {
                                let covering: Vec<&Lint> = lints.iter().filter(|l| l.span.start < at + fc.len() && at < l.span.end).collect();
                                let flagged = !covering.is_empty();
                                let single = doc.get_tokens().iter().any(|t| matches!(t.kind, TokenKind::Word(_)) && t.span.start == at && t.span.end == at + fc.len());
                                if !embed && what == "listed" {
                                    r.k = Some((w.clone(), !flagged && single));
                                    if !single {
                                        r.k = None;
                                    }
                                }
                                if admitted && flagged {
                                    let class = if !single && unlexable_shape(&fc) { "c06-unlexable-entry" } else { "listed-word-flagged" };
                                    r.fails.push((class.into(), format!("{} form {:?} of a listed word is reported misspelt ({})", what, form, if embed { "embedded" } else { "alone" }), json!({"text": text, "dialect": d, "expect_flagged": false})));
                                } else if admitted {
                                    r.counts.push("listed-accepted");
                                } else if !flagged && single && what == "listed" {
                                    // a word of another dialect only must be reported
                                    let other_entry_ok = false;
                                    if !other_entry_ok {
                                        r.fails.push(("other-dialect-accepted".into(), format!("{:?} is listed for another dialect only but accepted", form), json!({"text": text, "dialect": d, "expect_flagged": true})));
                                    }
                                } else {
                                    r.counts.push("other-dialect-flagged");
                                }
                                // suggestions are words of the active dialect (up to the first letter's case)
                                for l in &covering {
                                    for s in &l.suggestions {
                                        if let Suggestion::ReplaceWith(sv) = s {
                                            let mut low_first = sv.clone();
                                            if let Some(c) = low_first.first_mut() {
                                                let l: Vec<char> = c.to_lowercase().collect();
                                                if l.len() == 1 {
                                                    *c = l[0];
                                                }
                                            }
                                            let ok = [sv, &low_first].iter().any(|cand| {
                                                dict.contains_exact_word(cand) && dict.get_word_metadata(cand).is_some_and(|m| m.dialect.is_none_or(|x| x == DIALECTS[d]))
                                            });
                                            if !ok {
                                                r.fails.push(("suggestion-not-a-word".into(), format!("suggestion {:?} for {:?} is not a dictionary word of the dialect", sv.iter().collect::<String>(), form), json!({"text": text, "dialect": d})));
                                            }
                                            r.counts.push("suggestion-checked");
                                        }
                                    }
                                }
                            }
                        }
                    }
                }
                out.push(r);
            }
            out
        });
        for rs in results {
            for r in rs {
                sess.o();
                for c in r.counts {
                    sess.count(c);
                }
                if let Some((w, acc)) = r.k {
                    if rng.chance(1, 8) {
                        k_case(&mut sess, &words, &dict, d, &w, &mut rng, Some(acc));
                        sess.nontrivial(&format!("{}:{}", d, w.iter().collect::<String>()));
                    }
                }
                for (c, m, i) in r.fails {
                    sess.fail(&c, m, i, None);
                }
            }
        }
    }
    // ---- O2 + K: non-words (edited dictionary words, random letter strings, re-cased entries) -------
    let n_non = if ctx.tier == Tier::Thorough { 60000 } else { 12000 };
    let mut cands: Vec<(Vec<char>, usize)> = vec![];
    for _ in 0..n_non {
        let base = words.all[rng.below(words.all.len())].clone();
        let mut w: Vec<char> = base.iter().copied().filter(|c| c.is_ascii_alphabetic()).collect();
        if w.len() < 3 {
            continue;
        }
        match rng.below(5) {
            0 => { let at = rng.below(w.len()); w.insert(at, (b'a' + rng.below(26) as u8) as char); }
            1 => { let at = rng.below(w.len()); w[at] = (b'a' + rng.below(26) as u8) as char; }
            2 => { let at = rng.below(w.len() - 1); w.swap(at, at + 1); }
            3 => { w = (0..rng.range(4, 10)).map(|_| (b'a' + rng.below(26) as u8) as char).collect(); }
            _ => { // re-case: lower-case a capitalised entry / random case
                for c in w.iter_mut() { if rng.chance(1, 3) { *c = if c.is_lowercase() { c.to_ascii_uppercase() } else { c.to_ascii_lowercase() }; } }
            }
        }
        cands.push((w, rng.below(dialects.len())));
    }
    let chunks: Vec<&[(Vec<char>, usize)]> = cands.chunks(1000).collect();
    let results = par_map(chunks.len(), 16, |ci| {
        let dict = FstDictionary::curated();
        let mut groups: HashMap<usize, LintGroup> = HashMap::new();
        let mut out = vec![];
        for (w, di) in chunks[ci] {
            let d = dialects[*di];
            let lg = groups.entry(d).or_insert_with(|| only_spellcheck(DIALECTS[d]));
            let form: String = w.iter().collect();
            let text = format!("We saw {} today.", form);
            let r = spelling_lints(lg, &text);
            // ground truth, computed without WordId: is there a listed word with the same letters
            // under some capitalisation the property admits?
            let key = lownorm(w);
            let listed: Vec<&Vec<char>> = words.by_key.get(&key).map(|v| v.iter().map(|i| &words.all[*i]).collect()).unwrap_or_default();
            out.push((w.clone(), d, text, r, listed.iter().map(|x| (*x).clone()).collect::<Vec<_>>()));
        }
        let _ = dict;
        out
    });
    for rs in results {
        for (w, d, text, r, listed) in rs {
            sess.o();
            let Ok((doc, lints)) = r else {
                sess.fail("panic", "lint panicked".into(), json!({"text": text, "dialect": d}), None);
                continue;
            };
            let at = 7usize;
            let covering: Vec<&Lint> = lints.iter().filter(|l| l.span.start < at + w.len() && at < l.span.end).collect();
            let flagged = !covering.is_empty();
            if listed.is_empty() {
                sess.count("nonword");
                // "every Latin-alphabet word the dictionary does not contain under any capitalisation is reported,
                // with a span covering exactly that word"
                if !flagged {
                    sess.fail("nonword-accepted", format!("{:?} is in no capitalisation in the dictionary but is not reported", w.iter().collect::<String>()), json!({"text": text, "dialect": d, "expect_flagged": true}), None);
                } else if !(covering.len() == 1 && covering[0].span.start == at && covering[0].span.end == at + w.len()) {
                    sess.fail("span-not-exact", format!("spelling lint for {:?} covers {:?}", w.iter().collect::<String>(), covering.iter().map(|l| (l.span.start, l.span.end)).collect::<Vec<_>>()), json!({"text": text, "dialect": d}), None);
                }
                sess.nontrivial(&format!("non:{}", w.iter().collect::<String>()));
            } else {
                sess.count("recased-listed");
            }
            // K on the decision for this word
            let single = doc.get_tokens().iter().any(|t| matches!(t.kind, TokenKind::Word(_)) && t.span.start == at && t.span.end == at + w.len());
            if single {
                k_case(&mut sess, &words, &dict, d, &w, &mut rng, Some(!flagged));
            }
        }
    }
    // ---- the ACTIVE dictionary of every front-end is a merged one: curated first, then the user's
    //      (harper-ls, harper-cli, harper-wasm all build `MergedDictionary[curated, user, …]`). Words
    //      the user lists must be accepted in their listed capitalisation — also when the curated
    //      dictionary lists the same letters in another case (`markdown` next to `Markdown`).
    {
        use harper_core::{MergedDictionary, MutableDictionary, WordMetadata};
        use std::sync::Arc;
        let mut user_words: Vec<String> = vec!["markdown".into(), "github".into(), "javascript".into(), "Zqxvword".into(), "zqxvlower".into(), "naïvetéx".into()];
        // case variants of curated entries: lower-cased proper nouns, capitalised / upper-cased common words
        let nvar = if ctx.tier == Tier::Thorough { 1500 } else { 200 };
        let mut seen = 0;
        for (i, w) in words.all.iter().enumerate() {
            if (i + ctx.seed as usize) % 97 != 0 || unlexable_shape(w) || w.len() < 3 {
                continue;
            }
            let ws: String = w.iter().collect();
            if ws.chars().any(|c| c.is_uppercase()) {
                user_words.push(ws.to_lowercase());
            } else {
                user_words.push(ws.to_uppercase());
                let mut c = ws.chars();
                if let Some(f) = c.next() {
                    user_words.push(format!("{}{}x", f.to_uppercase(), c.as_str())); // a NEW word next to it
                }
            }
            seen += 1;
            if seen >= nvar {
                break;
            }
        }
        user_words.sort();
        user_words.dedup();
        let mut user = MutableDictionary::new();
        for w in &user_words {
            user.append_word_str(w, WordMetadata::default());
        }
        let mut merged = MergedDictionary::new();
        merged.add_dictionary(FstDictionary::curated());
        merged.add_dictionary(Arc::new(user));
        let merged = Arc::new(merged);
        let mut lg = LintGroup::new_curated(merged.clone(), Dialect::American);
        lg.config.clear();
        lg.set_all_rules_to(Some(false));
        lg.config.set_rule_enabled("SpellCheck", true);
        sess.monitor("the merged dictionary lists every user word in its listed capitalisation (words_iter)", user_words.iter().all(|w| merged.words_iter().any(|x| x.iter().copied().eq(w.chars()))));
        for w in &user_words {
            for text in [w.clone(), format!("We saw {} today.", w)] {
                sess.o();
                let at = if text.len() == w.len() { 0 } else { 7 };
                let wl = w.chars().count();
                let r = guarded(|| {
                    let doc = Document::new(&text, &PlainEnglish, &*merged);
                    let l: Vec<Lint> = lg.lint(&doc).into_iter().filter(|l| l.lint_kind == LintKind::Spelling).collect();
                    let single = doc.get_tokens().iter().any(|t| matches!(t.kind, TokenKind::Word(_)) && t.span.start == at && t.span.end == at + wl);
                    (l, single)
                });
                let Ok((lints, single)) = r else {
                    sess.fail("panic", "lint panicked".into(), json!({"text": text, "merged_user_words": [w]}), None);
                    continue;
                };
                if !single {
                    sess.count("merged:not-one-word-token");
                    continue;
                }
                sess.count("merged:user-word");
                if lints.iter().any(|l| l.span.start < at + wl && at < l.span.end) {
                    sess.fail("listed-word-flagged", format!("{:?} is listed by the user dictionary of the merged (active) dictionary in exactly this capitalisation but is reported", w), json!({"text": text, "merged_user_words": [w], "dialect": 0}), None);
                } else {
                    sess.nontrivial(&format!("merged:{}", w));
                }
            }
        }
    }
    // ---- K `sugg`: corpus → exhaustive small scope → random single edits -----------------------------------
    let (corpus_cases, other_cases) = sugg_real_streams(ctx, &words, &dialects, &mut rng);
    for (key, o) in corpus_cases {
        sess.count("sugg:corpus-cases");
        merge_sugg(&mut sess, o, &key);
    }
    let parts = if ctx.tier == Tier::Thorough { 1 } else { 4 };
    sugg_small_scope(&mut sess, (ctx.seed as usize) % parts, parts);
    for (key, o) in other_cases {
        sess.count("sugg:dialect-word-and-random-edit-cases");
        merge_sugg(&mut sess, o, &key);
    }
    sess.finish(
        "O: every listed word of the curated dictionary (quick: every 3rd, offset by seed; thorough: all) × dialects (quick: American, British; thorough: all 4), alone and embedded in `We saw _ today.`, in its listed form and — for lower-case entries — capitalised and upper-case: must not be reported when the dialect admits it, must be reported when it is listed for another dialect only; non-words (edited / re-cased dictionary words, random letter strings; ground truth from an index keyed by to_lower∘normalized, independent of WordId) must be reported with a span covering exactly the word; every suggestion must be a word of the active dialect up to its first letter's case; the same through a MERGED dictionary (curated + a user dictionary holding case variants of curated entries and new words): every user word is accepted in its listed capitalisation. K: accept / contains_word / contains_exact_word vs the Lean model on a sample of those words, the model being given the matching slice of the real word list plus decoys. K sugg: the suggestion list of the lint a fresh REAL SpellCheck reports on a single flagged word vs Spell.lintSuggestions (the function suggestions_are_words_strong / lintSuggestions_are_words are about) given what suggest_correct_spelling(w, 100, 2|3|4) returns (the searches the back-off loop runs; all three in a share of the cases), the entries of the word list the candidates name with their dialect flag (from an index independent of WordId) plus decoys, the to_lower / normalized images and is_uppercase / to_uppercase of the first letters; streams: 44 misspellings (unit tests of spell_check.rs and spell/mod.rs, dialect words, no candidate within distance 2, non-ASCII first letters) plain / Capitalised / UPPER / all-but-the-first-letter upper-cased × dialects; EXHAUSTIVE small scope: every dictionary over six words at distances 1, 1, 2, 1 (capitalised entry), 3, 4 of the query, each absent / untagged / American / British (a real MutableDictionary) × query abcd / Abcd / aBCD (upper-case letters, but not the first) × no ghost / a candidate the dictionary does not know at distance 1 / at distance 3 (the unwrap of the dialect filter: panic) × SpellCheck American / British (quick: a quarter of the 73728, by seed); words listed for one dialect only seen from the dialects run; random single edits (insert / replace / delete / swap / double) of listed words, 30 % capitalised, 10 % upper-case, 10 % one inner letter upper-cased. O on them: one Spelling lint on exactly the word, at most three suggestions, all ReplaceWith, each a listed word of the active dialect up to its first letter's case, no panic on the curated dictionary; monitors: hf (every candidate is a listed spelling), UniqueKeys on the entries handed over. Non-trivial = distinct (dialect, word) K cases, distinct non-words and sugg cases with at least one suggestion.",
        ctx.tier == Tier::Thorough,
        json!({"exhaustive_scope": if ctx.tier == Tier::Thorough { "all dictionary words × 4 dialects × {listed, Capitalised, UPPER} × {alone, embedded}" } else { "one third of the dictionary × 2 dialects" }}),
    );
}
