//! C18 — `make_title_case` against the Lean model (`Harper/Model/Title.lean`), and the property's
//! four clauses on `make_title_case_str` / `harper_wasm::to_title_case`.
use crate::common::*;
use harper_core::parsers::{Markdown, PlainEnglish};
use harper_core::{CharStringExt, Dictionary, Document, FstDictionary, Token, TokenKind, make_title_case, make_title_case_str};
use serde_json::{Value, json};
use std::sync::Arc;

struct Env {
    dict: Arc<FstDictionary>,
    proper: Vec<String>,
    proper_apos: Vec<String>,
    lower_words: Vec<String>,
}

fn commas(v: &[char]) -> String {
    if v.is_empty() { "-".to_string() } else { v.iter().map(|x| (*x as u32).to_string()).collect::<Vec<_>>().join(",") }
}

/// what `make_title_case` / `should_capitalize_token` consult about one token
#[derive(PartialEq, Eq, Debug, Clone)]
struct Consulted {
    start: usize,
    stop: usize,
    word_like: bool,
    has_meta: bool,
    prep: bool,
    det: bool,
    lower: Vec<char>,
    canon: Option<Vec<char>>,
}

impl Consulted {
    fn should_cap_token(&self) -> bool {
        if !self.has_meta {
            return true;
        }
        let special = ["and", "but", "for", "or", "nor"].iter().any(|w| w.chars().eq(self.lower.iter().copied()));
        !(self.prep && self.stop - self.start <= 4) && !self.det && !special
    }
    /// the part the model's `CaseStable` speaks about
    fn decisive(&self) -> (usize, usize, bool, Option<Vec<char>>, bool) {
        (self.start, self.stop, self.word_like, self.canon.clone(), self.should_cap_token())
    }
    fn word(&self) -> String {
        format!(
            "{}:{}:{}:{}:{}:{}:{}:{}",
            self.start,
            self.stop,
            self.word_like as u8,
            self.has_meta as u8,
            self.prep as u8,
            self.det as u8,
            commas(&self.lower),
            match &self.canon {
                None => "n".to_string(),
                Some(c) => commas(c),
            }
        )
    }
}

fn consult(t: &Token, source: &[char], dict: &FstDictionary) -> Consulted {
    let mut c = Consulted {
        start: t.span.start,
        stop: t.span.end,
        word_like: t.kind.is_word_like(),
        has_meta: false,
        prep: false,
        det: false,
        lower: vec![],
        canon: None,
    };
    if let TokenKind::Word(Some(md)) = &t.kind {
        let chars = t.span.get_content(source);
        let lower = chars.to_lower();
        let merged = match dict.get_word_metadata(&lower) {
            Some(ml) => md.clone().or(ml),
            None => md.clone(),
        };
        c.has_meta = true;
        c.prep = merged.preposition;
        c.det = merged.determiner;
        c.lower = lower.to_vec();
        if md.is_proper_noun() {
            c.canon = dict.get_correct_capitalization_of(chars).map(|v| v.to_vec());
        }
    }
    c
}

fn show(cs: &[char]) -> String {
    cs.iter().collect()
}

fn same_modulo_case(a: char, b: char) -> bool {
    a == b || a.to_lowercase().eq(b.to_lowercase()) || a.to_uppercase().eq(b.to_uppercase())
}

fn is_apostrophe_like(c: char) -> bool {
    matches!(c, '\'' | '’' | '‘' | '＇')
}

/// K: the model on the real tokens (a sub-slice `lo..hi` of the document's tokens) vs the real
/// `make_title_case`.
fn eval_k(sess: &mut Session, env: &Env, text: &str, markdown: bool, slice: Option<(usize, usize)>, origin: &str) -> Option<usize> {
    let source: Vec<char> = text.chars().collect();
    let doc = match guarded(|| {
        if markdown { Document::new(text, &Markdown::default(), env.dict.as_ref()) } else { Document::new(text, &PlainEnglish, env.dict.as_ref()) }
    }) {
        Ok(d) => d,
        Err(_) => {
            sess.count("lexing-panic");
            return None;
        }
    };
    let all = doc.get_tokens();
    let toks: &[Token] = match slice {
        Some((lo, hi)) if lo <= hi && hi <= all.len() => &all[lo..hi],
        _ => all,
    };
    let cons: Vec<Consulted> = toks.iter().map(|t| consult(t, &source, env.dict.as_ref())).collect();
    let op = format!("tc {} | {}", chars_field(&source), cons.iter().map(|c| c.word()).collect::<Vec<_>>().join(" "));
    let r = guarded(|| make_title_case(toks, &source, env.dict.as_ref()));
    let imp = match &r {
        Ok(out) => format!("ok {}", chars_field(out)).trim_end().to_string(),
        Err(_) => "panic".to_string(),
    };
    let case = sess.k(&op, &imp);
    sess.count(&format!("origin:{}", origin));
    sess.count(if markdown { "parser:markdown" } else { "parser:plain" });
    if slice.is_some() {
        sess.count("token-sub-slice");
    }
    let nproper = cons.iter().filter(|c| c.canon.is_some()).count();
    let nlower = cons.iter().filter(|c| c.word_like && !c.should_cap_token()).count();
    if nproper > 0 {
        sess.count("with-proper-noun");
    }
    if nlower > 0 {
        sess.count("with-uncapitalised-word");
    }
    if let Ok(out) = &r {
        let changed = toks.first().map(|t| t.span.start).is_some_and(|s0| out.iter().enumerate().any(|(i, c)| source.get(s0 + i) != Some(c)));
        if changed {
            sess.nontrivial(&op);
        }
    }
    Some(case)
}

/// O: the four clauses on `make_title_case_str(text, &PlainEnglish, &dict)` (single paragraph).
fn eval_o(sess: &mut Session, env: &Env, text: &str, case: Option<usize>) {
    let input = json!({"text": text, "markdown": false});
    let src: Vec<char> = text.chars().collect();
    let r = guarded(|| make_title_case_str(text, &PlainEnglish, env.dict.as_ref()));
    sess.o();
    let out_s = match r {
        Ok(s) => s,
        Err(m) => {
            sess.fail("panic", format!("make_title_case_str panicked: {}", trunc(&m, 200)), input, case);
            return;
        }
    };
    let out: Vec<char> = out_s.chars().collect();
    // harper-wasm's entry point is the same function on the curated dictionary
    if let Ok(w) = guarded(|| harper_wasm::to_title_case(text.to_string())) {
        sess.monitor("wasm-to_title_case-agrees", w == out_s);
        if w != out_s {
            sess.fail("wasm-differs", format!("harper_wasm::to_title_case gave {:?}, make_title_case_str {:?}", w, out_s), input.clone(), case);
            return;
        }
    }
    let doc = Document::new(text, &PlainEnglish, env.dict.as_ref());
    let toks = doc.get_tokens();
    let cons: Vec<Consulted> = toks.iter().map(|t| consult(t, &src, env.dict.as_ref())).collect();
    let covers = toks.is_empty() && src.is_empty() || (!toks.is_empty() && toks[0].span.start == 0 && toks.last().unwrap().span.end == src.len());
    sess.monitor("plain-english-tokens-cover-the-text", covers);
    for c in &cons {
        if let Some(cn) = &c.canon {
            sess.monitor("canonical-spelling-has-token-length", cn.len() == c.stop - c.start);
        }
    }
    // (1) same length
    if out.len() != src.len() {
        sess.fail("length-changed", format!("{} chars in, {} chars out: {:?}", src.len(), out.len(), out_s), input, case);
        return;
    }
    // (2) only the case of letters differs (+ apostrophe normalisation inside known proper nouns)
    for i in 0..src.len() {
        if same_modulo_case(src[i], out[i]) {
            continue;
        }
        let in_proper = cons.iter().any(|c| c.canon.is_some() && c.start <= i && i < c.stop);
        if in_proper && is_apostrophe_like(src[i]) && is_apostrophe_like(out[i]) {
            sess.count("apostrophe-normalised-in-proper-noun");
            continue;
        }
        sess.fail("not-only-case", format!("char {} {:?} became {:?}: {:?}", i, src[i], out[i], out_s), input, case);
        return;
    }
    // (3) the first word-like token starts upper-case when it starts with an ASCII letter
    if let Some(w) = cons.iter().find(|c| c.word_like) {
        if w.start < src.len() && src[w.start].is_ascii_alphabetic() {
            sess.count("first-word-ascii-letter");
            if !out[w.start].is_uppercase() {
                sess.fail("first-not-upper", format!("first word-like token starts with {:?} in {:?}", out[w.start], out_s), input, case);
                return;
            }
        }
    }
    // monitor of `CaseStable`: re-lexing the output gives the same consulted data
    let doc2 = Document::new(&out_s, &PlainEnglish, env.dict.as_ref());
    let cons2: Vec<Consulted> = doc2.get_tokens().iter().map(|t| consult(t, &out, env.dict.as_ref())).collect();
    let stable = cons.iter().map(|c| c.decisive()).eq(cons2.iter().map(|c| c.decisive()));
    // `lex_plural_digit` (lexing/mod.rs) takes `<ASCII alnum>['] s` as a word of its own when what
    // follows is not an ASCII alphanumeric — a non-ASCII LETTER counts as a boundary there (`asé` is
    // `as` + `é`), and only a lower-case `s` does it (`ASé` is one word): tokenisation depends on
    // case at exactly this shape. The property's clauses are still checked on these texts (below and
    // above); the hypothesis `CaseStable` of the idempotence theorem is not expected of them.
    let plural_digit_shape = |t: &[char]| {
        (0..t.len()).any(|j| {
            t[j].is_ascii_alphanumeric() && {
                let k = if t.get(j + 1) == Some(&'\'') { j + 2 } else { j + 1 };
                matches!(t.get(k), Some('s') | Some('S')) && t.get(k + 1).is_some_and(|c| !c.is_ascii() && c.is_alphabetic())
            }
        })
    };
    if !stable && (plural_digit_shape(&src) || plural_digit_shape(&out)) {
        sess.count("case-unstable:plural-digit-lexer-before-non-ascii-letter");
    } else {
        sess.monitor("case-stable-relex", stable);
    }
    if !stable {
        sess.sample(json!({"case_stable_relex_failed_on": text, "title_cased": out_s}));
    }
    // (4) idempotent
    let again = guarded(|| make_title_case_str(&out_s, &PlainEnglish, env.dict.as_ref()));
    match again {
        Ok(a) if a == out_s => {}
        Ok(a) => {
            let class = if stable { "not-idempotent" } else { "not-idempotent-relex" };
            sess.fail(class, format!("title case {:?}, title case of that {:?}", out_s, a), input, case);
        }
        Err(m) => sess.fail("panic", format!("second make_title_case_str panicked: {}", trunc(&m, 200)), input, case),
    }
}

fn eval(sess: &mut Session, env: &Env, text: &str, origin: &str) {
    let case = eval_k(sess, env, text, false, None, origin);
    if !text.contains('\n') && !text.contains('\r') {
        eval_o(sess, env, text, case);
    }
}

fn scramble(rng: &mut Rng, s: &str) -> String {
    match rng.below(6) {
        0 => s.to_lowercase(),
        1 => s.to_uppercase(),
        2 => s.chars().map(|c| if rng.chance(1, 2) { c.to_ascii_uppercase() } else { c.to_ascii_lowercase() }).collect(),
        3 => s
            .split(' ')
            .map(|w| match rng.below(3) {
                0 => w.to_uppercase(),
                1 => w.to_lowercase(),
                _ => w.to_string(),
            })
            .collect::<Vec<_>>()
            .join(" "),
        _ => s.to_string(),
    }
}

/// `w` written with characters that LOOK like its letters but are other code points: fullwidth
/// forms (all letters / the first / one), Cyrillic homoglyphs, a decomposed accent, a soft hyphen
/// or zero-width joiner inside. None of them is the dictionary's entry: title-casing may change
/// their letter case and nothing else.
fn lookalike(rng: &mut Rng, w: &str) -> String {
    let fw = |c: char| if c.is_ascii_alphanumeric() || c.is_ascii_punctuation() { char::from_u32(c as u32 + 0xFEE0).unwrap_or(c) } else { c };
    let cs: Vec<char> = w.chars().collect();
    if cs.is_empty() {
        return String::new();
    }
    match rng.below(7) {
        0 => cs.iter().map(|c| fw(*c)).collect(),
        1 => cs.iter().map(|c| fw(c.to_ascii_lowercase())).collect(),
        2 => cs.iter().enumerate().map(|(i, c)| if i == 0 { fw(*c) } else { *c }).collect(),
        3 => {
            let k = rng.below(cs.len());
            cs.iter().enumerate().map(|(i, c)| if i == k { fw(*c) } else { *c }).collect()
        }
        4 => cs.iter().map(|c| match c { 'o' => 'о', 'a' => 'а', 'e' => 'е', 'c' => 'с', 'p' => 'р', 'A' => 'А', 'O' => 'О', 'E' => 'Е', 'C' => 'С', 'P' => 'Р', x => *x }).collect(),
        5 => {
            let k = rng.below(cs.len());
            let mut out: String = cs[..=k].iter().collect();
            out.push(*rng.pick(&['\u{ad}', '\u{200d}', '\u{301}', '\u{200b}']));
            out.extend(cs[k + 1..].iter());
            out
        }
        _ => cs.iter().map(|c| if *c == '\'' { '＇' } else { fw(*c) }).collect(),
    }
}

fn headline(rng: &mut Rng, env: &Env, sents: &[String]) -> String {
    let extras = [
        "ß", "é", "İ", "ı", "straße", "café", "İstanbul", "naïve", "Ünited", "state-of-the-art", "well-known", "x-ray", "e-mail",
        "3rd", "1st", "2nd", "1980s", "42", "3.14", "10,000", "$5", "50%", "e.g.", "i.e.", "U.S.", "a.m.", "example.com",
        "user@example.com", "https://example.com/a", "don't", "DON’T", "it’s", "o'clock", "rock 'n' roll", "—", "–", "…", "...",
        "(", ")", ":", ";", "?", "!", "\"", "“", "”", "'", "&", "/", "|", "#1", "@home", "a", "an", "the", "of", "in", "on",
        "into", "from", "with", "about", "between", "and", "but", "for", "or", "nor", "to", "is", "vs.", "AND", "The", "OF",
        // constructs whose TOKENISATION depends on letter case or on neighbours (condensing passes)
        "et al.", "Et al.", "ET AL.", "etc.", "Etc.", "Vs.", "n.s.a.", "N.S.A.", "I.E.", "1ST", "2Nd", "it'S", "O'neil", "a.b", "www.Example.com", "0X1f",
    ];
    let base = rng.pick(sents).lines().next().unwrap_or("").to_string();
    let mut words: Vec<String> = base.split(' ').map(|w| w.to_string()).collect();
    if rng.chance(1, 3) {
        let n = rng.range(1, words.len().max(1));
        words.truncate(n);
    }
    let inserts = rng.below(4);
    for _ in 0..inserts {
        let w = match rng.below(10) {
            0..=2 => rng.pick(&env.proper).clone(),
            3 => rng.pick(&env.proper_apos).clone(),
            4 => rng.pick(&env.proper_apos).replace('\'', "’"),
            5 => rng.pick(&env.lower_words).clone(),
            6 if rng.chance(1, 2) => {
                let w = rng.pick(&env.proper).clone();
                lookalike(rng, &w)
            }
            6 => format!("{}-{}", rng.pick(&env.lower_words), rng.pick(&env.proper)),
            _ => rng.pick(&extras).to_string(),
        };
        let at = rng.below(words.len() + 1);
        words.insert(at, w);
    }
    let mut s = scramble(rng, &words.join(" "));
    if rng.chance(1, 6) {
        s = format!("{}{}", [" ", "  ", "\t", " \t "][rng.below(4)], s);
    }
    if rng.chance(1, 6) {
        s.push_str([" ", "  ", "\t", " . "][rng.below(4)]);
    }
    s
}

// =================================================================================================
// w25 additions: the remaining call site of `make_title_case` (`patterns::IsNotTitleCase`), the four
// clauses under another dictionary configuration (a `MergedDictionary` of the curated one and a
// user dictionary, as harper-ls / harper-wasm / harper-cli build it), and input families no
// generator wrote (very long texts and words, astral letters, emoji next to letters, characters
// whose upper / lower case has another length). All oracle-only.
// =================================================================================================

/// inner pattern of the `IsNotTitleCase` stream: matches the first `n` tokens
struct W25Prefix(usize);

impl harper_core::patterns::Pattern for W25Prefix {
    fn matches(&self, tokens: &[Token], _source: &[char]) -> usize {
        self.0.min(tokens.len())
    }
}

/// `IsNotTitleCase` (harper-core/src/patterns/is_not_title_case.rs) wraps a pattern and matches
/// its match iff `make_title_case` of the matched tokens is not the matched text. At this call
/// site the property says: (a) the pattern's answer is the function's answer on exactly the matched
/// tokens; (b) a title-cased text is never flagged again (clause 4, idempotence).
fn w25_eval_pattern(sess: &mut Session, env: &Env, text: &str, prefix: Option<usize>) {
    use harper_core::patterns::{IsNotTitleCase, Pattern};
    let src: Vec<char> = text.chars().collect();
    let Ok(doc) = guarded(|| Document::new(text, &PlainEnglish, env.dict.as_ref())) else { return };
    let toks = doc.get_tokens();
    let n = prefix.map(|k| k.min(toks.len())).unwrap_or(toks.len());
    if n == 0 {
        return;
    }
    let input = json!({"text": text, "markdown": false, "w25": "IsNotTitleCase", "prefix": prefix});
    // a panic of the function itself is `eval_o`'s business
    let Ok(tc) = guarded(|| make_title_case(&toks[..n], &src, env.dict.as_ref())) else { return };
    let content = &src[toks[0].span.start.min(src.len())..toks[n - 1].span.end.min(src.len())];
    sess.o();
    sess.count(if prefix.is_some() { "w25:IsNotTitleCase:prefix-of-the-tokens" } else { "w25:IsNotTitleCase:all-tokens" });
    let pat = IsNotTitleCase::new(Box::new(W25Prefix(n)), env.dict.clone());
    match guarded(|| pat.matches(toks, &src)) {
        Err(m) => {
            sess.fail("pattern-panic", format!("IsNotTitleCase::matches panicked: {}", trunc(&m, 200)), input, None);
            return;
        }
        Ok(got) => {
            let want = if tc.as_slice() != content { n } else { 0 };
            sess.count(if want == 0 { "w25:IsNotTitleCase:already-title-case" } else { "w25:IsNotTitleCase:not-title-case" });
            if got != want {
                sess.fail("pattern-is-not-title-case-differs", format!("IsNotTitleCase over the first {} tokens matched {} tokens, but make_title_case of those tokens is {:?} and the text is {:?} (expected {})", n, got, show(&tc), show(content), want), input, None);
                return;
            }
        }
    }
    if prefix.is_none() && !text.contains('\n') && !text.contains('\r') {
        let Ok(out_s) = guarded(|| make_title_case_str(text, &PlainEnglish, env.dict.as_ref())) else { return };
        let out: Vec<char> = out_s.chars().collect();
        let Ok(doc2) = guarded(|| Document::new(&out_s, &PlainEnglish, env.dict.as_ref())) else { return };
        let toks2 = doc2.get_tokens();
        let pat2 = IsNotTitleCase::new(Box::new(W25Prefix(toks2.len())), env.dict.clone());
        sess.o();
        if let Ok(got) = guarded(|| pat2.matches(toks2, &out)) {
            if got != 0 {
                sess.fail("pattern-flags-title-cased-text", format!("IsNotTitleCase flags {:?}, which is the title case of {:?}", out_s, text), input, None);
            }
        }
    }
}

const W25_USER_PLAIN: &[&str] = &["zqxv", "Teh", "iphone", "MICROSOFT", "o'reilly", "it’s", "zqxv's"];
const W25_USER_PROPER: &[&str] = &["ZqxvCorp", "McZqxv's", "O’Zqxv", "zqxvLand", "ZQXV-x"];

/// the curated dictionary, then a user dictionary (the order harper-ls, harper-wasm and harper-cli use)
fn w25_merged_dict() -> harper_core::MergedDictionary {
    let mut user = harper_core::MutableDictionary::new();
    for w in W25_USER_PLAIN {
        user.append_word_str(w, harper_core::WordMetadata::default());
    }
    for w in W25_USER_PROPER {
        let md = harper_core::WordMetadata { noun: Some(harper_core::NounData { is_proper: Some(true), ..Default::default() }), ..Default::default() };
        user.append_word_str(w, md);
    }
    let mut m = harper_core::MergedDictionary::new();
    m.add_dictionary(FstDictionary::curated());
    m.add_dictionary(Arc::new(user));
    m
}

/// the four clauses of the statement on `make_title_case_str(text, &PlainEnglish, dict)` for any dictionary
fn w25_eval_o_dict<D: Dictionary>(sess: &mut Session, dict: &D, tag: &str, text: &str) {
    let input = json!({"text": text, "markdown": false, "w25": tag});
    let src: Vec<char> = text.chars().collect();
    sess.o();
    sess.count(&format!("w25:dictionary:{}", tag));
    let out_s = match guarded(|| make_title_case_str(text, &PlainEnglish, dict)) {
        Ok(s) => s,
        Err(m) => {
            sess.fail(&format!("{}-panic", tag), format!("make_title_case_str panicked: {}", trunc(&m, 200)), input, None);
            return;
        }
    };
    let out: Vec<char> = out_s.chars().collect();
    let Ok(doc) = guarded(|| Document::new(text, &PlainEnglish, dict)) else { return };
    // (start, stop, word-like, proper noun with a canonical spelling)
    let toks: Vec<(usize, usize, bool, bool)> = doc
        .get_tokens()
        .iter()
        .map(|t| {
            let proper = matches!(&t.kind, TokenKind::Word(Some(md)) if md.is_proper_noun()) && dict.get_correct_capitalization_of(t.span.get_content(&src)).is_some();
            (t.span.start, t.span.end, t.kind.is_word_like(), proper)
        })
        .collect();
    if toks.iter().any(|t| t.3) {
        sess.count(&format!("w25:dictionary:{}:with-proper-noun", tag));
    }
    if out.len() != src.len() {
        sess.fail(&format!("{}-length-changed", tag), format!("{} chars in, {} chars out: {:?}", src.len(), out.len(), out_s), input, None);
        return;
    }
    for i in 0..src.len() {
        if same_modulo_case(src[i], out[i]) {
            continue;
        }
        if toks.iter().any(|t| t.3 && t.0 <= i && i < t.1) && is_apostrophe_like(src[i]) && is_apostrophe_like(out[i]) {
            continue;
        }
        sess.fail(&format!("{}-not-only-case", tag), format!("char {} {:?} became {:?}: {:?}", i, src[i], out[i], out_s), input, None);
        return;
    }
    if let Some(w) = toks.iter().find(|t| t.2) {
        if w.0 < src.len() && src[w.0].is_ascii_alphabetic() && !out[w.0].is_uppercase() {
            sess.fail(&format!("{}-first-not-upper", tag), format!("first word-like token starts with {:?} in {:?}", out[w.0], out_s), input, None);
            return;
        }
    }
    if out != src {
        sess.nontrivial(&format!("w25|{}|{}", tag, text));
    }
    match guarded(|| make_title_case_str(&out_s, &PlainEnglish, dict)) {
        Ok(a) if a == out_s => {}
        Ok(a) => sess.fail(&format!("{}-not-idempotent", tag), format!("title case {:?}, title case of that {:?}", out_s, a), input, None),
        Err(m) => sess.fail(&format!("{}-panic", tag), format!("second make_title_case_str panicked: {}", trunc(&m, 200)), input, None),
    }
}

/// the input dimensions the quantifier names, counted on the texts the oracle sees
fn w25_dims(sess: &mut Session, text: &str) {
    let cs: Vec<char> = text.chars().collect();
    for (tag, on) in [
        ("punctuation", cs.iter().any(|c| c.is_ascii_punctuation() && *c != '-' && *c != '\'')),
        ("digits", cs.iter().any(|c| c.is_ascii_digit())),
        ("hyphen-between-letters", cs.windows(3).any(|w| w[1] == '-' && w[0].is_alphabetic() && w[2].is_alphabetic())),
        ("apostrophe-straight-or-curly", cs.iter().any(|c| is_apostrophe_like(*c))),
        ("non-ascii-letter", cs.iter().any(|c| !c.is_ascii() && c.is_alphabetic())),
        ("astral-character", cs.iter().any(|c| *c as u32 > 0xFFFF)),
        ("combining-or-invisible", cs.iter().any(|c| matches!(*c, '\u{300}'..='\u{36f}' | '\u{200b}'..='\u{200d}' | '\u{ad}' | '\u{feff}'))),
        ("fullwidth", cs.iter().any(|c| matches!(*c, '\u{ff01}'..='\u{ff5e}'))),
        ("case-mapping-of-other-length(ß ŉ ǆ ﬁ İ)", cs.iter().any(|c| c.to_uppercase().count() != 1 || c.to_lowercase().count() != 1)),
        ("starts-with-non-word", cs.first().is_some_and(|c| !c.is_alphanumeric())),
        ("empty-or-blank", text.trim().is_empty()),
        ("over-1000-chars", cs.len() > 1000),
        ("word-over-100-chars", text.split_whitespace().any(|w| w.chars().count() > 100)),
    ] {
        if on {
            sess.count(&format!("w25:dim:{}", tag));
        }
    }
}

/// texts no generator above writes
fn w25_families(rng: &mut Rng, env: &Env, sents: &[String], thorough: bool) -> Vec<String> {
    let mut v: Vec<String> = vec![
        "\t".into(), "   ".into(), "\u{a0}the\u{a0}end".into(), "\u{feff}the end".into(),
        "𝐛𝐨𝐥𝐝 words and 𝓈cript of the day".into(), "the 𝐛𝐨𝐥𝐝 and the 😀of it".into(), "😀the end".into(), "the👩‍👩‍👧family of it".into(),
        "ǆ and ǅ and ŉ and ß and ﬁ of the İ".into(), "ŉ the end".into(), "ǆungla of the ǅ".into(), "ﬁrst of the ﬂoor".into(),
        "e\u{301}cole of the e\u{301}".into(), "the a\u{30a}ngstro\u{308}m of it".into(),
        "中文 of the 한국어 and the العربية".into(), "the ٣ of ½ and ²".into(), "１st of the ２nd".into(),
        "a-b-c-d-e-f of-the-and".into(), "the---of".into(), "mother-in-law's of the o'clock".into(),
        "10,000 of 3.14 and 1e5 or 0x1F at 5%".into(), "$5 for the #1 of @home".into(),
        format!("the {} of it", "pneumono".repeat(80)), "a ".repeat(600), format!("{}the", " ".repeat(500)),
    ];
    for _ in 0..(if thorough { 400 } else { 40 }) {
        // a very long headline: 20–60 headlines in a row (one line)
        let n = rng.range(20, 60);
        v.push((0..n).map(|_| headline(rng, env, sents)).collect::<Vec<_>>().join(" "));
    }
    for _ in 0..(if thorough { 2000 } else { 300 }) {
        // an odd character glued to / put between the words of a headline
        let odd = *rng.pick(&["😀", "𝐛", "ǆ", "ǅ", "ŉ", "ﬁ", "İ", "ı", "\u{301}", "\u{200d}", "\u{a0}", "\u{feff}", "½", "٣", "中", "１", "ａ", "Ａ", "ſ", "K"]);
        let h = headline(rng, env, sents);
        let cs: Vec<char> = h.chars().collect();
        let at = if cs.is_empty() { 0 } else { rng.below(cs.len() + 1) };
        let mut t: String = cs[..at].iter().collect();
        t.push_str(odd);
        t.extend(cs[at..].iter());
        v.push(t);
    }
    v
}

/// all w25 streams
fn w25_run(sess: &mut Session, env: &Env, rng: &mut Rng, sents: &[String], corpus: &[String], thorough: bool) {
    let merged = w25_merged_dict();
    let fam = w25_families(rng, env, sents, thorough);
    for t in &fam {
        w25_dims(sess, t);
        eval(sess, env, t, "w25-families");
    }
    let mut texts: Vec<String> = corpus.to_vec();
    texts.extend(fam.iter().filter(|t| t.chars().count() < 400).cloned());
    for t in [
        "the zqxvcorp of mczqxv's and o'zqxv", "ZQXVCORP", "zqxvcorp", "o’zqxv and O'ZQXV", "zqxvland and teh iphone of microsoft", "the zqxv-x of o＇zqxv",
        "o'reilly and it’s zqxv's", "MCZQXV’S of the ZQXVLAND", "“zqxvcorp” of the (zqxvland)", "the zqxvx of mczqxvs", "ZQXVX and ozqxv",
    ] {
        texts.push(t.to_string());
    }
    for _ in 0..(if thorough { 20000 } else { 2500 }) {
        let mut h = headline(rng, env, sents);
        if rng.chance(1, 3) {
            let w = if rng.chance(1, 2) { rng.pick(W25_USER_PROPER).to_string() } else { rng.pick(W25_USER_PLAIN).to_string() };
            let w = match rng.below(6) {
                0 => w.to_lowercase(),
                1 => w.to_uppercase(),
                2 => w.replace('\'', "’").replace('’', if rng.chance(1, 2) { "'" } else { "’" }),
                // the user's word written closed up: without its hyphen / apostrophe (another word, unknown to the dictionary)
                3 => w.replace('-', "").to_lowercase(),
                4 => w.replace(['\'', '’'], ""),
                _ => w,
            };
            h = if rng.chance(1, 2) { format!("{} {}", w, h) } else { format!("{} {}", h, w) };
        }
        texts.push(h);
    }
    for (i, t) in texts.iter().enumerate() {
        if t.contains('\n') || t.contains('\r') {
            continue;
        }
        w25_eval_o_dict(sess, &merged, "merged-dictionary", t);
        w25_eval_pattern(sess, env, t, None);
        if i % 2 == 0 {
            let ntok = Document::new(t, &PlainEnglish, env.dict.as_ref()).get_tokens().len();
            if ntok > 1 {
                w25_eval_pattern(sess, env, t, Some(rng.range(1, ntok)));
            }
        }
    }
}

const W25_CORPUS: &[&str] = &[
    "this is a test", "the first and last words should be capitalized, even if it is \"the\"", "0 about 0", "|", "\ta", "videopress", "united states", "", " ", "a", "the",
    "THE OF AND", "of mice and men", "iphone and IPAD for the o'reilly book", "o’reilly’s McDonald’s mcdonald's", "the wordpress of the iPhone", "straße İstanbul café ß é İ",
    "state-of-the-art x-ray", "1st 2ND 3rd 1980s", "e.g. this i.e. that U.S. a.m.", "  leading and trailing  ", "don't DON’T it’s", "WAR AND PEACE", "...and then", "“quoted” and ‘single’",
    "a survey by tyson et al. on grammar", "A Survey by Tyson Et al. on Grammar", "This Is a Test", "The Quick Brown Fox", "\"the quick brown fox\"",
];

pub fn run(ctx: &Ctx) {
    let mut sess = Session::new(ctx);
    let mut rng = Rng::new(ctx.seed);
    let dict = FstDictionary::curated();
    let mut env = Env { dict: dict.clone(), proper: vec![], proper_apos: vec![], lower_words: vec![] };
    if let Some(v) = replay_input(ctx) {
        let text = v["text"].as_str().unwrap_or("").to_string();
        let markdown = v["markdown"].as_bool().unwrap_or(false);
        if let Some(kind) = v["w25"].as_str() {
            // w25 replay kinds: the IsNotTitleCase call site, the merged-dictionary configuration
            if kind == "IsNotTitleCase" {
                w25_eval_pattern(&mut sess, &env, &text, v["prefix"].as_u64().map(|k| k as usize));
            } else {
                w25_eval_o_dict(&mut sess, &w25_merged_dict(), kind, &text);
            }
            sess.nontrivial("replay-a");
            sess.nontrivial("replay-b");
            sess.finish("replay of one recorded input (w25 stream)", false, json!({}));
            return;
        }
        let slice = v.get("slice").and_then(|s| Some((s.get(0)?.as_u64()? as usize, s.get(1)?.as_u64()? as usize)));
        let case = eval_k(&mut sess, &env, &text, markdown, slice, "replay");
        if !markdown && slice.is_none() {
            eval_o(&mut sess, &env, &text, case);
        }
        sess.nontrivial("replay-a");
        sess.nontrivial("replay-b");
        sess.finish("replay of one recorded input", false, json!({}));
        return;
    }

    // the dictionary: proper nouns (with their canonical spelling), and the search for an entry
    // whose canonical spelling has another length than a spelling that finds it
    let mut mismatches: Vec<Value> = vec![];
    let mut nwords = 0usize;
    // words_iter's order is a hash map's: sort, so that the sample below (and with it every text of
    // this run) depends on the seed alone
    let mut all_words: Vec<&[char]> = dict.words_iter().collect();
    all_words.sort();
    for w in all_words {
        nwords += 1;
        let md = dict.get_word_metadata(w);
        let ws: String = w.iter().collect();
        if md.is_some_and(|m| m.is_proper_noun()) {
            if ws.contains('\'') {
                env.proper_apos.push(ws.clone());
            } else if nwords % 7 == 0 || ws.chars().skip(1).any(|c| c.is_uppercase()) {
                env.proper.push(ws.clone());
            }
        } else if nwords % 97 == 0 && ws.chars().all(|c| c.is_ascii_lowercase()) {
            env.lower_words.push(ws.clone());
        }
        let variants: Vec<Vec<char>> = vec![
            w.to_vec(),
            ws.to_lowercase().chars().collect(),
            ws.to_uppercase().chars().collect(),
            ws.replace('\'', "’").chars().collect(),
        ];
        for v in variants {
            if let Some(c) = dict.get_correct_capitalization_of(&v) {
                let same = c.len() == v.len();
                sess.monitor("dictionary-canonical-spelling-has-query-length", same);
                if !same && mismatches.len() < 20 {
                    mismatches.push(json!({"query": show(&v), "canonical": show(c)}));
                }
            }
        }
    }
    env.proper.sort();
    env.proper_apos.sort();
    env.lower_words.sort();
    // any such entry is run through the real function (a shorter canonical spelling would panic)
    for m in &mismatches {
        let q = m["query"].as_str().unwrap_or("").to_string();
        eval(&mut sess, &env, &q, "dictionary-length-mismatch");
        eval(&mut sess, &env, &format!("the {} of it", q), "dictionary-length-mismatch");
    }
    let sents = crate::corpus::sentences().clone();

    // 1. corpus: the function's own tests and shapes that were worth a look
    for t in [
        "this is a test",
        "the first and last words should be capitalized, even if it is \"the\"",
        "0 about 0",
        "|",
        "A\n",
        "\ta",
        "videopress",
        "united states",
        "",
        " ",
        "a",
        "the",
        "THE OF AND",
        "of mice and men",
        "iphone and IPAD for the o'reilly book",
        "o’reilly’s McDonald’s mcdonald's",
        "the wordpress of the iPhone",
        "straße İstanbul café ß é İ",
        "state-of-the-art x-ray",
        "1st 2ND 3rd 1980s",
        "e.g. this i.e. that U.S. a.m.",
        "user@example.com and example.com",
        "  leading and trailing  ",
        "don't DON’T it’s",
        "WAR AND PEACE",
        "for whom the bell tolls",
        "...and then",
        "“quoted” and ‘single’",
    ] {
        eval(&mut sess, &env, t, "corpus");
        eval_k(&mut sess, &env, t, true, None, "corpus");
    }

    // 2. exhaustive small scope: every text of ≤ 3 (quick) / ≤ 4 (thorough) pieces over a vocabulary
    let pieces = ["the ", "OF", "iphone", "-", " ", "A ", "and", "1st", ".", "o’reilly", "É", "et al. ", "e.g. "];
    let maxlen = if ctx.tier == Tier::Thorough { 4 } else { 3 };
    for len in 1..=maxlen {
        let total = pieces.len().pow(len as u32);
        for code in 0..total {
            let mut c = code;
            let mut t = String::new();
            for _ in 0..len {
                t.push_str(pieces[c % pieces.len()]);
                c /= pieces.len();
            }
            eval(&mut sess, &env, &t, "exhaustive");
        }
    }

    // 3. every proper noun with an apostrophe, straight and curly, lower-cased and as is;
    //    a sample of the others
    let apos = env.proper_apos.clone();
    for w in &apos {
        for v in [w.clone(), w.to_lowercase(), w.replace('\'', "’"), w.to_uppercase().replace('\'', "’")] {
            eval(&mut sess, &env, &format!("the {} of it", v), "proper-apostrophe");
        }
    }
    // 3b. proper nouns written in look-alike characters (fullwidth, homoglyphs, invisible joiners)
    let nlook = if ctx.tier == Tier::Thorough { 6000 } else { 600 };
    for t in ["a review of ｍｉｃｒｏｓｏｆｔ office", "searching with Ｇoogle", "the ｉphone of it", "ｏ＇ｒｅｉｌｌｙ books", "the Micro\u{ad}soft way"] {
        eval(&mut sess, &env, t, "lookalike");
    }
    for _ in 0..nlook {
        let w = if rng.chance(1, 4) { rng.pick(&env.proper_apos).clone() } else { rng.pick(&env.proper).clone() };
        let v = lookalike(&mut rng, &w);
        let t = match rng.below(3) {
            0 => format!("the {} of it", v),
            1 => format!("{} and {}", v, w.to_lowercase()),
            _ => v,
        };
        eval(&mut sess, &env, &t, "lookalike");
    }
    let nprop = if ctx.tier == Tier::Thorough { env.proper.len() } else { env.proper.len().min(1500) };
    for k in 0..nprop {
        let w = if ctx.tier == Tier::Thorough { env.proper[k].clone() } else { rng.pick(&env.proper).clone() };
        let v = match rng.below(3) {
            0 => w.to_lowercase(),
            1 => w.to_uppercase(),
            _ => w.clone(),
        };
        eval(&mut sess, &env, &format!("{} in the {}", v, w), "proper-noun");
    }

    // 4. structured random headlines
    let nrand = if ctx.tier == Tier::Thorough { 150000 } else { 25000 };
    for n in 0..nrand {
        let t = headline(&mut rng, &env, &sents);
        if n < 3 {
            sess.sample(json!({"text": t, "title": make_title_case_str(&t, &PlainEnglish, env.dict.as_ref())}));
        }
        w25_dims(&mut sess, &t);
        eval(&mut sess, &env, &t, "random");
        if n % 5 == 0 {
            // K only: Markdown tokens (do not cover the text), and sub-slices of the token list
            eval_k(&mut sess, &env, &t, true, None, "random");
            let ntok = Document::new(&t, &PlainEnglish, env.dict.as_ref()).get_tokens().len();
            if ntok > 0 {
                let lo = rng.below(ntok);
                let hi = rng.range(lo, ntok);
                eval_k(&mut sess, &env, &t, false, Some((lo, hi)), "random");
            }
        }
    }
    // w25: IsNotTitleCase, merged dictionary, new families
    {
        let mut r2 = Rng::new(ctx.seed ^ 0x2518);
        let corpus: Vec<String> = W25_CORPUS.iter().map(|s| s.to_string()).collect();
        w25_run(&mut sess, &env, &mut r2, &sents, &corpus, ctx.tier == Tier::Thorough);
    }
    let extra = json!({
        "exhaustive_scope": format!("texts of ≤{} pieces over a 13-piece vocabulary", maxlen),
        "dictionary_words": nwords,
        "proper_nouns_in_pool": env.proper.len(),
        "proper_nouns_with_apostrophe": env.proper_apos.len(),
        "dictionary_canonical_length_mismatches": mismatches,
    });
    sess.finish(
        "corpus (the function's own tests, hand-picked shapes); every text of ≤3 (quick) / ≤4 (thorough) pieces over {the, OF, iphone, -, space, A, and, 1st, ., o’reilly, É}, exhaustively; every dictionary proper noun with an apostrophe in four spellings; sampled proper nouns; rule-test sentences cut to one line with random case scrambling, spliced proper nouns / hyphenated words / digits / punctuation / non-ASCII letters / leading and trailing blanks; every fifth text also through Markdown tokens and a random sub-slice of the tokens (K only). Non-trivial = the output differs from the input; distinct by the op line.",
        true,
        extra,
    );
}
