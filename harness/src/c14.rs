//! C14 — the real `IgnoredLints` against the Lean model (`Harper/Model/Ignore.lean`), and the
//! property's clauses on the real code: ignoring hides that lint, only that lint, the list
//! survives export/import, and the lint stays hidden under edits elsewhere in the document.
use crate::common::*;
use harper_core::linting::{Lint, LintGroup, Linter, Suggestion};
use harper_core::parsers::{Markdown, PlainEnglish};
use harper_core::{Dialect, Document, FatToken, FstDictionary, IgnoredLints, Punctuation, Quote, Token, TokenKind};
use serde_json::{Value, json};
use std::collections::HashMap;
use std::sync::Arc;

const CLASS_QUOTE: &str = "c14-quote-twin-loc";
const CLASS_AFTER: &str = "c14-after-window-from-start";

struct Env {
    dict: Arc<FstDictionary>,
    group: LintGroup,
    /// interning of token kinds (by the derived `Eq`/`Hash` of `TokenKind`), quotes excepted
    kinds: HashMap<TokenKind, usize>,
    /// hash-injectivity monitor: full context key <-> 64-bit hash
    key_to_hash: HashMap<String, u64>,
    hash_to_key: HashMap<u64, String>,
}

impl Env {
    fn new() -> Self {
        let dict = FstDictionary::curated();
        let mut group = LintGroup::new_curated(dict.clone(), Dialect::American);
        group.set_all_rules_to(Some(true));
        Env { dict, group, kinds: HashMap::new(), key_to_hash: HashMap::new(), hash_to_key: HashMap::new() }
    }

    fn parse(&self, text: &str, markdown: bool) -> Document {
        if markdown {
            Document::new(text, &Markdown::default(), self.dict.as_ref())
        } else {
            Document::new(text, &PlainEnglish, self.dict.as_ref())
        }
    }

    fn lint(&mut self, doc: &Document) -> Vec<Lint> {
        self.group.lint(doc)
    }

    /// `TokenKind` as the opaque list of naturals of the model (injective on what `Hash` sees).
    fn enc_kind(&mut self, k: &TokenKind) -> Vec<usize> {
        let code = match k {
            TokenKind::Word(_) => 0,
            TokenKind::Punctuation(_) => 1,
            TokenKind::Decade => 2,
            TokenKind::Number(_) => 3,
            TokenKind::Space(_) => 4,
            TokenKind::Newline(_) => 5,
            TokenKind::EmailAddress => 6,
            TokenKind::Url => 7,
            TokenKind::Hostname => 8,
            TokenKind::Unlintable => 9,
            TokenKind::ParagraphBreak => 10,
            TokenKind::Regexish => 11,
        };
        match k {
            TokenKind::Punctuation(Punctuation::Quote(Quote { twin_loc })) => match twin_loc {
                Some(l) => vec![1, 0, 1, *l],
                None => vec![1, 0, 0],
            },
            TokenKind::Word(None) => vec![0, 0],
            TokenKind::Space(n) => vec![4, *n],
            TokenKind::Newline(n) => vec![5, *n],
            TokenKind::Word(Some(_)) | TokenKind::Punctuation(_) | TokenKind::Number(_) => {
                let n = self.kinds.len();
                let id = *self.kinds.entry(k.clone()).or_insert(n);
                vec![code, 1 + id]
            }
            _ => vec![code],
        }
    }

    fn enc_tokens(&mut self, doc: &Document) -> String {
        let src = doc.get_source();
        let mut out = vec![];
        for t in doc.get_tokens() {
            let k = self.enc_kind(&t.kind);
            let content: Vec<usize> = t.span.get_content(src).iter().map(|c| *c as usize).collect();
            out.push(format!("{}:{}:{}:{}", t.span.start, t.span.end, commas(&k), commas(&content)));
        }
        out.join(" ")
    }
}

fn commas(v: &[usize]) -> String {
    if v.is_empty() { "-".to_string() } else { v.iter().map(|x| x.to_string()).collect::<Vec<_>>().join(",") }
}

fn enc_lint(id: usize, l: &Lint) -> String {
    let msg: Vec<usize> = l.message.chars().map(|c| c as usize).collect();
    let sugg = if l.suggestions.is_empty() {
        "-".to_string()
    } else {
        l.suggestions
            .iter()
            .map(|s| {
                let mut v = vec![];
                match s {
                    Suggestion::ReplaceWith(cs) => {
                        v.push(0);
                        v.extend(cs.iter().map(|c| *c as usize));
                    }
                    Suggestion::InsertAfter(cs) => {
                        v.push(1);
                        v.extend(cs.iter().map(|c| *c as usize));
                    }
                    Suggestion::Remove => v.push(2),
                }
                commas(&v)
            })
            .collect::<Vec<_>>()
            .join(";")
    };
    format!("{}:{}:{}:{}:{}:{}:{}", id, l.span.start, l.span.end, l.lint_kind as usize, l.priority, commas(&msg), sugg)
}

fn enc_lints(ls: &[Lint]) -> String {
    ls.iter().enumerate().map(|(i, l)| enc_lint(i, l)).collect::<Vec<_>>().join(" ")
}

/// The harness's own reading of the three windows (independent of `LintContext`): tokens
/// overlapping `[s-2,s)` (none when `s < 2`), `[s,e)`, `[s+2,s+4)`.
fn windows(doc: &Document, l: &Lint) -> [Vec<FatToken>; 3] {
    let src = doc.get_source();
    let inter = |a: usize, b: usize| -> Vec<FatToken> {
        doc.get_tokens().iter().filter(|t: &&Token| t.span.start < b && a < t.span.end).map(|t| t.to_fat(src)).collect()
    };
    let s = l.span.start;
    let pre = if s >= 2 { inter(s - 2, s) } else { vec![] };
    [pre, inter(s, l.span.end), inter(s + 2, s + 4)]
}

/// The property's wording read literally: the tokens within two characters of the flagged text,
/// `[s-2,s)` (clipped at 0), `[s,e)`, `[e,e+2)`.
fn windows_literal(doc: &Document, l: &Lint) -> [Vec<FatToken>; 3] {
    let src = doc.get_source();
    let inter = |a: usize, b: usize| -> Vec<FatToken> {
        doc.get_tokens().iter().filter(|t: &&Token| t.span.start < b && a < t.span.end).map(|t| erase_twin(&t.to_fat(src))).collect()
    };
    let (s, e) = (l.span.start, l.span.end);
    [inter(s.saturating_sub(2), s), inter(s, e), inter(e, e + 2)]
}

fn is_quote(t: &FatToken) -> bool {
    matches!(t.kind, TokenKind::Punctuation(Punctuation::Quote(_)))
}

fn erase_twin(t: &FatToken) -> FatToken {
    let mut t = t.clone();
    if let TokenKind::Punctuation(Punctuation::Quote(q)) = &mut t.kind {
        q.twin_loc = None;
    }
    t
}

/// (kind, message, suggestions, window tokens) — what the property calls "that lint".
fn key_noprio(doc: &Document, l: &Lint) -> String {
    format!("{:?}|{:?}|{:?}|{:?}", l.lint_kind, l.message, l.suggestions, windows(doc, l))
}
fn key_full(doc: &Document, l: &Lint) -> String {
    format!("{}|{}", l.priority, key_noprio(doc, l))
}

fn hashes_of(ig: &IgnoredLints) -> Vec<u64> {
    let v = serde_json::to_value(ig).unwrap_or(Value::Null);
    let mut hs: Vec<u64> = v["context_hashes"].as_array().map(|a| a.iter().filter_map(|x| x.as_u64()).collect()).unwrap_or_default();
    hs.sort();
    hs
}

/// the 64-bit context hash of one lint, observed through serde
fn hash_of(doc: &Document, l: &Lint) -> Option<u64> {
    let mut ig = IgnoredLints::new();
    ig.ignore_lint(l, doc);
    let hs = hashes_of(&ig);
    if hs.len() == 1 { Some(hs[0]) } else { None }
}

#[derive(Clone, Debug)]
enum Mode {
    Direct,
    ExportImport,
    Append(usize),
}

impl Mode {
    fn words(&self) -> String {
        match self {
            Mode::Direct => "d".into(),
            Mode::ExportImport => "x".into(),
            Mode::Append(k) => format!("a {}", k),
        }
    }
    fn to_json(&self) -> Value {
        match self {
            Mode::Direct => json!("d"),
            Mode::ExportImport => json!("x"),
            Mode::Append(k) => json!({"a": k}),
        }
    }
    fn from_json(v: &Value) -> Mode {
        if v == "x" {
            Mode::ExportImport
        } else if let Some(k) = v.get("a").and_then(|k| k.as_u64()) {
            Mode::Append(k as usize)
        } else {
            Mode::Direct
        }
    }
}

/// replace the characters `[a,b)` of the text by `with`
#[derive(Clone, Debug)]
struct Edit {
    a: usize,
    b: usize,
    with: String,
    what: &'static str,
}

fn apply_edit(text: &str, e: &Edit) -> String {
    let cs: Vec<char> = text.chars().collect();
    let a = e.a.min(cs.len());
    let b = e.b.min(cs.len()).max(a);
    let mut out: String = cs[..a].iter().collect();
    out.push_str(&e.with);
    out.extend(cs[b..].iter());
    out
}

struct Built {
    ignored: IgnoredLints,
    exported_hashes: Option<(Vec<u64>, Vec<u64>)>,
}

fn build_ignored(doc: &Document, lints: &[Lint], ids: &[usize], mode: &Mode) -> Built {
    let mut ig = IgnoredLints::new();
    match mode {
        Mode::Direct | Mode::ExportImport => {
            for &i in ids {
                ig.ignore_lint(&lints[i], doc);
            }
        }
        Mode::Append(k) => {
            let k = (*k).min(ids.len());
            let mut other = IgnoredLints::new();
            for &i in &ids[..k] {
                ig.ignore_lint(&lints[i], doc);
            }
            for &i in &ids[k..] {
                other.ignore_lint(&lints[i], doc);
            }
            ig.append(other);
        }
    }
    if let Mode::ExportImport = mode {
        let before = hashes_of(&ig);
        let s = serde_json::to_string(&ig).unwrap();
        let back: IgnoredLints = serde_json::from_str(&s).unwrap();
        let after = hashes_of(&back);
        Built { ignored: back, exported_hashes: Some((before, after)) }
    } else {
        Built { ignored: ig, exported_hashes: None }
    }
}

fn input_json(text: &str, markdown: bool, ids: &[usize], mode: &Mode, edit: Option<&Edit>) -> Value {
    json!({
        "text": text, "markdown": markdown, "ignore": ids, "mode": mode.to_json(),
        "edit": edit.map(|e| json!({"a": e.a, "b": e.b, "with": e.with, "what": e.what})),
    })
}

/// One case: lint document 1, ignore `ids`, (edit,) re-parse + re-lint, `remove_ignored`.
/// K line + the property's clauses on the real output.
fn eval(sess: &mut Session, env: &mut Env, text: &str, markdown: bool, ids: &[usize], mode: &Mode, edit: Option<&Edit>, origin: &str) {
    let input = input_json(text, markdown, ids, mode, edit);
    // (1) the linting pipeline (its panics are C01's business)
    let r = guarded(|| {
        let doc1 = env.parse(text, markdown);
        let lints1 = env.lint(&doc1);
        let text2 = match edit {
            Some(e) => apply_edit(text, e),
            None => text.to_string(),
        };
        let doc2 = env.parse(&text2, markdown);
        let lints2 = env.lint(&doc2);
        (doc1, lints1, doc2, lints2)
    });
    let Ok((doc1, lints1, doc2, lints2)) = r else {
        sess.count("pipeline-panic");
        return;
    };
    let ids: Vec<usize> = ids.iter().copied().filter(|i| *i < lints1.len()).collect();
    // (2) the ignore list (its panics are ours)
    let r = guarded(|| {
        let built = build_ignored(&doc1, &lints1, &ids, mode);
        let flags: Vec<bool> = lints2.iter().map(|l| built.ignored.is_ignored(l, &doc2)).collect();
        let mut remaining = lints2.clone();
        built.ignored.remove_ignored(&mut remaining, &doc2);
        (built, flags, remaining)
    });
    let (built, flags, remaining) = match r {
        Ok(v) => v,
        Err(m) => {
            let op = format!(
                "ig {} | {} | {} | {} | {} | {}",
                env.enc_tokens(&doc1),
                enc_lints(&lints1),
                ids.iter().map(|i| i.to_string()).collect::<Vec<_>>().join(" "),
                env.enc_tokens(&doc2),
                enc_lints(&lints2),
                mode.words()
            );
            let case = sess.k(&op, "panic");
            sess.fail("panic", format!("IgnoredLints panicked: {}", trunc(&m, 200)), input, Some(case));
            return;
        }
    };
    sess.count(&format!("origin:{}", origin));
    sess.count(&format!("mode:{}", mode.words().chars().next().unwrap()));
    sess.count(&format!("lints:{}", lints1.len().min(9)));
    sess.count(&format!("ignored:{}", ids.len().min(9)));
    if let Some(e) = edit {
        sess.count(&format!("edit:{}", e.what));
    }

    // K: the model decides from the real tokens which lints of document 2 remain
    let kept_ids: Vec<usize> = (0..lints2.len()).filter(|j| !flags[*j]).collect();
    let expect: Vec<Lint> = kept_ids.iter().map(|j| lints2[*j].clone()).collect();
    let op = format!(
        "ig {} | {} | {} | {} | {} | {}",
        env.enc_tokens(&doc1),
        enc_lints(&lints1),
        ids.iter().map(|i| i.to_string()).collect::<Vec<_>>().join(" "),
        env.enc_tokens(&doc2),
        enc_lints(&lints2),
        mode.words()
    );
    let imp = format!("ok {}", kept_ids.iter().map(|i| i.to_string()).collect::<Vec<_>>().join(" ")).trim_end().to_string();
    let case = sess.k(&op, &imp);

    // remove_ignored = retain(!is_ignored), order preserved
    if remaining != expect {
        sess.fail("retain-mismatch", "remove_ignored did not return exactly the lints for which is_ignored is false, in order".into(), input.clone(), Some(case));
        return;
    }

    // monitor: DefaultHasher is injective on the distinct contexts seen
    for (doc, lints) in [(&doc1, &lints1), (&doc2, &lints2)] {
        for l in lints.iter() {
            if let Some(h) = hash_of(doc, l) {
                let key = key_full(doc, l);
                let same = *env.key_to_hash.entry(key.clone()).or_insert(h) == h;
                sess.monitor("equal-contexts-equal-hashes", same);
                let inj = *env.hash_to_key.entry(h).or_insert(key.clone()) == key;
                sess.monitor("hash-injective-on-contexts-seen", inj);
            }
        }
    }

    if let Some((before, after)) = &built.exported_hashes {
        if before != after {
            sess.fail("export-import-changed", "the ignore list changed across serde_json export/import".into(), input.clone(), Some(case));
            return;
        }
    }

    match edit {
        None => {
            sess.monitor("relint-deterministic", lints1 == lints2);
            if lints1 != lints2 {
                return;
            }
            // clause 1: every ignored lint is gone
            for &i in &ids {
                if !flags[i] {
                    sess.fail("ignored-still-reported", format!("lint {} ({:?}) was ignored and is still reported", i, lints2[i].message), input.clone(), Some(case));
                    return;
                }
            }
            // clause 2: only that lint — a lint differing in kind, message, suggestions or window
            // tokens from every ignored lint is still reported; identical contexts go together
            let ign_noprio: Vec<String> = ids.iter().map(|i| key_noprio(&doc1, &lints1[*i])).collect();
            let ign_full: Vec<String> = ids.iter().map(|i| key_full(&doc1, &lints1[*i])).collect();
            let mut hidden_other = 0;
            for (j, l) in lints2.iter().enumerate() {
                let kn = key_noprio(&doc2, l);
                if !ign_noprio.contains(&kn) && flags[j] {
                    sess.fail("other-lint-hidden", format!("lint {} ({:?}) differs from every ignored lint and is no longer reported", j, l.message), input.clone(), Some(case));
                    return;
                }
                if ign_full.contains(&key_full(&doc2, l)) {
                    if !flags[j] {
                        sess.fail("identical-context-kept", format!("lint {} has the context of an ignored lint and is still reported", j), input.clone(), Some(case));
                        return;
                    }
                    if !ids.contains(&j) {
                        hidden_other += 1;
                        let lw = windows_literal(&doc2, l);
                        let literal_twin = ids.iter().any(|i| {
                            let li = &lints1[*i];
                            li.lint_kind == l.lint_kind && li.message == l.message && li.suggestions == l.suggestions && windows_literal(&doc1, li) == lw
                        });
                        if !literal_twin {
                            sess.count("observed:hidden-together-though-tokens-in-[e,e+2)-differ");
                            sess.sample(json!({"observed": "a lint whose tokens within two characters differ from the ignored lint's is hidden with it", "hidden": j, "input": input.clone()}));
                        }
                    }
                }
            }
            if hidden_other > 0 {
                sess.count("twin-occurrence-hidden-together");
            }
            if !ids.is_empty() && !kept_ids.is_empty() {
                sess.nontrivial(&format!("{}|{:?}|{}", text, ids, mode.words()));
            }
        }
        Some(e) => {
            // clause 3: every ignored lint whose flagged text and window tokens are untouched by
            // the edit stays ignored
            let delta = e.with.chars().count() as isize - (e.b as isize - e.a as isize);
            for &i in &ids {
                let l1 = &lints1[i];
                let (s2, e2) = if l1.span.end <= e.a {
                    (l1.span.start, l1.span.end)
                } else if l1.span.start >= e.b {
                    ((l1.span.start as isize + delta) as usize, (l1.span.end as isize + delta) as usize)
                } else {
                    sess.count("edit:touches-lint");
                    continue;
                };
                let Some(j) = lints2.iter().position(|l| {
                    l.span.start == s2 && l.span.end == e2 && l.lint_kind == l1.lint_kind && l.message == l1.message && l.suggestions == l1.suggestions && l.priority == l1.priority
                }) else {
                    sess.count("edit:lint-not-reported-after-edit");
                    continue;
                };
                let w1 = windows(&doc1, l1);
                let w2 = windows(&doc2, &lints2[j]);
                let untouched = (0..3).all(|k| {
                    w1[k].len() == w2[k].len() && w1[k].iter().zip(w2[k].iter()).all(|(a, b)| erase_twin(a) == erase_twin(b))
                });
                let has_quote = w1.iter().chain(w2.iter()).flatten().any(is_quote);
                // K: does the context survive the edit (model on real tokens vs real hash)
                let same_hash = hash_of(&doc1, l1).is_some() && hash_of(&doc1, l1) == hash_of(&doc2, &lints2[j]);
                let t1 = env.enc_tokens(&doc1);
                let t2 = env.enc_tokens(&doc2);
                let ce = format!("ce {} | {} | {} | {}", t1, enc_lint(i, l1), t2, enc_lint(j, &lints2[j]));
                sess.k(&ce, if same_hash { "ok 1" } else { "ok 0" });
                if !untouched {
                    sess.count("edit:window-tokens-touched");
                    // the property's wording read literally ("the tokens within two characters of it"):
                    // the code's after-window is [s+2,s+4), counted from the START of the lint, so for
                    // a lint that is not two characters long it is not the two characters after it
                    if windows_literal(&doc1, l1) == windows_literal(&doc2, &lints2[j]) {
                        sess.count(if flags[j] { "literal-neighbourhood-untouched:still-ignored" } else { "literal-neighbourhood-untouched:lint-returns" });
                        let same = |k: usize| w1[k].len() == w2[k].len() && w1[k].iter().zip(w2[k].iter()).all(|(a, b)| erase_twin(a) == erase_twin(b));
                        if !flags[j] && l1.span.len() != 2 && same(0) && same(1) && !same(2) {
                            let desc = format!(
                                "lint {:?} on chars {}..{} was ignored; the edit ({} {}..{} -> {:?}) leaves the flagged text and the tokens within two characters of it untouched (it touches a token in [s+2,s+4)), yet the lint is reported again",
                                l1.message, l1.span.start, l1.span.end, e.what, e.a, e.b, e.with
                            );
                            sess.fail(CLASS_AFTER, desc, input.clone(), Some(case));
                        }
                    }
                    continue;
                }
                sess.count(if has_quote { "edit:untouched-with-quote" } else { "edit:untouched" });
                sess.nontrivial(&format!("{}|{}|{:?}", text, i, e));
                if !flags[j] {
                    let desc = format!(
                        "lint {:?} on chars {}..{} was ignored; after the edit ({} {}..{} -> {:?}) its flagged text and window tokens are the same, yet it is reported again",
                        l1.message, l1.span.start, l1.span.end, e.what, e.a, e.b, e.with
                    );
                    if has_quote {
                        sess.fail(CLASS_QUOTE, desc, input.clone(), Some(case));
                    } else {
                        sess.fail("edit-unstable", desc, input.clone(), Some(case));
                    }
                    return;
                }
            }
        }
    }
}

/// lints of `text`, or empty when the pipeline panics
fn lints_of(env: &mut Env, text: &str, markdown: bool) -> (Option<Document>, Vec<Lint>) {
    match guarded(|| {
        let d = env.parse(text, markdown);
        let l = env.lint(&d);
        (d, l)
    }) {
        Ok((d, l)) => (Some(d), l),
        Err(_) => (None, vec![]),
    }
}

fn random_subset(rng: &mut Rng, n: usize) -> Vec<usize> {
    if n == 0 {
        return vec![];
    }
    match rng.below(4) {
        0 => vec![rng.below(n)],
        1 => (0..n).collect(),
        _ => {
            let mut v: Vec<usize> = (0..n).filter(|_| rng.chance(1, 2)).collect();
            if v.is_empty() {
                v.push(rng.below(n));
            }
            // ignore order is not document order
            if rng.chance(1, 2) {
                v.reverse();
            }
            v
        }
    }
}

/// an edit that stays away from the windows of lint `l`: prepend, append, or alter a word that is
/// more than two characters and a token boundary away from `[s-2, max(e, s+4))`
fn random_edit(rng: &mut Rng, doc: &Document, l: &Lint, sents: &[String]) -> Edit {
    let n = doc.get_source().len();
    let lo = l.span.start.saturating_sub(2);
    let hi = l.span.end.max(l.span.start + 4);
    match rng.below(5) {
        0 | 1 => {
            let mut p = rng.pick(sents).clone();
            if rng.chance(1, 5) {
                p = format!("He said \"{}", p); // shifts the pairing of later quotes
            }
            p.push(' ');
            Edit { a: 0, b: 0, with: p, what: "prepend" }
        }
        2 => Edit { a: n, b: n, with: format!(" {}", rng.pick(sents)), what: "append" },
        _ => {
            let toks = doc.get_tokens();
            let far: Vec<usize> = (0..toks.len())
                .filter(|&k| {
                    let t = &toks[k];
                    let left_ok = t.span.end + 3 <= lo && toks.get(k + 1).is_some_and(|u| u.span.end + 2 <= lo);
                    let right_ok = t.span.start >= hi + 3 && k > 0 && toks[k - 1].span.start >= hi + 2;
                    t.kind.is_word() && (left_ok || right_ok)
                })
                .collect();
            if far.is_empty() {
                return Edit { a: 0, b: 0, with: format!("{} ", rng.pick(sents)), what: "prepend" };
            }
            let t = &toks[*rng.pick(&far)];
            let w = *rng.pick(&["zebra", "ox", "Quietly", "the", "supercalifragilistic", "I", "and then some"]);
            Edit { a: t.span.start, b: t.span.end, with: w.to_string(), what: "alter-far-word" }
        }
    }
}

/// K only, exhaustive over spans: a synthetic lint on every span `[s,e)` (e ≤ s+6) of two texts
/// that differ in one character — does the real context hash differ, and does the model's context?
/// Probes the window arithmetic at every boundary (`2 > s`, `[s-2,s)`, `[s+2,s+4)`).
fn probe_windows(sess: &mut Session, env: &mut Env, a: &str, b: &str) {
    let (da, db) = (env.parse(a, false), env.parse(b, false));
    let (ta, tb) = (env.enc_tokens(&da), env.enc_tokens(&db));
    let n = da.get_source().len().min(db.get_source().len());
    for s in 0..=n {
        for e in s..=(s + 6).min(n) {
            let l = Lint { span: harper_core::Span::new(s, e), message: "m".into(), priority: 31, ..Default::default() };
            let r = guarded(|| (hash_of(&da, &l), hash_of(&db, &l)));
            let imp = match r {
                Ok((Some(x), Some(y))) => format!("ok {}", (x == y) as u8),
                _ => "panic".to_string(),
            };
            let w = enc_lint(0, &l);
            sess.k(&format!("ce {} | {} | {} | {}", ta, w, tb, w), &imp);
            sess.count("probe-windows");
            if imp == "ok 0" {
                sess.nontrivial(&format!("probe|{}|{}|{}|{}", a, b, s, e));
            }
        }
    }
}

/// diagnostics of a publication as sorted `line:col-line:col message` strings
fn show_pub(v: &Value) -> Vec<String> {
    let mut out: Vec<String> = v
        .as_array()
        .map(|a| a.iter().map(|d| format!("{}:{}-{}:{} {}", d["range"]["start"]["line"], d["range"]["start"]["character"], d["range"]["end"]["line"], d["range"]["end"]["character"], d["message"].as_str().unwrap_or(""))).collect())
        .unwrap_or_default();
    out.sort();
    out
}

/// every `{command: "HarperIgnoreLint", arguments: [...]}` object inside a code-action response
fn ignore_commands(v: &Value, out: &mut Vec<Value>) {
    match v {
        Value::Object(m) => {
            if m.get("command").and_then(|c| c.as_str()) == Some("HarperIgnoreLint") && m.get("arguments").is_some() {
                out.push(m["arguments"].clone());
            }
            for x in m.values() {
                ignore_commands(x, out);
            }
        }
        Value::Array(a) => a.iter().for_each(|x| ignore_commands(x, out)),
        _ => {}
    }
}

/// The ignore path of the SERVER (`textDocument/codeAction` → the embedded `HarperIgnoreLint` command
/// → `workspace/executeCommand`) through the real `Backend`: the next publication is the previous one
/// minus exactly the ignored diagnostic; it stays hidden when the same text is sent again and when a
/// paragraph is put in front of it; everything else harper-core reports is still published.
fn eval_server(sess: &mut Session, ctx: &Ctx, text: &str, flagged: &str) -> Result<(), crate::lsclient::LsError> {
    use crate::diagnostics::lints_to_diagnostics;
    use crate::lsclient::*;
    set_home(&ctx.out.join("c14-home"));
    let cfg = json!({"harper-ls": {}});
    let uri = "file:///c14-server/doc.txt".to_string();
    let core = |t: &str| -> Vec<String> {
        let dict = FstDictionary::curated();
        let doc = Document::new_plain_english(t, &dict);
        let mut g = LintGroup::new_curated(dict.clone(), Dialect::American);
        g.config.fill_with_curated();
        let lints = g.lint(&doc);
        let sev = crate::config::Config::default().diagnostic_severity;
        show_pub(&serde_json::to_value(lints_to_diagnostics(doc.get_full_content(), &lints, sev)).unwrap())
    };
    let inp = json!({"kind": "server", "text": text, "flagged": flagged});
    let mut ls = LsSession::start()?;
    ls.initialize(&cfg)?;
    ls.notify("textDocument/didOpen", did_open(&uri, "plaintext", text))?;
    ls.quiesce(&cfg)?;
    let before = ls.last_publication(&uri).map(show_pub).unwrap_or_default();
    sess.o();
    if before != core(text) {
        sess.count("server:first-publication-differs(C08/C11)");
        ls.shutdown(&cfg)?;
        return Ok(());
    }
    // the position of the flagged word (ASCII, first line or later)
    let Some(at) = text.find(flagged) else { ls.shutdown(&cfg)?; return Ok(()) };
    let line = text[..at].matches('\n').count();
    let col = at - text[..at].rfind('\n').map(|i| i + 1).unwrap_or(0);
    let params = json!({"textDocument": {"uri": uri}, "range": {"start": {"line": line, "character": col + 1}, "end": {"line": line, "character": col + 1}}, "context": {"diagnostics": []}});
    let resp = ls.request_sync("textDocument/codeAction", params, &cfg)?;
    let mut cmds = vec![];
    ignore_commands(&resp["result"], &mut cmds);
    sess.monitor("a code action on a flagged word offers HarperIgnoreLint", !cmds.is_empty());
    let Some(args) = cmds.first().cloned() else { ls.shutdown(&cfg)?; return Ok(()) };
    let target_prefix = format!("{}:{}-", line, col);
    let hidden: Vec<String> = before.iter().filter(|d| d.starts_with(&target_prefix)).cloned().collect();
    ls.request_sync("workspace/executeCommand", json!({"command": "HarperIgnoreLint", "arguments": args}), &cfg)?;
    ls.quiesce(&cfg)?;
    let after = ls.last_publication(&uri).map(show_pub).unwrap_or_default();
    let minus = |all: &[String], gone: &[String]| -> Vec<String> {
        let mut v = all.to_vec();
        for g in gone.iter().take(1) {
            if let Some(i) = v.iter().position(|x| x == g) {
                v.remove(i);
            }
        }
        v
    };
    sess.o();
    if after != minus(&before, &hidden) {
        sess.fail("server-ignore-not-exact", format!("HarperIgnoreLint on {:?}: published before {:?}, after {:?} — not the previous publication minus exactly the ignored diagnostic", flagged, before, after), inp.clone(), None);
    } else {
        sess.nontrivial(&format!("server|{}|{}", text, flagged));
    }
    // the same text again, then a paragraph in front of it
    ls.notify("textDocument/didChange", did_change(&uri, 2, text))?;
    ls.quiesce(&cfg)?;
    let again = ls.last_publication(&uri).map(show_pub).unwrap_or_default();
    sess.o();
    if again != after {
        sess.fail("server-ignore-forgotten", format!("the same text sent again: {:?} was published, {:?} right after the ignore", again, after), inp.clone(), None);
    }
    let intro = "An introduction comes first here.\n\n";
    let moved = format!("{}{}", intro, text);
    ls.notify("textDocument/didChange", did_change(&uri, 3, &moved))?;
    ls.quiesce(&cfg)?;
    let got = ls.last_publication(&uri).map(show_pub).unwrap_or_default();
    let shifted_prefix = format!("{}:{}-", line + 2, col);
    let all = core(&moved);
    let gone: Vec<String> = all.iter().filter(|d| d.starts_with(&shifted_prefix)).cloned().collect();
    sess.o();
    if got != minus(&all, &gone) {
        sess.fail("server-ignore-edit-unstable", format!("a paragraph put in front of the text: published {:?}; harper-core reports {:?}, of which {:?} is the ignored lint", got, all, gone), inp, None);
    }
    ls.shutdown(&cfg)?;
    Ok(())
}

/// The ignore path of the JS API (`harper_wasm::Linter::{lint, ignore_lint, export_ignored_lints,
/// import_ignored_lints}`, built natively): lint, ignore one reported lint, lint again = the first
/// result minus exactly that lint; a fresh linter that imports the exported list reports the same.
fn eval_js(sess: &mut Session, text: &str, user_words: &[&str]) {
    use harper_wasm::{Dialect as WDialect, Language, Linter as WLinter};
    let key = |l: &harper_wasm::Lint| (l.span().start, l.span().end, l.message());
    let mk = || {
        let mut l = WLinter::new(WDialect::American);
        if !user_words.is_empty() {
            l.import_words(user_words.iter().map(|w| w.to_string()).collect());
        }
        l
    };
    let mut js = mk();
    let Ok(first) = guarded(|| js.lint(text.to_string(), Language::Plain)) else { return };
    for k in 0..first.len() {
        let mut js = mk();
        let Ok(first) = guarded(|| js.lint(text.to_string(), Language::Plain)) else { return };
        let want: Vec<_> = first.iter().enumerate().filter(|(i, _)| *i != k).map(|(_, l)| key(l)).collect();
        let target = key(&first[k]);
        let mut it = first.into_iter();
        let Some(l) = it.nth(k) else { return };
        if guarded(|| js.ignore_lint(text.to_string(), l)).is_err() {
            sess.fail("js-ignore-panic", "Linter::ignore_lint panicked".into(), json!({"kind": "js", "text": text, "index": k, "user_words": user_words}), None);
            return;
        }
        let Ok(second) = guarded(|| js.lint(text.to_string(), Language::Plain)) else { return };
        let got: Vec<_> = second.iter().map(key).collect();
        sess.o();
        // lints that were shadowed by nothing: the JS API removes overlaps BEFORE ignoring, so nothing new may appear
        // the ignore list stores a hash of (lint, neighbouring tokens) WITHOUT a position: another lint
        // with the same message on the same flagged text may have the same context and is then hidden
        // with it, by design (C14's model: contexts, not positions). Such twins may go; nothing else.
        let src: Vec<char> = text.chars().collect();
        let flagged = |k: &(usize, usize, String)| -> Vec<char> { src.get(k.0..k.1.min(src.len())).map(|s| s.to_vec()).unwrap_or_default() };
        let twins_only = got.iter().all(|g| want.contains(g)) && want.iter().filter(|w| !got.contains(w)).all(|w| w.2 == target.2 && flagged(w) == flagged(&target));
        if got != want && twins_only {
            sess.count("js:twin-context-hidden-too");
            continue;
        }
        if got != want {
            sess.fail("js-ignore-not-exact", format!("ignore_lint({:?}): lint() went from {} lints to {:?}, expected the first result minus that lint: {:?}", target, want.len() + 1, got, want), json!({"kind": "js", "text": text, "index": k, "user_words": user_words}), None);
            return;
        }
        let exported = js.export_ignored_lints();
        let mut fresh = mk();
        if fresh.import_ignored_lints(exported).is_err() {
            sess.fail("js-import-rejects-export", "import_ignored_lints rejected the exported list".into(), json!({"kind": "js", "text": text, "index": k, "user_words": user_words}), None);
            return;
        }
        let Ok(third) = guarded(|| fresh.lint(text.to_string(), Language::Plain)) else { return };
        sess.o();
        if third.iter().map(key).collect::<Vec<_>>() != want {
            sess.fail("js-export-import-differs", format!("a fresh linter with the exported ignore list reports {:?}, expected {:?}", third.iter().map(key).collect::<Vec<_>>(), want), json!({"kind": "js", "text": text, "index": k, "user_words": user_words}), None);
            return;
        }
        sess.count("js:ignored-one-of-n");
    }
}

const SERVER_TEXTS: &[(&str, &str)] = &[
    ("There is a tset here and it is fine.\n", "tset"),
    ("A problm is here.\n", "problm"),
    ("We bought it.\nThis is an test of it, and a problm too.\n", "problm"),
    ("It is fine. It is an test of teh thing.\n\nAnother paragraph has a mistaek in it.\n", "teh"),
    ("It is fine. It is an test of teh thing.\n\nAnother paragraph has a mistaek in it.\n", "mistaek"),
];

// ---------------------------------------------------------------------------------------------
// w25: document families and edits the quantifier names and the generators above do not write
// (Markdown with real markup, non-ASCII in front of the lints, CRLF / lone CR, blank, long,
// repeated constructs, lints at offsets 0..3, dialect spellings; edits that prepend a paragraph /
// a heading / non-ASCII / a CRLF line, append a paragraph, delete a far word, delete the text in
// front), the JS path in Markdown, on all dialects, with clear → import (twice) and with edits, and
// the server path on a Markdown document next to a second open document, with two ignores in a row,
// the code actions after the ignore, and an appended paragraph.
// ---------------------------------------------------------------------------------------------

const W25_PRE: &[(&str, &str)] = &[
    ("This is fine.\n\n", "prepend-paragraph"),
    ("# A title here\n\n", "prepend-heading"),
    ("😀 é — ", "prepend-non-ascii"),
    ("A first line is here.\r\n", "prepend-crlf-line"),
    ("- an item\n- another item\n\n", "prepend-list"),
    ("Hello there. ", "prepend"),
];

/// as `random_edit`, with the kinds it does not write
fn w25_edit(rng: &mut Rng, doc: &Document, l: &Lint, sents: &[String]) -> Edit {
    let n = doc.get_source().len();
    let lo = l.span.start.saturating_sub(2);
    let hi = l.span.end.max(l.span.start + 4);
    match rng.below(6) {
        0..=2 => {
            let (with, what) = *rng.pick(W25_PRE);
            Edit { a: 0, b: 0, with: with.to_string(), what }
        }
        3 => Edit { a: n, b: n, with: format!("\n\n{}", rng.pick(sents)), what: "append-paragraph" },
        _ => {
            let toks = doc.get_tokens();
            let far: Vec<usize> = (0..toks.len())
                .filter(|&k| {
                    let t = &toks[k];
                    let left_ok = t.span.end + 3 <= lo && toks.get(k + 1).is_some_and(|u| u.span.end + 2 <= lo);
                    let right_ok = t.span.start >= hi + 3 && k > 0 && toks[k - 1].span.start >= hi + 2;
                    t.kind.is_word() && (left_ok || right_ok)
                })
                .collect();
            if far.is_empty() {
                return Edit { a: n, b: n, with: "\n\nThe end.".to_string(), what: "append-paragraph" };
            }
            let t = &toks[*rng.pick(&far)];
            Edit { a: t.span.start, b: t.span.end, with: String::new(), what: "delete-far-word" }
        }
    }
}

/// the core path (K + O) over the w25 families
fn w25_core(sess: &mut Session, env: &mut Env, rng: &mut Rng, sents: &[String], ndocs: usize) {
    for n in 0..ndocs {
        let (text, markdown, fam) = crate::c16::w25_text(rng, sents, n);
        let (doc, lints) = lints_of(env, &text, markdown);
        let Some(doc) = doc else { continue };
        sess.count(&format!("w25:doc:{}", fam));
        if text.chars().any(|c| (c as u32) > 0xFFFF) {
            sess.count("w25:doc-has-astral");
        } else if !text.is_ascii() {
            sess.count("w25:doc-has-non-ascii");
        }
        if text.contains('\r') {
            sess.count("w25:doc-has-cr");
        }
        if text.chars().count() > 400 {
            sess.count("w25:doc-longer-than-400");
        }
        if lints.is_empty() {
            sess.count("w25:doc-without-lints");
            // an empty ignore list on a document without lints: the degenerate case, once per family member
            eval(sess, env, &text, markdown, &[], &Mode::ExportImport, None, "w25");
            continue;
        }
        let ids = random_subset(rng, lints.len());
        let mode = match rng.below(3) {
            0 => Mode::ExportImport,
            1 => Mode::Append(rng.below(ids.len() + 1)),
            _ => Mode::Direct,
        };
        eval(sess, env, &text, markdown, &ids, &mode, None, "w25");
        for _ in 0..2 {
            let i = rng.below(lints.len());
            let e = w25_edit(rng, &doc, &lints[i], sents);
            let mode = if rng.chance(1, 4) { Mode::ExportImport } else { Mode::Direct };
            eval(sess, env, &text, markdown, &[i], &mode, Some(&e), "w25");
        }
        // the reverse direction: the lint is ignored deep in the document, then the text in front is deleted
        let (pre, _) = *rng.pick(W25_PRE);
        let text2 = format!("{}{}", pre, text);
        let plen = pre.chars().count();
        let (_, lints2) = lints_of(env, &text2, markdown);
        let behind: Vec<usize> = (0..lints2.len()).filter(|i| lints2[*i].span.start >= plen).collect();
        if !behind.is_empty() {
            let i = *rng.pick(&behind);
            let e = Edit { a: 0, b: plen, with: String::new(), what: "delete-prefix" };
            eval(sess, env, &text2, markdown, &[i], &Mode::Direct, Some(&e), "w25");
        }
    }
}

/// The JS path beyond `eval_js`: Markdown, every dialect, clear → import (twice: `append`), and the
/// edit clause — the ignored lint stays hidden when text is put in front of / behind the document,
/// as long as its flagged text and window tokens are the same (judged on harper-core's tokens).
fn w25_js(sess: &mut Session, env: &Env, text: &str, md: bool, dialect: &str, pick: usize) {
    use harper_wasm::{Dialect as WDialect, Language, Linter as WLinter};
    let wd = match dialect {
        "British" => WDialect::British,
        "Australian" => WDialect::Australian,
        "Canadian" => WDialect::Canadian,
        _ => WDialect::American,
    };
    let lang = if md { Language::Markdown } else { Language::Plain };
    let key = |l: &harper_wasm::Lint| (l.span().start, l.span().end, l.message());
    let inp = json!({"kind": "js-w25", "text": text, "md": md, "dialect": dialect, "pick": pick});
    let mut js = WLinter::new(wd);
    let Ok(first) = guarded(|| js.lint(text.to_string(), lang)) else { return };
    if first.is_empty() {
        sess.count("w25:js:no-lints");
        return;
    }
    let k = pick % first.len();
    let firstk: Vec<_> = first.iter().map(key).collect();
    let flagged: Vec<String> = first.iter().map(|l| l.get_problem_text()).collect();
    let target = firstk[k].clone();
    let Some(l) = first.into_iter().nth(k) else { return };
    if guarded(|| js.ignore_lint(text.to_string(), l)).is_err() {
        sess.fail("js-ignore-panic", "Linter::ignore_lint panicked".into(), inp, None);
        return;
    }
    let Ok(second) = guarded(|| js.lint(text.to_string(), lang)) else { return };
    let got: Vec<_> = second.iter().map(key).collect();
    sess.o();
    sess.count(&format!("w25:js:{}:{}", if md { "markdown" } else { "plain" }, dialect));
    // clause 1: gone; clause 2: a lint with another message or another flagged text is still there; nothing new
    let others_stay = firstk.iter().enumerate().filter(|(i, w)| w.2 != target.2 || flagged[*i] != flagged[k]).all(|(_, w)| got.contains(w));
    if got.contains(&target) || !others_stay || !got.iter().all(|g| firstk.contains(g)) {
        sess.fail("js-ignore-not-exact", format!("ignore_lint({:?}) in {}: lint() went from {:?} to {:?}", target, if md { "Markdown" } else { "plain text" }, firstk, got), inp, None);
        return;
    }
    if got.len() + 1 == firstk.len() && !got.is_empty() {
        sess.nontrivial(&format!("w25js|{}|{}|{}", text, md, k));
    }
    // clause 3 on the same object: export → clear → import, imported twice
    let exported = js.export_ignored_lints();
    js.clear_ignored_lints();
    let ok = js.import_ignored_lints(exported.clone()).is_ok() && js.import_ignored_lints(exported.clone()).is_ok();
    let again = js.export_ignored_lints();
    let hs = |j: &str| -> Vec<u64> {
        let v: Value = serde_json::from_str(j).unwrap_or(Value::Null);
        let mut h: Vec<u64> = v["context_hashes"].as_array().map(|a| a.iter().filter_map(|x| x.as_u64()).collect()).unwrap_or_default();
        h.sort();
        h
    };
    let Ok(third) = guarded(|| js.lint(text.to_string(), lang)) else { return };
    sess.o();
    if !ok || hs(&again) != hs(&exported) || third.iter().map(key).collect::<Vec<_>>() != got {
        sess.fail("js-export-import-differs", format!("export → clear → import (twice): the list went from {} to {}, lint() from {:?} to {:?}", exported, again, got, third.iter().map(key).collect::<Vec<_>>()), inp, None);
        return;
    }
    // clause 4: text in front of / behind the document
    let doc1 = env.parse(text, md);
    for (pre, suf) in [("Hello there. ", ""), ("", " Thanks a lot."), ("This is fine.\n\n", "\n\nAnother paragraph is here."), ("😀 ", "")] {
        let t2 = format!("{}{}{}", pre, text, suf);
        let d = pre.chars().count();
        let probe1 = Lint { span: harper_core::Span::new(target.0, target.1), ..Default::default() };
        let probe2 = Lint { span: harper_core::Span::new(target.0 + d, target.1 + d), ..Default::default() };
        let Ok(doc2) = guarded(|| env.parse(&t2, md)) else { continue };
        let (w1, w2) = (windows(&doc1, &probe1), windows(&doc2, &probe2));
        let untouched = (0..3).all(|i| w1[i] == w2[i]) && !w1.iter().flatten().any(is_quote);
        if !untouched {
            sess.count("w25:js:edit-touches-window");
            continue;
        }
        let Ok(r) = guarded(|| js.lint(t2.clone(), lang)) else { continue };
        sess.o();
        sess.count("w25:js:edit-untouched");
        if r.iter().any(|x| key(x) == (target.0 + d, target.1 + d, target.2.clone())) {
            sess.fail(
                "js-edit-unstable",
                format!("{:?} was ignored; with {:?} in front and {:?} behind the document its flagged text and window tokens are the same, yet lint() reports it again", target, pre, suf),
                inp,
                None,
            );
            return;
        }
    }
}

const W25_MD: &str = "# Notes\n\nThere is *an problm* here and a mistaek too.\n\n- I saw teh list.\n";
const W25_TXT: &str = "There is a tset here.\nAnd a wrod too.\n";

/// The server path beyond `eval_server`: a Markdown document and a plain one open at once; two ignores
/// in a row in the first; the code actions at an ignored lint; a paragraph appended; an ignore in the
/// second. Every step: the document's next publication is its previous one minus exactly the ignored
/// diagnostic, and the other document's publication does not change.
fn w25_server(sess: &mut Session, ctx: &Ctx) -> Result<(), crate::lsclient::LsError> {
    use crate::lsclient::*;
    set_home(&ctx.out.join("c14-home-w25"));
    let cfg = json!({"harper-ls": {}});
    let (ua, ub) = ("file:///c14-w25/a.md".to_string(), "file:///c14-w25/b.txt".to_string());
    let inp = json!({"kind": "server-w25"});
    let mut ls = LsSession::start()?;
    ls.initialize(&cfg)?;
    ls.notify("textDocument/didOpen", did_open(&ua, "markdown", W25_MD))?;
    ls.notify("textDocument/didOpen", did_open(&ub, "plaintext", W25_TXT))?;
    ls.quiesce(&cfg)?;
    let pos_of = |text: &str, word: &str| -> Option<(usize, usize)> {
        let at = text.find(word)?;
        Some((text[..at].matches('\n').count(), at - text[..at].rfind('\n').map(|i| i + 1).unwrap_or(0)))
    };
    let minus = |all: &[String], prefix: &str| -> (Vec<String>, usize) {
        let mut v = all.to_vec();
        let n = v.iter().filter(|x| x.starts_with(prefix)).count();
        if let Some(i) = v.iter().position(|x| x.starts_with(prefix)) {
            v.remove(i);
        }
        (v, n)
    };
    let mut pa = ls.last_publication(&ua).map(show_pub).unwrap_or_default();
    let mut pb = ls.last_publication(&ub).map(show_pub).unwrap_or_default();
    sess.monitor("w25: the server reports lints in both open documents", pa.len() >= 3 && pb.len() >= 2);
    let mut ignored: Vec<String> = vec![];
    let steps: [(&str, &str, &str); 3] = [(&ua, W25_MD, "problm"), (&ua, W25_MD, "mistaek"), (&ub, W25_TXT, "wrod")];
    for (uri, text, word) in steps {
        let Some((line, col)) = pos_of(text, word) else { continue };
        let params = json!({"textDocument": {"uri": uri}, "range": {"start": {"line": line, "character": col + 1}, "end": {"line": line, "character": col + 1}}, "context": {"diagnostics": []}});
        let resp = ls.request_sync("textDocument/codeAction", params.clone(), &cfg)?;
        let mut cmds = vec![];
        ignore_commands(&resp["result"], &mut cmds);
        sess.monitor("a code action on a flagged word offers HarperIgnoreLint", !cmds.is_empty());
        let Some(args) = cmds.first().cloned() else { continue };
        ls.request_sync("workspace/executeCommand", json!({"command": "HarperIgnoreLint", "arguments": args}), &cfg)?;
        ls.quiesce(&cfg)?;
        let prefix = format!("{}:{}-", line, col);
        let (mine, other, other_uri) = if uri == ua { (&mut pa, &pb, &ub) } else { (&mut pb, &pa, &ua) };
        let (want, n) = minus(mine, &prefix);
        let after = ls.last_publication(uri).map(show_pub).unwrap_or_default();
        let other_now = ls.last_publication(other_uri).map(show_pub).unwrap_or_default();
        sess.o();
        sess.count("w25:server:ignore-step");
        if n != 1 || after != want {
            sess.fail("server-ignore-not-exact", format!("HarperIgnoreLint on {:?} in {}: published before {:?}, after {:?} — not the previous publication minus exactly the ignored diagnostic", word, uri, mine, after), inp.clone(), None);
            ls.shutdown(&cfg)?;
            return Ok(());
        }
        if &other_now != other {
            sess.fail("server-ignore-leaks-to-other-document", format!("HarperIgnoreLint on {:?} in {}: the other open document went from {:?} to {:?}", word, uri, other, other_now), inp.clone(), None);
            ls.shutdown(&cfg)?;
            return Ok(());
        }
        ignored.extend(mine.iter().filter(|x| x.starts_with(&prefix)).cloned());
        *mine = after;
        sess.nontrivial(&format!("w25server|{}|{}", uri, word));
        // clause 1 on the other observable: the code actions at the ignored lint no longer offer to ignore it
        let resp = ls.request_sync("textDocument/codeAction", params, &cfg)?;
        let mut cmds2 = vec![];
        ignore_commands(&resp["result"], &mut cmds2);
        sess.o();
        if cmds2.iter().any(|c| c == &args) {
            sess.fail("server-ignored-lint-still-actionable", format!("after HarperIgnoreLint on {:?} the code actions at that place still offer to ignore the same lint", word), inp.clone(), None);
        }
    }
    // a paragraph appended to the Markdown document: what was ignored stays hidden, what was published stays
    let moved = format!("{}\nA new paragraph is added at the very end.\n", W25_MD);
    ls.notify("textDocument/didChange", did_change(&ua, 2, &moved))?;
    ls.quiesce(&cfg)?;
    let got = ls.last_publication(&ua).map(show_pub).unwrap_or_default();
    sess.o();
    if ignored.iter().any(|g| got.contains(g)) || !pa.iter().all(|d| got.contains(d)) {
        sess.fail("server-ignore-edit-unstable", format!("a paragraph appended to the Markdown document: published {:?}; before {:?}; ignored {:?}", got, pa, ignored), inp.clone(), None);
    }
    // the same text again in the plain document
    ls.notify("textDocument/didChange", did_change(&ub, 2, W25_TXT))?;
    ls.quiesce(&cfg)?;
    let again = ls.last_publication(&ub).map(show_pub).unwrap_or_default();
    sess.o();
    if again != pb {
        sess.fail("server-ignore-forgotten", format!("the same text sent again: {:?} was published, {:?} right after the ignore", again, pb), inp, None);
    }
    ls.shutdown(&cfg)?;
    Ok(())
}

fn w25_streams(sess: &mut Session, ctx: &Ctx, env: &mut Env, rng: &mut Rng, sents: &[String]) {
    let thorough = ctx.tier == Tier::Thorough;
    let t0 = std::time::Instant::now();
    w25_core(sess, env, rng, sents, if thorough { 4000 } else { 260 });
    sess.add("w25:wall-ms:core", t0.elapsed().as_millis() as u64);
    let njs = if thorough { 600 } else { 60 };
    for n in 0..njs {
        let (t, md, fam) = crate::c16::w25_text(rng, sents, n);
        if fam == "user-words-in-text" || t.contains('"') || t.contains('“') || t.contains('”') {
            continue; // c14-quote-twin-loc is recorded on the core path
        }
        let d = ["American", "British", "Australian", "Canadian"][n % 4];
        w25_js(sess, env, &t, md, d, rng.below(8));
    }
    for (i, t) in ["There is *an problm* here and a mistaek too.", "# An problm\n\nI saw a elephant in [an problm](http://a.b/c).", "- an problm\n- a elephant\n\n> an zqxv"].iter().enumerate() {
        for k in 0..3 {
            w25_js(sess, env, t, true, ["British", "Australian", "Canadian"][i % 3], k);
        }
    }
    sess.add("w25:wall-ms:core+js", t0.elapsed().as_millis() as u64);
    let ok = w25_server(sess, ctx).is_ok();
    sess.monitor("the in-process language server completed the C14 sessions", ok);
    sess.count("origin:server-session-w25");
    sess.add("w25:wall-ms", t0.elapsed().as_millis() as u64);
}

pub fn run(ctx: &Ctx) {
    let mut sess = Session::new(ctx);
    let mut rng = Rng::new(ctx.seed);
    let mut env = Env::new();
    if let Some(v) = replay_input(ctx) {
        let text = v["text"].as_str().unwrap_or("").to_string();
        if v["kind"] == "server-w25" || v["kind"] == "js-w25" {
            if v["kind"] == "server-w25" {
                let ok = w25_server(&mut sess, ctx).is_ok();
                sess.monitor("the in-process language server completed the C14 sessions", ok);
            } else {
                w25_js(&mut sess, &env, &text, v["md"].as_bool().unwrap_or(false), v["dialect"].as_str().unwrap_or("American"), v["pick"].as_u64().unwrap_or(0) as usize);
            }
            sess.nontrivial("replay-a");
            sess.nontrivial("replay-b");
            sess.finish("replay of one recorded w25 server / JS input", false, json!({}));
            return;
        }
        if v["kind"] == "server" || v["kind"] == "js" {
            if v["kind"] == "server" {
                let ok = eval_server(&mut sess, ctx, &text, v["flagged"].as_str().unwrap_or("")).is_ok();
                sess.monitor("the in-process language server completed the C14 sessions", ok);
            } else {
                let uw: Vec<String> = serde_json::from_value(v["user_words"].clone()).unwrap_or_default();
                let uw: Vec<&str> = uw.iter().map(|x| x.as_str()).collect();
                eval_js(&mut sess, &text, &uw);
            }
            sess.nontrivial("replay-a");
            sess.nontrivial("replay-b");
            sess.finish("replay of one recorded server / JS input", false, json!({}));
            return;
        }
        let markdown = v["markdown"].as_bool().unwrap_or(false);
        let ids: Vec<usize> = serde_json::from_value(v["ignore"].clone()).unwrap_or_default();
        let mode = Mode::from_json(&v["mode"]);
        let edit = v.get("edit").filter(|e| !e.is_null()).map(|e| Edit {
            a: e["a"].as_u64().unwrap_or(0) as usize,
            b: e["b"].as_u64().unwrap_or(0) as usize,
            with: e["with"].as_str().unwrap_or("").to_string(),
            what: "replay-edit",
        });
        eval(&mut sess, &mut env, &text, markdown, &ids, &mode, edit.as_ref(), "replay");
        sess.nontrivial("replay-a");
        sess.nontrivial("replay-b");
        sess.finish("replay of one recorded input", false, json!({}));
        return;
    }
    let sents = crate::corpus::sentences().clone();

    // 1. corpus: the witness of the recorded finding first, then the repository's own test texts
    for w in ["Well, \"Ths\" is bad.", "\"Ths\" is bad."] {
        let (doc, lints) = lints_of(&mut env, w, false);
        if let Some(doc) = doc {
            let src = doc.get_source();
            if let Some(i) = lints.iter().position(|l| l.lint_kind.is_spelling() && l.span.get_content(src) == ['T', 'h', 's']) {
                let e = Edit { a: 0, b: 0, with: "Hello there. ".into(), what: "prepend" };
                eval(&mut sess, &mut env, w, false, &[i], &Mode::Direct, Some(&e), "corpus");
                eval(&mut sess, &mut env, w, false, &[i], &Mode::ExportImport, Some(&e), "corpus");
                eval(&mut sess, &mut env, w, false, &[i], &Mode::Direct, None, "corpus");
            } else {
                sess.count("corpus:witness-lint-missing");
            }
        }
    }
    // the after-window is `with_len(2).pushed_by(2)` = [s+2,s+4): for a one-character lint it reaches
    // the third character after the flagged text (observation counters, see `windows_literal`)
    for (w, a, b, with) in [("more than 4$.", 13usize, 13usize, " Thanks."), ("It was my last bill worth more than 4$.", 39, 39, " Thanks.")] {
        let (_, lints) = lints_of(&mut env, w, false);
        for i in 0..lints.len() {
            let e = Edit { a, b, with: with.into(), what: "append" };
            eval(&mut sess, &mut env, w, false, &[i], &Mode::Direct, Some(&e), "corpus");
        }
    }
    for (t, md) in [
        ("There is an problem in this text. Here is an second one.", true),
        ("There is a problm in this text. Here is a scond one.", true),
        ("There is a problm in this text. There is a problm in this text.", false),
        ("There is a problm in this text. There is a problm of this text.", false),
        ("An problm.", false),
        ("a problm", false),
        ("I saw a elephant and a elephant saw me.", false),
    ] {
        let (_, lints) = lints_of(&mut env, t, md);
        for i in 0..lints.len() {
            eval(&mut sess, &mut env, t, md, &[i], &Mode::Direct, None, "corpus");
            let e = Edit { a: 0, b: 0, with: "Hello there. ".into(), what: "prepend" };
            eval(&mut sess, &mut env, t, md, &[i], &Mode::Direct, Some(&e), "corpus");
        }
        let all: Vec<usize> = (0..lints.len()).collect();
        eval(&mut sess, &mut env, t, md, &all, &Mode::ExportImport, None, "corpus");
        eval(&mut sess, &mut env, t, md, &all, &Mode::Append(1), None, "corpus");
    }

    // 2. exhaustive small scope: every text of ≤ 4 (quick: ≤ 3) pieces over a 6-piece vocabulary;
    //    ignore each single lint, and all lints through export/import
    let pieces = ["an ", "apple ", "problm ", "\"", ". ", "a "];
    let maxlen = if ctx.tier == Tier::Thorough { 4 } else { 3 };
    for len in 1..=maxlen {
        let total = pieces.len().pow(len as u32);
        for code in 0..total {
            let mut c = code;
            let mut t = String::new();
            for _ in 0..len {
                t.push_str(pieces[c % pieces.len()]);
                c /= pieces.len();
            }
            let (_, lints) = lints_of(&mut env, &t, false);
            for i in 0..lints.len() {
                eval(&mut sess, &mut env, &t, false, &[i], &Mode::Direct, None, "exhaustive");
            }
            if lints.len() > 1 {
                let all: Vec<usize> = (0..lints.len()).collect();
                eval(&mut sess, &mut env, &t, false, &all, &Mode::ExportImport, None, "exhaustive");
            }
        }
    }

    // 2b. exhaustive over spans and single-character differences of a small text
    for base in ["ab \"cd\" e, fgh. i", "a  bc"] {
        let cs: Vec<char> = base.chars().collect();
        for p in 0..cs.len() {
            let mut v = cs.clone();
            v[p] = if v[p].is_alphabetic() { 'z' } else { 'x' };
            let b: String = v.into_iter().collect();
            probe_windows(&mut sess, &mut env, base, &b);
        }
    }

    // 3. structured random: rule-test sentences (all rules on) × subsets × modes × edits
    let ndocs = if ctx.tier == Tier::Thorough { 25000 } else { 3000 };
    for n in 0..ndocs {
        let mut text = rng.pick(&sents).clone();
        match rng.below(6) {
            0 => {
                text.push(' ');
                text.push_str(rng.pick(&sents[..]).as_str());
            }
            1 => {
                // the same sentence twice: two occurrences with the same context
                let t = text.clone();
                text.push(' ');
                text.push_str(&t);
            }
            2 => text = format!("\"{}\" she said.", text),
            3 => {
                text.push_str("\n\n");
                text.push_str(rng.pick(&sents[..]).as_str());
            }
            _ => {}
        }
        let markdown = rng.chance(1, 4);
        let (doc, lints) = lints_of(&mut env, &text, markdown);
        let Some(doc) = doc else { continue };
        if lints.is_empty() {
            sess.count("random:no-lints");
            continue;
        }
        if n < 2 {
            sess.sample(json!({"text": text, "lints": lints.iter().map(|l| format!("{}..{} {}", l.span.start, l.span.end, l.message)).collect::<Vec<_>>()}));
        }
        let ids = random_subset(&mut rng, lints.len());
        let mode = match rng.below(4) {
            0 => Mode::ExportImport,
            1 => Mode::Append(rng.below(ids.len() + 1)),
            _ => Mode::Direct,
        };
        eval(&mut sess, &mut env, &text, markdown, &ids, &mode, None, "random");
        for _ in 0..2 {
            let i = rng.below(lints.len());
            let e = random_edit(&mut rng, &doc, &lints[i], &sents);
            let mode = if rng.chance(1, 4) { Mode::ExportImport } else { Mode::Direct };
            eval(&mut sess, &mut env, &text, markdown, &[i], &mode, Some(&e), "random");
        }
    }
    // the ignore paths of the server and of the JS API (the call sites the property names)
    let mut ok = true;
    for (t, w) in SERVER_TEXTS {
        ok &= eval_server(&mut sess, ctx, t, w).is_ok();
        sess.count("origin:server-session");
    }
    sess.monitor("the in-process language server completed the C14 sessions", ok);
    let njs = if ctx.tier == Tier::Thorough { 300 } else { 40 };
    for (t, _) in SERVER_TEXTS {
        eval_js(&mut sess, t, &[]);
    }
    // the user's own words next to the lints: the document `ignore_lint` hashes must be the one `lint` parses
    // (same dictionary: curated + user), or the stored context never matches
    for t in ["We measured the the florbium sample and found an florbium trace.", "An florbium is here, and a zqxvword apple too.", "The florbium florbium was an zqxvword."] {
        eval_js(&mut sess, t, &["florbium", "zqxvword"]);
        sess.count("origin:js-user-words");
    }
    for _ in 0..njs {
        let mut t = sents[rng.below(sents.len())].clone();
        if rng.chance(1, 2) {
            t.push(' ');
            t.push_str(&sents[rng.below(sents.len())]);
        }
        if t.contains('"') || t.contains('“') || t.contains('”') {
            continue; // c14-quote-twin-loc is recorded on the core path
        }
        eval_js(&mut sess, &t, &[]);
        sess.count("origin:js");
    }
    // w25: the families, edits and call-site variants listed at `w25_streams`
    w25_streams(&mut sess, ctx, &mut env, &mut rng, &sents);
    let nk = env.kinds.len();
    sess.finish(
        "corpus (witness of the recorded finding, the repository's ignore tests); every text of ≤3 (quick) / ≤4 (thorough) pieces over {an, apple, problm, \", ., a} × every single lint ignored, exhaustively; rule-test sentences (all rules on, plain English and Markdown) × random subsets of lints × direct / export-import / append × prepend / append / alter-a-far-word edits; the server's ignore path (codeAction → HarperIgnoreLint → executeCommand through the real Backend: next publication = previous minus exactly that diagnostic, stays hidden on re-send and behind a new first paragraph) and the JS API's (lint / ignore_lint / lint, export → import into a fresh linter). Non-trivial = some lint hidden and some kept, or an edit that leaves the ignored lint's windows untouched; distinct by (text, ignored ids, mode/edit).",
        true,
        json!({"exhaustive_scope": format!("texts of ≤{} pieces over a 6-piece vocabulary × each single lint", maxlen), "distinct_token_kinds_interned": nk}),
    );
}
