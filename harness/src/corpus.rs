//! Vocabulary harvested from the repository's own rule tests and fixtures.
use std::path::Path;
use std::sync::OnceLock;

fn walk(dir: &Path, ext: &[&str], out: &mut Vec<std::path::PathBuf>) {
    if let Ok(rd) = std::fs::read_dir(dir) {
        let mut es: Vec<_> = rd.flatten().map(|e| e.path()).collect();
        es.sort();
        for p in es {
            if p.is_dir() {
                walk(&p, ext, out);
            } else if let Some(e) = p.extension().and_then(|e| e.to_str()) {
                if ext.contains(&e) {
                    out.push(p);
                }
            }
        }
    }
}

/// Rust string literals (with escapes resolved) found in `src`.
pub fn string_literals(src: &str) -> Vec<String> {
    let cs: Vec<char> = src.chars().collect();
    let mut out = vec![];
    let mut i = 0;
    while i < cs.len() {
        if cs[i] == '/' && i + 1 < cs.len() && cs[i + 1] == '/' {
            while i < cs.len() && cs[i] != '\n' {
                i += 1;
            }
            continue;
        }
        if cs[i] == '\'' {
            // char literal or lifetime: skip a short char literal
            if i + 2 < cs.len() && cs[i + 2] == '\'' {
                i += 3;
                continue;
            }
            if i + 3 < cs.len() && cs[i + 1] == '\\' && cs[i + 3] == '\'' {
                i += 4;
                continue;
            }
            i += 1;
            continue;
        }
        if cs[i] == '"' {
            let mut s = String::new();
            i += 1;
            let mut ok = true;
            while i < cs.len() && cs[i] != '"' {
                if cs[i] == '\\' && i + 1 < cs.len() {
                    match cs[i + 1] {
                        'n' => s.push('\n'),
                        't' => s.push('\t'),
                        'r' => s.push('\r'),
                        '"' => s.push('"'),
                        '\\' => s.push('\\'),
                        '\'' => s.push('\''),
                        '\n' => {
                            i += 2;
                            while i < cs.len() && cs[i].is_whitespace() {
                                i += 1;
                            }
                            continue;
                        }
                        _ => ok = false,
                    }
                    i += 2;
                } else {
                    s.push(cs[i]);
                    i += 1;
                }
            }
            i += 1;
            if ok {
                out.push(s);
            }
            continue;
        }
        i += 1;
    }
    out
}

/// Sentences from the rule tests (`harper-core/src/linting/**/*.rs`): literals with ≥ 3 words
/// starting with an upper-case letter or a quote. Sorted and deduplicated (deterministic).
pub fn sentences() -> &'static Vec<String> {
    static S: OnceLock<Vec<String>> = OnceLock::new();
    S.get_or_init(|| {
        let mut files = vec![];
        walk(Path::new("/repo/harper-core/src/linting"), &["rs"], &mut files);
        walk(Path::new("/repo/harper-core/src/patterns"), &["rs"], &mut files);
        let mut out = vec![];
        for f in files {
            if let Ok(src) = std::fs::read_to_string(&f) {
                for s in string_literals(&src) {
                    let words = s.split_whitespace().count();
                    let first = s.chars().next();
                    if words >= 3
                        && s.len() < 400
                        && !s.contains('{')
                        && first.is_some_and(|c| c.is_uppercase() || c == '"' || c.is_ascii_digit())
                    {
                        out.push(s);
                    }
                }
            }
        }
        out.sort();
        out.dedup();
        if out.is_empty() {
            out.push("This is an test of the the harness.".to_string());
            out.push("There are many mistake here, is not it?".to_string());
        }
        out
    })
}

/// Fixture files of the front-end crates: (extension, content).
pub fn fixtures() -> &'static Vec<(String, String)> {
    static S: OnceLock<Vec<(String, String)>> = OnceLock::new();
    S.get_or_init(|| {
        let mut files = vec![];
        for d in [
            "/repo/harper-core/tests",
            "/repo/harper-comments/tests",
            "/repo/harper-html/tests",
            "/repo/harper-typst/tests",
            "/repo/harper-literate-haskell/tests",
        ] {
            walk(Path::new(d), &["md", "rs", "js", "ts", "tsx", "jsx", "c", "cpp", "h", "cs", "go", "java", "lua", "py", "rb", "sh", "swift", "toml", "nix", "php", "dart", "scala", "hs", "cmake", "html", "typ", "lhs", "txt", "kt"], &mut files);
        }
        let mut out = vec![];
        for f in files {
            if let Ok(s) = std::fs::read_to_string(&f) {
                if s.len() < 20000 {
                    out.push((f.extension().unwrap().to_str().unwrap().to_string(), s));
                }
            }
        }
        out
    })
}
