//! The table of document languages, regenerated from the source on every run:
//! ids are harvested from `harper-ls/src/backend.rs:update_document` and
//! `harper-comments/src/comment_parser.rs:new_from_language_id`, so a language added there is
//! exercised without anyone remembering to add it here.
use harper_comments::CommentParser;
use harper_core::parsers::{CollapseIdentifiers, IsolateEnglish, Markdown, MarkdownOptions, Parser, PlainEnglish};
use harper_core::{Dictionary, FstDictionary};
use harper_html::HtmlParser;
use harper_literate_haskell::LiterateHaskellParser;
use harper_typst::Typst;
use std::sync::Arc;

pub fn md_opts(ignore_link_title: bool) -> MarkdownOptions {
    let mut o = MarkdownOptions::default();
    o.ignore_link_title = ignore_link_title;
    o
}

fn quoted_ids(src: &str, from: &str, to: &str) -> Vec<String> {
    let Some(a) = src.find(from) else { return vec![] };
    let rest = &src[a..];
    let b = rest.find(to).unwrap_or(rest.len());
    let body = &rest[..b];
    let mut out = vec![];
    for line in body.lines() {
        // match arms: `"id" | "id2" => …`
        let Some(arrow) = line.find("=>") else { continue };
        let lhs = &line[..arrow];
        let mut i = 0;
        let bs: Vec<char> = lhs.chars().collect();
        while i < bs.len() {
            if bs[i] == '"' {
                let mut j = i + 1;
                let mut s = String::new();
                while j < bs.len() && bs[j] != '"' {
                    s.push(bs[j]);
                    j += 1;
                }
                out.push(s);
                i = j + 1;
            } else {
                i += 1;
            }
        }
    }
    out
}

/// every language id the server knows
pub fn language_ids() -> Vec<String> {
    let mut ids = vec![];
    if let Ok(s) = std::fs::read_to_string("/repo/harper-comments/src/comment_parser.rs") {
        ids.extend(quoted_ids(&s, "pub fn new_from_language_id", "let comment_parser"));
    }
    if let Ok(s) = std::fs::read_to_string("/repo/harper-ls/src/backend.rs") {
        ids.extend(quoted_ids(&s, "let parser: Option<Box<dyn Parser>> = match", "match parser {"));
    }
    if ids.is_empty() {
        ids = ["rust", "markdown", "plaintext", "html", "typst", "lhaskell", "git-commit", "javascript", "java", "go", "python"]
            .iter()
            .map(|s| s.to_string())
            .collect();
    }
    ids.sort();
    ids.dedup();
    ids
}

/// the parser the server would use for `id` (mirrors the dispatch in `update_document`)
pub fn parser_for(id: &str, ignore_link_title: bool) -> Option<Box<dyn Parser>> {
    let o = md_opts(ignore_link_title);
    if let Some(p) = CommentParser::new_from_language_id(id, o) {
        return Some(Box::new(p));
    }
    Some(match id {
        "literate haskell" | "lhaskell" => Box::new(LiterateHaskellParser::new_markdown(o)),
        "markdown" => Box::new(Markdown::new(o)),
        "git-commit" | "gitcommit" => Box::new(crate::git_commit_parser::GitCommitParser::new_markdown(o)),
        "html" => Box::new(HtmlParser::default()),
        "mail" | "plaintext" | "text" => Box::new(PlainEnglish),
        "typst" => Box::new(Typst),
        _ => return None,
    })
}

#[derive(Clone, Copy, PartialEq, Eq, Debug)]
pub enum Wrap {
    None,
    Collapse,
    Isolate,
}

pub fn wrapped(id: &str, ignore_link_title: bool, wrap: Wrap) -> Option<Box<dyn Parser>> {
    let p = parser_for(id, ignore_link_title)?;
    let dict: Arc<dyn Dictionary> = FstDictionary::curated();
    Some(match wrap {
        Wrap::None => p,
        Wrap::Collapse => Box::new(CollapseIdentifiers::new(p, Box::new(dict))),
        Wrap::Isolate => Box::new(IsolateEnglish::new(p, FstDictionary::curated())),
    })
}

/// a short, syntactically plausible way to embed prose in a file of language `id`
pub fn embed(id: &str, prose: &str, style: usize) -> String {
    let lines: Vec<&str> = prose.lines().collect();
    let line = |lead: &str| lines.iter().map(|l| format!("{}{}", lead, l)).collect::<Vec<_>>().join("\n");
    match id {
        "rust" | "dart" => match style % 4 {
            0 => format!("{}\nfn main() {{ let s = \"héllo 😀\"; }}\n", line("// ")),
            1 => format!("/// {}\nfn f() {{}}\n", lines.join("\n/// ")),
            2 => format!("/* {} */\nfn g() {{}}\n", prose),
            _ => format!("fn h() {{}} // {}\n", lines.first().copied().unwrap_or("")),
        },
        "typescript" | "typescriptreact" | "javascript" | "javascriptreact" | "java" | "scala" => match style % 4 {
            0 => format!("{}\nconst s = \"héllo 😀\";\n", line("// ")),
            1 => format!("/**\n{}\n * @param x the {{@link Foo}} thing\n */\nfunction f(x) {{}}\n", line(" * ")),
            2 => format!("/* {} */\nlet y = 1;\n", prose),
            _ => format!("/** {} */\nclass A {{}}\n", prose),
        },
        "c" | "cpp" | "csharp" | "go" | "swift" | "php" => match style % 3 {
            0 => format!("{}{}\nint x = 0;\n", if id == "php" { "<?php\n" } else { "" }, line("// ")),
            1 => format!("{}/* {} */\nint y = 1;\n", if id == "php" { "<?php\n" } else { "" }, prose),
            _ => format!("{}/*\n{}\n */\nint z;\n", if id == "php" { "<?php\n" } else { "" }, line(" * ")),
        },
        "python" | "toml" | "shellscript" | "cmake" | "nix" | "ruby" => match style % 3 {
            0 => format!("{}\nx = \"héllo 😀\"\n", line("# ")),
            1 => format!("#!/bin/sh\n{}\n", line("# ")),
            _ => format!("x = 1 # {}\n", lines.first().copied().unwrap_or("")),
        },
        "lua" | "haskell" => match style % 2 {
            0 => format!("{}\nx = 1\n", line("-- ")),
            _ => format!("{} {} {}\nx = 1\n", if id == "lua" { "--[[" } else { "{-" }, prose, if id == "lua" { "]]" } else { "-}" }),
        },
        "html" => match style % 2 {
            0 => format!("<html><body><p>{}</p><b title=\"é😀\">x</b></body></html>", prose),
            _ => format!("<p>{}", prose),
        },
        "typst" => match style % 3 {
            0 => format!("= Heading\n{}\n#let x = 1\n", prose),
            1 => format!("#set text(lang: \"en\")\n{} $x^2$ `code`\n", prose),
            _ => prose.to_string(),
        },
        "literate haskell" | "lhaskell" => match style % 3 {
            0 => format!("{}\n\n> main = return ()\n\n{}\n", prose, prose),
            1 => format!("{}\n\\begin{{code}}\nmain = 1\n\\end{{code}}\n{}\n", prose, prose),
            _ => prose.to_string(),
        },
        "git-commit" | "gitcommit" => format!("{}\n\n# Please enter the commit message\n# é😀\n", prose),
        "markdown" => match style % 4 {
            0 => format!("# Title\n\n{}\n\n- item `code` [link](http://x.y \"title text\")\n", prose),
            1 => format!("{} **bold** _it_ ![img](a.png)\n\n```\ncode 😀\n```\n", prose),
            2 => format!("| a | b |\n|---|---|\n| {} | x |\n", lines.first().copied().unwrap_or("")),
            _ => prose.to_string(),
        },
        _ => prose.to_string(),
    }
}
