//! The shipped `PatternLinter` rules against `lean/Harper/Model/PatternRules.lean`
//! (called from c01.rs, c03.rs and c12.rs next to leaves.rs).
//!
//! For each of the 28 rules (26 registered with `insert_pattern_rule!`, TheHowWhy and WidelyAccepted with
//! `insert_struct_rule!`) the REAL rule struct is run alone on real documents:
//! K `prulem <Name>`: `rule.pattern().matches(&tokens[i..], source)` for EVERY suffix vs the model's fixed tree;
//! K `prule <Name>`: the lints of the rule (blanket `impl Linter for PatternLinter`) vs the model, lint for lint
//!   (span, message code + argument, suggestions);
//! K `pmtl <Name>`: `rule.match_to_lint(&tokens[i..i+n], source)` on the real matches AND on arbitrary short slices
//!   (where its index expressions may panic): `none` / the lint / `panic`.
//! O: spans in the text, every suggestion applies (`Suggestion::apply` = independent splice), contract
//!   `matches ≤ slice length`, no panic, `lint(P+D) = lint(P) ++ shift(lint(D))` exactly and in order;
//! monitor: the shipped `LintGroup` with only that rule switched on reports exactly what the struct reports.
//! Streams: the rule's own unit-test sentences and the short string literals of its source file (harvested at run
//! time, so a word added to a `WordSet` shows up as vocabulary), in case variants, with blanks doubled / a newline
//! after the blank, in Markdown, in both paragraphs of (P, D) pairs; exhaustive small-scope documents over each
//! rule's harvested trigger words.
use crate::common::*;
use crate::corpus;
use crate::leaves::EnvB;
use crate::tokfmt::*;
use harper_core::linting::{
    BackInTheDay, BoringWords, ChockFull, Confident, Dashes, DespiteOf, DotInitialisms, ExpandTimeShorthands, ForNoun, Hedging, Hereby, HyphenateNumberDay, LeftRightHand, Likewise, Lint,
    LintGroup, LintKind, Linter, MultipleSequentialPronouns, Nobody, OutOfDate, Oxymorons, PatternLinter, PiqueInterest, PossessiveYour, SomewhatSomething, Suggestion, ThatWhich, TheHowWhy,
    ThenThan, UseGenitive, WasAloud, Whereas, WidelyAccepted,
};
use harper_core::parsers::{Markdown, PlainEnglish};
use harper_core::{Dialect, Document, FstDictionary, Span};
use serde_json::{Value, json};
use std::cell::RefCell;
use std::collections::BTreeSet;
use std::sync::Arc;

/// (rule name, source file, message code, lint kind, priority, message with `{}` wildcards (several = alternatives by argument))
pub const RULES: [(&str, &str, u32, LintKind, u8, &[&str]); 28] = [
    ("BackInTheDay", "back_in_the_day.rs", 20, LintKind::WordChoice, 127, &["Use the more idiomatic version of this phrase."]),
    ("Dashes", "dashes.rs", 21, LintKind::Formatting, 63, &["", "", "A sequence of hyphens is not an en dash.", "A sequence of hyphens is not an em dash."]),
    ("OutOfDate", "out_of_date.rs", 22, LintKind::Miscellaneous, 31, &["Did you mean the compound adjective?"]),
    ("ThenThan", "then_than.rs", 23, LintKind::Miscellaneous, 31, &["Did you mean `than`?"]),
    ("PiqueInterest", "pique_interest.rs", 24, LintKind::WordChoice, 31, &["Did you mean `{}` instead of `{}`?"]),
    ("WasAloud", "was_aloud.rs", 25, LintKind::WordChoice, 31, &["Did you mean `{} allowed`?"]),
    ("HyphenateNumberDay", "hyphenate_number_day.rs", 26, LintKind::Miscellaneous, 31, &["Use a hyphen in `{}-day` when forming an adjectival compound."]),
    ("LeftRightHand", "left_right_hand.rs", 27, LintKind::Miscellaneous, 31, &["Use a hyphen in `left-hand` or `right-hand` when modifying a noun."]),
    ("Hereby", "hereby.rs", 28, LintKind::WordChoice, 127, &["Did you mean the closed compound `hereby`?"]),
    ("Likewise", "likewise.rs", 29, LintKind::WordChoice, 127, &["Did you mean the closed compound `likewise`?"]),
    ("Nobody", "nobody.rs", 30, LintKind::WordChoice, 127, &["Did you mean the closed compound `nobody`?"]),
    ("Whereas", "whereas.rs", 31, LintKind::WordChoice, 127, &["`Whereas` is commonly mistaken for `where as`."]),
    ("PossessiveYour", "possessive_your.rs", 32, LintKind::WordChoice, 127, &["The possessive version of this word is more common in this context."]),
    ("MultipleSequentialPronouns", "multiple_sequential_pronouns.rs", 33, LintKind::Repetition, 63, &["There are too many personal pronouns in sequence here."]),
    ("DotInitialisms", "dot_initialisms.rs", 34, LintKind::Formatting, 63, &["Initialisms should have dot-separated letters."]),
    ("BoringWords", "boring_words.rs", 35, LintKind::Enhancement, 127, &["“{}” is a boring word. Try something a little more exotic."]),
    ("UseGenitive", "use_genitive.rs", 36, LintKind::Miscellaneous, 31, &["Use the genitive case."]),
    ("ThatWhich", "that_which.rs", 37, LintKind::Repetition, 126, &["“that that” sometimes means “that which”, which is clearer."]),
    ("SomewhatSomething", "somewhat_something.rs", 38, LintKind::Style, 63, &["Use the traditional form."]),
    ("DespiteOf", "despite_of.rs", 39, LintKind::WordChoice, 126, &["The phrase “despite of” is incorrect. Please use either “despite” or “in spite of” instead."]),
    ("ChockFull", "chock_full.rs", 40, LintKind::WordChoice, 126, &["The standard term is \"chock-full\".", "The standard term is \"chock-full\", and it should be hyphenated."]),
    ("Confident", "confident.rs", 41, LintKind::WordChoice, 127, &["Use the adjective."]),
    ("Oxymorons", "oxymorons.rs", 42, LintKind::Miscellaneous, 31, &["'{}' is an oxymoron."]),
    ("Hedging", "hedging.rs", 43, LintKind::Miscellaneous, 31, &["You're hedging."]),
    ("ExpandTimeShorthands", "expand_time_shorthands.rs", 44, LintKind::WordChoice, 31, &["Did you mean `{}`?"]),
    ("ForNoun", "for_noun.rs", 45, LintKind::WordChoice, 31, &["`For` is more common in this context."]),
    ("TheHowWhy", "the_how_why.rs", 46, LintKind::Miscellaneous, 31, &["Remove `the` before `{}`. In most contexts, `{}` alone is clearer."]),
    (
        "WidelyAccepted",
        "widely_accepted.rs",
        47,
        LintKind::Miscellaneous,
        31,
        &["Use the adverb `widely` in this context. For example, `widely accepted` or `widely used` is standard usage."],
    ),
];

fn dict() -> Arc<FstDictionary> {
    FstDictionary::curated()
}

fn make(name: &str) -> Box<dyn PatternLinter> {
    match name {
        "BackInTheDay" => Box::new(BackInTheDay::default()),
        "Dashes" => Box::new(Dashes::default()),
        "OutOfDate" => Box::new(OutOfDate::default()),
        "ThenThan" => Box::new(ThenThan::default()),
        "PiqueInterest" => Box::new(PiqueInterest::default()),
        "WasAloud" => Box::new(WasAloud::default()),
        "HyphenateNumberDay" => Box::new(HyphenateNumberDay::default()),
        "LeftRightHand" => Box::new(LeftRightHand::default()),
        "Hereby" => Box::new(Hereby::default()),
        "Likewise" => Box::new(Likewise::default()),
        "Nobody" => Box::new(Nobody::default()),
        "Whereas" => Box::new(Whereas::default()),
        "PossessiveYour" => Box::new(PossessiveYour::default()),
        "MultipleSequentialPronouns" => Box::new(MultipleSequentialPronouns::default()),
        "DotInitialisms" => Box::new(DotInitialisms::default()),
        "BoringWords" => Box::new(BoringWords::default()),
        "UseGenitive" => Box::new(UseGenitive::default()),
        "ThatWhich" => Box::new(ThatWhich::default()),
        "SomewhatSomething" => Box::new(SomewhatSomething::default()),
        "DespiteOf" => Box::new(DespiteOf::default()),
        "ChockFull" => Box::new(ChockFull::default()),
        "Confident" => Box::new(Confident::default()),
        "Oxymorons" => Box::new(Oxymorons::default()),
        "Hedging" => Box::new(Hedging::default()),
        "ExpandTimeShorthands" => Box::new(ExpandTimeShorthands::default()),
        "ForNoun" => Box::new(ForNoun::default()),
        "TheHowWhy" => Box::new(TheHowWhy::default()),
        "WidelyAccepted" => Box::new(WidelyAccepted::default()),
        _ => panic!("unknown pattern rule {}", name),
    }
}

thread_local! {
    static REAL: RefCell<Vec<Option<Box<dyn PatternLinter>>>> = RefCell::new((0..RULES.len()).map(|_| None).collect());
    static GROUP: RefCell<Option<LintGroup>> = RefCell::new(None);
}

/// the real rule struct (one instance per thread)
fn with_rule<T>(ri: usize, f: impl FnOnce(&mut Box<dyn PatternLinter>) -> T) -> T {
    REAL.with(|r| {
        let mut r = r.borrow_mut();
        if r[ri].is_none() {
            r[ri] = Some(make(RULES[ri].0));
        }
        f(r[ri].as_mut().unwrap())
    })
}

/// the shipped rule: `LintGroup::new_curated` with only `name` switched on
fn lint_only(name: &str, doc: &Document) -> Vec<Lint> {
    GROUP.with(|g| {
        let mut g = g.borrow_mut();
        if g.is_none() {
            *g = Some(LintGroup::new_curated(dict(), Dialect::American));
        }
        let g = g.as_mut().unwrap();
        g.set_all_rules_to(Some(false));
        g.config.set_rule_enabled(name, true);
        g.lint(doc)
    })
}

/// rule names that are ALSO keys of `phrase_corrections.rs` / `closed_compounds.rs` / `proper_noun_rules.json`: those tables are
/// merged into the group first, so `add_pattern_linter(name, struct)` returns `false` and the struct is never run by the group
fn shadowed() -> &'static BTreeSet<String> {
    static S: std::sync::OnceLock<BTreeSet<String>> = std::sync::OnceLock::new();
    S.get_or_init(|| crate::leaves::harvest_tables().0.into_iter().map(|r| r.name).filter(|n| RULES.iter().any(|r| r.0 == n)).collect())
}

fn cps(cs: &[char]) -> String {
    if cs.is_empty() { "-".to_string() } else { cs.iter().map(|c| (*c as u32).to_string()).collect::<Vec<_>>().join(".") }
}

/// `pat` with `{}` standing for any (possibly empty) text
fn wild_match(pat: &str, s: &str) -> bool {
    let parts: Vec<&str> = pat.split("{}").collect();
    if parts.len() == 1 {
        return pat == s;
    }
    let mut rest = match s.strip_prefix(parts[0]) {
        Some(r) => r,
        None => return false,
    };
    for (i, p) in parts.iter().enumerate().skip(1) {
        if i + 1 == parts.len() {
            return rest.ends_with(p);
        }
        match rest.find(p) {
            Some(k) => rest = &rest[k + p.len()..],
            None => return false,
        }
    }
    true
}

/// message code + argument of the model; lint kind, priority and the message text are part of the code (0 = unknown)
fn msg_code(ri: usize, l: &Lint) -> (u32, u64) {
    let (_, _, code, kind, prio, msgs) = RULES[ri];
    if l.lint_kind != kind || l.priority != prio {
        return (0, 0);
    }
    for (arg, m) in msgs.iter().enumerate() {
        if !m.is_empty() && wild_match(m, &l.message) {
            return (code, arg as u64);
        }
    }
    (0, 0)
}

fn show_lint(ri: usize, l: &Lint) -> String {
    let (code, arg) = msg_code(ri, l);
    let sg = if l.suggestions.is_empty() {
        "-".to_string()
    } else {
        l.suggestions
            .iter()
            .map(|s| match s {
                Suggestion::ReplaceWith(cs) => format!("R{}", cps(cs)),
                Suggestion::Remove => "X".to_string(),
                Suggestion::InsertAfter(cs) => format!("I{}", cps(cs)),
            })
            .collect::<Vec<_>>()
            .join(",")
    };
    format!("{}:{}:{}:{}:{}", l.span.start, l.span.end, code, arg, sg)
}

fn show_lints(ri: usize, ls: &[Lint]) -> String {
    let mut s = String::from("ok");
    for l in ls {
        s.push(' ');
        s.push_str(&show_lint(ri, l));
    }
    s
}

pub struct Out {
    k: Vec<(String, String)>,
    fails: Vec<(String, String, Value)>,
    counts: Vec<String>,
    monitors: Vec<(String, bool)>,
    nontrivial: bool,
    /// words under the real matches (vocabulary for the small scope)
    matched_words: Vec<String>,
}

impl Out {
    fn new() -> Self {
        Out { k: vec![], fails: vec![], counts: vec![], monitors: vec![], nontrivial: false, matched_words: vec![] }
    }
}

fn merge(sess: &mut Session, o: Out, key: &str) {
    let mut case = None;
    for (op, imp) in &o.k {
        case = Some(sess.k(op, imp));
    }
    sess.o();
    for c in &o.counts {
        sess.count(c);
    }
    for (m, held) in &o.monitors {
        sess.monitor(m, *held);
    }
    if o.nontrivial {
        sess.nontrivial(key);
    }
    for (class, desc, input) in o.fails {
        sess.fail(&class, desc, input, case);
    }
}

const FUNCTIONAL: &str = "prules: number display/value and word metadata are functions of the token's text (same text, same data within a document)";
const GROUP_SAME: &str = "prules: the shipped LintGroup with only this rule switched on reports exactly what the rule struct reports (span, suggestions, message, kind, priority)";

fn make_doc(text: &str, md: bool) -> Result<Document, String> {
    guarded(|| if md { Document::new(text, &Markdown::default(), &dict()) } else { Document::new(text, &PlainEnglish, &dict()) })
}

/// the real `Suggestion::apply` against an independent splice
fn apply_ok(src: &[char], span: Span, s: &Suggestion) -> Result<bool, String> {
    let mut got = src.to_vec();
    guarded(|| s.apply(span, &mut got))?;
    let mut want: Vec<char> = src[..span.start].to_vec();
    match s {
        Suggestion::ReplaceWith(cs) => want.extend(cs.iter()),
        Suggestion::Remove => {}
        Suggestion::InsertAfter(cs) => {
            want.extend(src[span.start..span.end].iter());
            want.extend(cs.iter());
        }
    }
    want.extend(src[span.end..].iter());
    Ok(got == want)
}

fn same_lints(a: &[Lint], b: &[Lint]) -> bool {
    a.len() == b.len() && a.iter().zip(b.iter()).all(|(x, y)| x.span == y.span && x.suggestions == y.suggestions && x.message == y.message && x.priority == y.priority && x.lint_kind == y.lint_kind)
}

/// one document × one rule: the three K lines and the oracles
fn eval_doc(ri: usize, text: &str, md: bool, slices: bool, out: &mut Out) {
    let name = RULES[ri].0;
    let Ok(doc) = make_doc(text, md) else {
        out.counts.push("prules:document-panicked(C01's business)".into());
        return;
    };
    let src = doc.get_source();
    let toks = doc.get_tokens();
    let input = json!({"kind": "prule", "rule": name, "text": text, "md": md});
    let mut env = EnvB::new();
    env.add_doc(&doc, false);
    out.monitors.push((FUNCTIONAL.into(), env.functional));
    let tail = format!("{} | {} | {}", chars_field(src), toks_show(toks), env.fields());
    // ---- the pattern on every suffix
    let mut res = String::from("ok");
    let mut found: Vec<(usize, usize)> = vec![];
    for i in 0..=toks.len() {
        match guarded(|| with_rule(ri, |r| r.pattern().matches(&toks[i..], src))) {
            Ok(n) => {
                res.push_str(&format!(" {}", n));
                if n > 0 {
                    out.nontrivial = true;
                    if n <= toks.len() - i {
                        found.push((i, n));
                    }
                }
                if n > toks.len() - i {
                    out.fails.push(("leaf-contract".into(), format!("{}'s pattern returns {} on a slice of {} tokens", name, n, toks.len() - i), input.clone()));
                }
            }
            Err(e) => {
                res.push_str(" p");
                out.nontrivial = true;
                out.fails.push((format!("rule-panic-{}", name), format!("{}'s pattern panics on the suffix at token {}: {}", name, i, e), input.clone()));
            }
        }
    }
    out.k.push((format!("prulem {} | {}", name, tail), res));
    for (i, n) in &found {
        for t in &toks[*i..*i + *n] {
            if t.kind.is_word() && t.span.end <= src.len() && t.span.start <= t.span.end {
                out.matched_words.push(src[t.span.start..t.span.end].iter().collect());
            }
        }
    }
    // ---- the rule alone
    match guarded(|| with_rule(ri, |r| r.lint(&doc))) {
        Ok(ls) => {
            out.k.push((format!("prule {} | {}", name, tail), show_lints(ri, &ls)));
            if !ls.is_empty() {
                out.nontrivial = true;
                out.counts.push(format!("prules:lints:{}", name));
            }
            for l in &ls {
                if !(l.span.start <= l.span.end && l.span.end <= src.len()) {
                    out.fails.push((
                        format!("rule-span-out-of-range-{}", name),
                        format!("{} alone reports span {}..{} on a text of {} characters", name, l.span.start, l.span.end, src.len()),
                        input.clone(),
                    ));
                    continue;
                }
                if msg_code(ri, l).0 == 0 {
                    out.fails.push((format!("rule-message-{}", name), format!("{} reports kind {:?} priority {} message {:?}: not the rule's", name, l.lint_kind, l.priority, l.message), input.clone()));
                }
                for s in &l.suggestions {
                    match apply_ok(src, l.span, s) {
                        Ok(true) => {}
                        Ok(false) => out.fails.push((format!("rule-apply-{}", name), format!("{}: applying {:?} at {:?} is not the splice", name, s, l.span), input.clone())),
                        Err(e) => out.fails.push((format!("rule-apply-{}", name), format!("{}: applying {:?} at {:?} panics: {}", name, s, l.span, e), input.clone())),
                    }
                }
            }
            if shadowed().contains(name) {
                // `add_pattern_linter` refused the struct: a table row of the same name was registered first
                out.counts.push(format!("prules:struct-shadowed-by-a-table-row-of-the-same-name(the shipped group never runs it):{}", name));
            } else {
                let via_group = guarded(|| lint_only(name, &doc));
                out.monitors.push((GROUP_SAME.into(), matches!(&via_group, Ok(g) if same_lints(g, &ls))));
            }
        }
        Err(e) => {
            out.k.push((format!("prule {} | {}", name, tail), "panic".to_string()));
            out.nontrivial = true;
            out.fails.push((format!("rule-panic-{}", name), format!("{} alone panics: {}", name, e), input.clone()));
        }
    }
    // ---- match_to_lint on the real matches and on arbitrary short slices
    if slices || !found.is_empty() {
        let mut sl: Vec<(usize, usize)> = found.clone();
        if slices {
            for i in 0..toks.len().min(5) {
                for n in 0..=(toks.len() - i).min(4) {
                    sl.push((i, n));
                }
            }
            sl.push((toks.len(), 0));
        }
        sl.sort();
        sl.dedup();
        let mut outs: Vec<String> = vec![];
        for (i, n) in &sl {
            let r = guarded(|| with_rule(ri, |r| r.match_to_lint(&toks[*i..*i + *n], src)));
            outs.push(match r {
                Ok(None) => "none".to_string(),
                Ok(Some(l)) => show_lint(ri, &l),
                Err(_) => "panic".to_string(),
            });
        }
        let mut line = String::from("ok");
        for (j, o) in outs.iter().enumerate() {
            if j > 0 {
                line.push_str(" ;");
            }
            line.push(' ');
            line.push_str(o);
        }
        out.k.push((format!("pmtl {} | {} | {} | {} | {}", name, chars_field(src), toks_show(toks), sl.iter().map(|(i, n)| format!("{}:{}", i, n)).collect::<Vec<_>>().join(" "), env.fields()), line));
    }
}

type LKey = (usize, usize, String);

fn lkey(l: &Lint, by: usize) -> LKey {
    (l.span.start + by, l.span.end + by, format!("{:?}|{}|{:?}|{}", l.lint_kind, l.message, l.suggestions, l.priority))
}

/// paragraph locality of one rule on (P, D), exactly and in order
fn eval_pair(ri: usize, p: &str, d: &str, out: &mut Out) {
    let name = RULES[ri].0;
    let whole = format!("{}{}", p, d);
    let plen = p.chars().count();
    let (Ok(dp), Ok(dd), Ok(dw)) = (make_doc(p, false), make_doc(d, false), make_doc(&whole, false)) else { return };
    let run = |doc: &Document| guarded(|| with_rule(ri, |r| r.lint(doc)));
    let (Ok(lp), Ok(ld), Ok(lw)) = (run(&dp), run(&dd), run(&dw)) else {
        return; // reported by eval_doc
    };
    let want: Vec<LKey> = lp.iter().map(|l| lkey(l, 0)).chain(ld.iter().map(|l| lkey(l, plen))).collect();
    let got: Vec<LKey> = lw.iter().map(|l| lkey(l, 0)).collect();
    if !lp.is_empty() && !ld.is_empty() {
        out.counts.push(format!("prules:pair-with-lints-in-both:{}", name));
        out.nontrivial = true;
    }
    if want != got {
        out.fails.push((
            format!("c12-rule-{}", name),
            format!(
                "{} alone: lint(P+D) ≠ lint(P) ++ shift(lint(D)): got {:?}, want {:?}",
                name,
                got.iter().filter(|k| !want.contains(k)).take(3).collect::<Vec<_>>(),
                want.iter().filter(|k| !got.contains(k)).take(3).collect::<Vec<_>>()
            ),
            json!({"kind": "prule-pair", "rule": name, "P": p, "D": d}),
        ));
    }
}

// ------------------------------------------------------------------------------------------------
// harvesting
// ------------------------------------------------------------------------------------------------

pub struct Harvest {
    /// string literals of the test module (the sentences of `assert_lint_count` / `assert_suggestion_result`)
    pub sentences: Vec<String>,
    /// short literals (≤ 5 words) of the rule itself: phrases, `WordSet` entries, trigger words
    pub phrases: Vec<String>,
}

pub fn harvest(file: &str) -> Harvest {
    let src = std::fs::read_to_string(format!("/repo/harper-core/src/linting/{}", file)).unwrap_or_default();
    let (body, tests) = match src.find("#[cfg(test)]") {
        Some(i) => (&src[..i], &src[i..]),
        None => (&src[..], ""),
    };
    let mut sentences: Vec<String> = corpus::string_literals(tests).into_iter().filter(|s| !s.trim().is_empty() && s.len() < 300 && !s.contains('{')).collect();
    let mut seen = BTreeSet::new();
    sentences.retain(|s| seen.insert(s.clone()));
    let mut phrases: Vec<String> = corpus::string_literals(body).into_iter().filter(|s| !s.trim().is_empty() && s.split_whitespace().count() <= 5 && s.len() < 40 && !s.contains('{') && !s.contains('`')).collect();
    let mut seen = BTreeSet::new();
    phrases.retain(|s| seen.insert(s.clone()));
    Harvest { sentences, phrases }
}

fn cap_first(s: &str) -> String {
    let mut cs = s.chars();
    match cs.next() {
        Some(c) => c.to_uppercase().collect::<String>() + cs.as_str(),
        None => String::new(),
    }
}

fn title(s: &str) -> String {
    s.split(' ').map(cap_first).collect::<Vec<_>>().join(" ")
}

fn swap_case(s: &str) -> String {
    s.chars().map(|c| if c.is_uppercase() { c.to_lowercase().next().unwrap_or(c) } else { c.to_uppercase().next().unwrap_or(c) }).collect()
}

/// the `k`-th blank replaced
fn replace_nth_space(s: &str, k: usize, with: &str) -> String {
    let idx: Vec<usize> = s.match_indices(' ').map(|(i, _)| i).collect();
    if idx.is_empty() {
        return s.to_string();
    }
    let i = idx[k % idx.len()];
    format!("{}{}{}", &s[..i], with, &s[i + 1..])
}

/// the texts one sentence is tried in (`full` = every variant)
fn variants(t: &str, full: bool) -> Vec<(String, bool)> {
    let mut v = vec![(t.to_string(), false)];
    if full {
        v.extend([
            (t.to_uppercase(), false),
            (t.to_lowercase(), false),
            (title(t), false),
            (swap_case(t), false),
            (t.replace(' ', "  "), false),
            (replace_nth_space(t, 0, " \n"), false),
            (replace_nth_space(t, 1, "\n"), false),
            (replace_nth_space(t, 2, " \n"), false),
            (replace_nth_space(t, 1, ", "), false),
            (format!("({})", t), false),
            (format!("Ünï {} İ", t), false),
            (format!("# {}\n\n- **{}** and *{}*\n", t, t, t), true),
            (format!("> so {}\n\n[{}](http://x.y) `{}` {}\n", t, t, t, replace_nth_space(t, 0, "\n")), true),
        ]);
    }
    v
}

enum Job {
    Doc(usize, String, bool, bool),
    Pair(usize, String, String),
}

fn run_jobs(sess: &mut Session, jobs: Vec<Job>, origin: &str) -> Vec<Vec<String>> {
    let outs = par_map(jobs.len(), 16, |i| {
        let mut o = Out::new();
        match &jobs[i] {
            Job::Doc(r, text, md, slices) => eval_doc(*r, text, *md, *slices, &mut o),
            Job::Pair(r, p, d) => {
                eval_pair(*r, p, d, &mut o);
                eval_doc(*r, &format!("{}{}", p, d), false, false, &mut o);
            }
        }
        o
    });
    let mut words: Vec<Vec<String>> = (0..RULES.len()).map(|_| vec![]).collect();
    for (i, mut o) in outs.into_iter().enumerate() {
        sess.count(&format!("prules:origin:{}", origin));
        let (ri, key) = match &jobs[i] {
            Job::Doc(r, t, md, _) => (*r, format!("prule\u{0}{}\u{0}{}\u{0}{}", r, t, md)),
            Job::Pair(r, p, d) => (*r, format!("prulepair\u{0}{}\u{0}{}\u{0}{}", r, p, d)),
        };
        words[ri].append(&mut o.matched_words);
        merge(sess, o, &key);
    }
    words
}

pub const RULE: &str = "SHIPPED PatternLinter RULES (model: Harper.PatternRules): BackInTheDay, Dashes, OutOfDate, ThenThan, PiqueInterest, WasAloud, HyphenateNumberDay, LeftRightHand, Hereby, Likewise, Nobody, Whereas, PossessiveYour, MultipleSequentialPronouns, DotInitialisms, BoringWords, UseGenitive, ThatWhich, SomewhatSomething, DespiteOf, ChockFull, Confident, Oxymorons, Hedging, ExpandTimeShorthands, ForNoun, TheHowWhy, WidelyAccepted — per rule the REAL struct alone: pattern().matches on every suffix of the document's tokens (prulem), the rule's lints (prule), match_to_lint on its real matches and on arbitrary slices of ≤4 tokens (pmtl) vs the model's fixed tree and Spec; streams: the rule's own unit-test sentences and the short literals of its source (harvested at run time) plain, upper / lower / title / swapped case, blanks doubled, blank+newline, newline, comma inserted, bracketed, next to non-ASCII, in two Markdown templates, in both paragraphs of (P, D) pairs; EXHAUSTIVE: all documents w₁ s w₂ (s ∈ {blank, two blanks, blank+newline, hyphen, comma+blank}) and w₁ w₂ w₃ over the rule's harvested trigger words, the words under its real matches and {the, 2}. O: spans in the text, Suggestion::apply = splice, message / kind / priority are the rule's, matches ≤ slice length, no panic, lint(P+D) = lint(P) ++ shift(lint(D)) exactly and in order; monitor: the LintGroup with only that rule on reports the same.";

pub fn replay(sess: &mut Session, v: &Value) -> bool {
    let kind = v["kind"].as_str().unwrap_or("");
    let name = v["rule"].as_str().unwrap_or("");
    let Some(ri) = RULES.iter().position(|r| r.0 == name) else { return false };
    match kind {
        "prule" => {
            run_jobs(sess, vec![Job::Doc(ri, v["text"].as_str().unwrap_or("").to_string(), v["md"].as_bool().unwrap_or(false), true)], "replay");
            true
        }
        "prule-pair" => {
            run_jobs(sess, vec![Job::Pair(ri, v["P"].as_str().unwrap_or("").to_string(), v["D"].as_str().unwrap_or("").to_string())], "replay");
            true
        }
        _ => false,
    }
}

fn words_of(s: &str) -> Vec<String> {
    s.split(|c: char| c.is_whitespace()).filter(|w| !w.is_empty()).map(String::from).collect()
}

pub fn run_into(sess: &mut Session, ctx: &Ctx, rng: &mut Rng) {
    let thorough = ctx.tier == Tier::Thorough;
    let deep = ctx.prop == "C01" || thorough;
    {
        let g = LintGroup::new_curated(dict(), Dialect::American);
        let keys: BTreeSet<String> = g.iter_keys().map(String::from).collect();
        for r in RULES.iter() {
            sess.monitor("prules: every modelled rule name is a rule of the shipped LintGroup", keys.contains(r.0));
        }
    }
    let hv: Vec<Harvest> = RULES.iter().map(|r| harvest(r.1)).collect();
    sess.add("prules:test-sentences-harvested", hv.iter().map(|h| h.sentences.len() as u64).sum());
    sess.add("prules:source-literals-harvested", hv.iter().map(|h| h.phrases.len() as u64).sum());
    // ---- 1. the rule's own test sentences and source literals, in variants ----------------------
    let mut jobs = vec![];
    for (ri, h) in hv.iter().enumerate() {
        let nfull = if thorough { h.sentences.len() } else if deep { 8 } else { 4 };
        for (k, t) in h.sentences.iter().enumerate() {
            for (j, (v, md)) in variants(t, k < nfull).into_iter().enumerate() {
                jobs.push(Job::Doc(ri, v, md, j == 0 && k < 6));
            }
        }
        for (k, t) in h.phrases.iter().enumerate() {
            jobs.push(Job::Doc(ri, t.clone(), false, k < 4));
            jobs.push(Job::Doc(ri, format!("We {} now.", t), false, false));
            if deep {
                jobs.push(Job::Doc(ri, format!("{} it", cap_first(t)), false, false));
                jobs.push(Job::Doc(ri, t.to_uppercase(), false, false));
            }
        }
        for t in ["", " ", "a", "--", "---", "----", "-- ---", "2 day", "the the"] {
            jobs.push(Job::Doc(ri, t.to_string(), false, true));
        }
    }
    let words = run_jobs(sess, std::mem::take(&mut jobs), "sentences");
    // ---- 2. (P, D) pairs ------------------------------------------------------------------------
    let seps = ["\n\n", "\n\n\n", " \n\n", "\t\n\n"];
    let reps = if thorough { 12 } else if ctx.prop == "C12" { 6 } else { 2 };
    for (ri, h) in hv.iter().enumerate() {
        if h.sentences.is_empty() {
            continue;
        }
        for k in 0..reps {
            let a = rng.pick(&h.sentences).clone();
            let b = rng.pick(&h.sentences).clone();
            let a = a.trim_end().to_string();
            let p = if a.ends_with(['.', '!', '?']) { format!("{}{}", a, seps[rng.below(seps.len())]) } else { format!("{}.{}", a, seps[rng.below(seps.len())]) };
            if p.contains('"') {
                continue; // a quotation mark in P may pair with one in D (outside the hypotheses of C12)
            }
            let d = match k % 4 {
                0 => b.clone(),
                1 => format!("{} {}", b, a),
                2 => replace_nth_space(&b, k, " \n"),
                _ => format!("so {}", b.to_lowercase()),
            };
            jobs.push(Job::Pair(ri, p, d));
        }
    }
    run_jobs(sess, std::mem::take(&mut jobs), "pairs");
    // ---- 3. exhaustive small scope over each rule's trigger words --------------------------------
    let seps2 = ["  ", " \n", "-", ", "];
    for (ri, h) in hv.iter().enumerate() {
        // the words of the rule's short literals, in source order
        let mut v: Vec<String> = vec![];
        for p in &h.phrases {
            for w in words_of(p) {
                if !v.contains(&w) {
                    v.push(w);
                }
            }
        }
        v.truncate(if thorough { 40 } else { 24 });
        // the most frequent words under the real matches that are not literals of the source (context: nouns, verbs, numbers)
        let mut ctxw: Vec<(usize, String)> = vec![];
        for w in &words[ri] {
            if v.iter().any(|x| x.eq_ignore_ascii_case(w)) {
                continue;
            }
            match ctxw.iter_mut().find(|(_, x)| x == w) {
                Some(e) => e.0 += 1,
                None => ctxw.push((1, w.clone())),
            }
        }
        ctxw.sort_by(|a, b| b.0.cmp(&a.0).then(a.1.cmp(&b.1)));
        let mut small: Vec<String> = v.iter().take(if thorough { 14 } else { 9 }).cloned().collect();
        for (_, w) in ctxw.iter().take(if thorough { 5 } else { 3 }) {
            small.push(w.clone());
            v.push(w.clone());
        }
        for g in ["the", "2"] {
            small.push(g.to_string());
            v.push(g.to_string());
        }
        sess.add("prules:small-scope-vocabulary", v.len() as u64);
        let mut texts: Vec<String> = vec![];
        for a in &v {
            texts.push(a.clone());
            for b in &v {
                texts.push(format!("{} {}", a, b));
            }
        }
        for a in &small {
            for b in &small {
                for s in seps2 {
                    texts.push(format!("{}{}{}", a, s, b));
                }
                for c in &small {
                    texts.push(format!("{} {} {}", a, b, c));
                    if thorough && small.len() <= 10 {
                        for d in &small {
                            texts.push(format!("{} {} {} {}", a, b, c, d));
                        }
                    }
                }
            }
        }
        texts.sort();
        texts.dedup();
        for t in texts {
            jobs.push(Job::Doc(ri, t, false, false));
        }
    }
    run_jobs(sess, std::mem::take(&mut jobs), "small-scope");
}

/// stand-alone entry (`hv PRULES`): the streams of this module only
pub fn run(ctx: &Ctx) {
    let mut sess = Session::new(ctx);
    let mut rng = Rng::new(ctx.seed);
    if let Some(v) = replay_input(ctx) {
        replay(&mut sess, &v);
        sess.nontrivial("replay-a");
        sess.nontrivial("replay-b");
        sess.finish("replay of one recorded pattern-rule input", false, json!({}));
        return;
    }
    let c = Ctx { prop: "C01".to_string(), tier: ctx.tier, seed: ctx.seed, out: ctx.out.clone(), replay: None };
    run_into(&mut sess, &c, &mut rng);
    sess.finish(RULE, true, json!({}));
}
