//! C05 — lint results depend only on text, language, dictionary and configuration.
//! K: histories `setConfig | lint(doc, lang)` on ONE real long-lived `LintGroup` against the
//! model (an LRU keyed by chunk content and configuration) fed with the real per-rule tables.
//! O: the property itself — every lint of the long-lived group equals the lint of a brand-new
//! group with the same configuration, step by step; orders, threads, processes, front-ends.
use crate::common::*;
use crate::lg::*;
use harper_core::linting::{Lint, LintGroup, LintGroupConfig, Linter, SpellCheck};
use harper_core::{Dialect, TokenStringExt};
use serde_json::{Value, json};
use std::collections::{BTreeMap, HashMap};

#[derive(Clone, Debug)]
enum HOp {
    Cfg(CfgMap),
    Lint(String, Lang),
}

fn ops_json(ops: &[HOp]) -> Value {
    Value::Array(
        ops.iter()
            .map(|o| match o {
                HOp::Cfg(c) => json!({"setConfig": c}),
                HOp::Lint(t, l) => json!({"lint": t, "lang": l.name()}),
            })
            .collect(),
    )
}

fn ops_from_json(v: &Value) -> Vec<HOp> {
    v.as_array()
        .map(|a| {
            a.iter()
                .filter_map(|o| {
                    if let Some(c) = o.get("setConfig") {
                        Some(HOp::Cfg(serde_json::from_value(c.clone()).ok()?))
                    } else {
                        Some(HOp::Lint(o.get("lint")?.as_str()?.to_string(), Lang::from_name(o.get("lang").and_then(|l| l.as_str()).unwrap_or("plain"))))
                    }
                })
                .collect()
        })
        .unwrap_or_default()
}

/// What one lint step gave on the long-lived group and on a brand-new one.
struct Step {
    real: Option<Vec<Lint>>,
    fresh: Option<Vec<Lint>>,
}

/// Run a history on ONE long-lived group; every `lint` is also served by a brand-new group with
/// the same configuration. Returns the steps (one per `Lint` op).
fn run_history(dict: &Dict, ops: &[HOp]) -> Vec<Step> {
    let mut g = new_group(dict);
    let mut steps = vec![];
    for o in ops {
        match o {
            HOp::Cfg(c) => g.config = to_real(c),
            HOp::Lint(text, lang) => {
                let doc = make_doc(text, *lang, dict);
                let real = guarded(|| g.lint(&doc)).ok();
                let mut f = new_group(dict);
                f.config = g.config.clone();
                let fresh = guarded(|| f.lint(&doc)).ok();
                steps.push(Step { real, fresh });
            }
        }
    }
    steps
}

/// index (among the lint ops) of the first step whose result differs from fresh
fn first_diff(steps: &[Step]) -> Option<usize> {
    steps.iter().position(|s| s.real != s.fresh)
}

/// greedy delta debugging on ops: drop ops while some step still differs from fresh
fn shrink(dict: &Dict, ops: &[HOp]) -> Vec<HOp> {
    let mut cur = ops.to_vec();
    let mut changed = true;
    let mut budget = 200;
    while changed && budget > 0 {
        changed = false;
        let mut i = 0;
        while i < cur.len() && budget > 0 {
            let mut t = cur.clone();
            t.remove(i);
            budget -= 1;
            if first_diff(&run_history(dict, &t)).is_some() {
                cur = t;
                changed = true;
            } else {
                i += 1;
            }
        }
    }
    cur
}

fn describe_diff(real: &Option<Vec<Lint>>, fresh: &Option<Vec<Lint>>) -> String {
    match (real, fresh) {
        (Some(r), Some(f)) => format!("long-lived group: {} lint(s) {:?}; brand-new group: {} lint(s) {:?}", r.len(), r.iter().map(|l| (l.span.start, l.span.end, l.message.clone())).take(4).collect::<Vec<_>>(), f.len(), f.iter().map(|l| (l.span.start, l.span.end, l.message.clone())).take(4).collect::<Vec<_>>()),
        (None, Some(_)) => "long-lived group panicked, brand-new group did not".into(),
        (Some(_), None) => "brand-new group panicked, long-lived group did not".into(),
        (None, None) => "both panicked".into(),
    }
}

struct HistResult {
    k: Option<(String, String)>,
    fail: Option<(String, String, Value)>,
    lints: usize,
    lint_ops: usize,
    cfg_ops: usize,
    repeats: usize,
    tables_used: Vec<(String, Lang)>,
    mon_attr: Vec<bool>,
    skipped: Option<&'static str>,
    k_dropped: Option<&'static str>,
}

/// O (long-lived vs fresh, step by step) and the K line of one history.
fn eval_history(dict: &Dict, names: &RuleNames, cap: usize, ops: &[HOp], tables: &HashMap<(String, Lang), DocTable>, with_k: bool) -> HistResult {
    let mut res = HistResult { k: None, fail: None, lints: 0, lint_ops: 0, cfg_ops: 0, repeats: 0, tables_used: vec![], mon_attr: vec![], skipped: None, k_dropped: None };
    let steps = run_history(dict, ops);
    if steps.iter().any(|s| s.real.is_none() && s.fresh.is_none()) {
        res.skipped = Some("history:both-panicked(skipped, C01)");
        return res;
    }
    if let Some(i) = first_diff(&steps) {
        let small = shrink(dict, ops);
        let st = run_history(dict, &small);
        let (small, st, j) = match first_diff(&st) {
            Some(j) => (small, st, j),
            None => (ops.to_vec(), steps, i),
        };
        res.fail = Some(("history-dependent".into(), format!("lint #{} of the history differs from a brand-new group: {}", j + 1, describe_diff(&st[j].real, &st[j].fresh)), json!({"kind": "history", "ops": ops_json(&small)})));
        return res;
    }
    // K: the model predicts every lint of the history from the per-rule tables
    let mut line = LgLine::new(cap, names);
    let mut si = 0;
    let mut seen_docs: Vec<(&String, Lang)> = vec![];
    let mut usable = with_k;
    for o in ops {
        match o {
            HOp::Cfg(c) => {
                res.cfg_ops += 1;
                line.cfg(c);
            }
            HOp::Lint(text, lang) => {
                res.lint_ops += 1;
                let real = steps[si].real.as_ref().unwrap();
                si += 1;
                res.lints += real.len();
                if seen_docs.contains(&(text, *lang)) {
                    res.repeats += 1;
                }
                seen_docs.push((text, *lang));
                if usable {
                    match tables.get(&(text.clone(), *lang)) {
                        Some(t) if t.k_usable() => {
                            res.mon_attr.push(true);
                            line.lint(t, real);
                            res.tables_used.push((text.clone(), *lang));
                        }
                        Some(t) => {
                            if !t.panicked && !t.attributed {
                                res.mon_attr.push(false);
                            }
                            res.k_dropped = Some(if t.panicked { "history:no-K-line(a rule panicked alone)" } else if !t.shared_fired.is_empty() { "history:no-K-line(a name shared by both rule maps fires)" } else { "history:no-K-line(attribution)" });
                            usable = false;
                        }
                        None => usable = false,
                    }
                }
            }
        }
    }
    if usable {
        res.k = Some(line.finish());
    }
    res
}

// ---------------------------------------------------------------------------------------------
// generators

const HOT: [&str; 14] = ["SpellCheck", "SentenceCapitalization", "RepeatedWords", "AnA", "LongSentences", "BackInTheDay", "ThenThan", "Spaces", "UnclosedQuotes", "BoringWords", "Matcher", "BatedBreath", "ALot", "LetsConfusion"];

fn all_on(names: &RuleNames) -> CfgMap {
    names.all().into_iter().map(|n| (n, Some(true))).collect()
}

fn gen_cfg(rng: &mut Rng, names: &RuleNames, curated: &CfgMap, all: &[String]) -> CfgMap {
    match rng.below(7) {
        0 => all_on(names),
        1 => curated.clone(),
        2 => {
            // the LS / wasm pattern: a sparse user configuration overlaid on the curated one
            let mut u = CfgMap::new();
            for _ in 0..rng.below(5) {
                u.insert(rng.pick(&HOT).to_string(), Some(rng.chance(1, 2)));
            }
            let mut r = to_real(&u);
            r.fill_with_curated();
            from_real(&r)
        }
        3 => {
            // all on plus an unknown key: a different cache key, the same lints
            let mut m = all_on(names);
            m.insert(format!("Unknown{}", rng.below(3)), Some(rng.chance(1, 2)));
            m
        }
        _ => {
            let mut m = CfgMap::new();
            for h in HOT {
                match rng.below(4) {
                    0 => {}
                    1 => {
                        m.insert(h.to_string(), Some(false));
                    }
                    _ => {
                        m.insert(h.to_string(), Some(true));
                    }
                }
            }
            for _ in 0..rng.below(10) {
                m.entry(rng.pick(all).clone()).or_insert(Some(true));
            }
            m
        }
    }
}

const SHARED: [&str; 16] = [
    "He held his baited **breath** again.",
    "This is an *test* of the the _system_.",
    "Back in the days, we used `code` a lot, and it were a alot worse then.",
    "[Teh link](http://example.com) was here, is not it?",
    "# An heading with an mistake",
    "1. Frist item\n2. Secnod item",
    "Teh cat sat, teh dog ran, and Teh bird flew.",
    "I would of gone, but it were a alot worse then.",
    "However, it were a alot worse then.",
    "* one\n* two of of them",
    "She said \"hello, and then left.",
    "An **apple** a day; an *test* a week.",
    "Their is a `problem`, and their is a problem.",
    "> quoted text with an mistake",
    "mispelled wrods evrywhere, Mispelled Wrods Evrywhere.",
    "The the end.",
];

fn decorate(rng: &mut Rng, s: &str) -> String {
    // wrap a random word in Markdown emphasis: same characters, different tokens per language
    let words: Vec<&str> = s.split(' ').collect();
    if words.len() < 2 {
        return s.to_string();
    }
    let i = rng.below(words.len());
    let mark = *rng.pick(&["**", "_", "`", "*"]);
    words.iter().enumerate().map(|(j, w)| if i == j { format!("{}{}{}", mark, w, mark) } else { w.to_string() }).collect::<Vec<_>>().join(" ")
}

fn gen_text(rng: &mut Rng, sents: &[String], clauses: &[String]) -> String {
    let n = rng.range(1, 3);
    let mut parts: Vec<String> = vec![];
    for _ in 0..n {
        let s = match rng.below(6) {
            0 | 1 => rng.pick(&SHARED).to_string(),
            2 => {
                // the same clause at different offsets
                let pre = *rng.pick(&["Well, ", "As I said before, ", "Yes; ", "", "In the end, it is what it is, and "]);
                format!("{}{}", pre, rng.pick(clauses))
            }
            3 => {
                let base = rng.pick(sents).clone();
                decorate(rng, &base)
            }
            _ => rng.pick(sents).clone(),
        };
        parts.push(s);
    }
    parts.join(*rng.pick(&[" ", "\n\n", " ", "\n"]))
}

fn gen_history(rng: &mut Rng, pool: &[(String, Lang)], names: &RuleNames, curated: &CfgMap, all: &[String]) -> Vec<HOp> {
    let mut ops = vec![HOp::Cfg(gen_cfg(rng, names, curated, all))];
    let n = rng.range(4, 12);
    // a small working set so that documents, chunks and words recur
    let ws: Vec<&(String, Lang)> = (0..rng.range(2, 5)).map(|_| rng.pick(pool)).collect();
    let mut cfgs: Vec<CfgMap> = vec![];
    for _ in 0..n {
        match rng.below(10) {
            0 | 1 => {
                // toggle: a new configuration or back to an earlier one
                let c = if !cfgs.is_empty() && rng.chance(1, 2) { rng.pick(&cfgs).clone() } else { gen_cfg(rng, names, curated, all) };
                cfgs.push(c.clone());
                ops.push(HOp::Cfg(c));
            }
            2 => {
                // the same characters in the other language
                let (t, l) = (*rng.pick(&ws)).clone();
                ops.push(HOp::Lint(t.clone(), l));
                ops.push(HOp::Lint(t, if l == Lang::Plain { Lang::Markdown } else { Lang::Plain }));
            }
            _ => {
                let (t, l) = (*rng.pick(&ws)).clone();
                ops.push(HOp::Lint(t, l));
            }
        }
    }
    ops
}

// ---------------------------------------------------------------------------------------------
// SpellCheck's word cache

fn spell_lints(sc: &mut SpellCheck<Dict>, dict: &Dict, text: &str, lang: Lang) -> Option<Vec<Lint>> {
    let doc = make_doc(text, lang, dict);
    guarded(|| sc.lint(&doc)).ok()
}

/// long-lived `SpellCheck` vs a new one per document; K: the word-cache model on the word sequence
fn spell_history(sess: &mut Session, dict: &Dict, cap: usize, docs: &[(String, Lang)], origin: &str) {
    let mut long = SpellCheck::new(dict.clone(), Dialect::American);
    let mut wid: HashMap<Vec<char>, usize> = HashMap::new();
    let mut pid: HashMap<String, usize> = HashMap::new();
    let mut op = format!("spell {} |", cap);
    let mut imp = String::from("ok");
    let mut flagged = 0;
    for (i, (text, lang)) in docs.iter().enumerate() {
        let a = spell_lints(&mut long, dict, text, *lang);
        let mut f = SpellCheck::new(dict.clone(), Dialect::American);
        let b = spell_lints(&mut f, dict, text, *lang);
        sess.o();
        if a != b {
            sess.fail("spell-history-dependent", format!("SpellCheck lint of document #{} differs from a new SpellCheck: {}", i + 1, describe_diff(&a, &b)), json!({"kind": "spell", "docs": docs[..=i].iter().map(|(t, l)| json!({"lint": t, "lang": l.name()})).collect::<Vec<_>>()}), None);
            return;
        }
        let (Some(a), Some(b)) = (a, b) else { continue };
        // words in order; a word is flagged iff a lint has its span; its `suggest` comes from the NEW checker
        let doc = make_doc(text, *lang, dict);
        let mut bi = 0;
        let mut ai = 0;
        for w in doc.iter_words() {
            let chars = doc.get_span_content(&w.span).to_vec();
            let n = wid.len();
            let id = *wid.entry(chars).or_insert(n);
            let fresh_hit = bi < b.len() && b[bi].span == w.span;
            let sg = if fresh_hit {
                let p = format!("{:?}|{}", b[bi].suggestions, b[bi].message);
                bi += 1;
                let n = pid.len();
                *pid.entry(p).or_insert(n)
            } else {
                0
            };
            op.push_str(&format!(" {}:{}:{}", id, if fresh_hit { 0 } else { 1 }, sg));
            if ai < a.len() && a[ai].span == w.span {
                let p = format!("{:?}|{}", a[ai].suggestions, a[ai].message);
                ai += 1;
                let n = pid.len();
                let s = *pid.entry(p).or_insert(n);
                imp.push_str(&format!(" {}:{}", id, s));
                flagged += 1;
            }
        }
    }
    sess.k(&op, &imp);
    sess.count(&format!("spell:{}", origin));
    sess.add("spell:flagged-words", flagged);
    if flagged > 1 {
        sess.nontrivial(&op);
    }
}

// ---------------------------------------------------------------------------------------------

fn digest(dict: &Dict, docs: &[(String, Lang)], cfg: &CfgMap) -> Vec<String> {
    let mut g = new_group(dict);
    g.config = to_real(cfg);
    docs.iter()
        .map(|(t, l)| {
            let doc = make_doc(t, *l, dict);
            match guarded(|| g.lint(&doc)) {
                Ok(ls) => ls.iter().map(|x| format!("{}:{}:{}", x.span.start, x.span.end, payload(x))).collect::<Vec<_>>().join("\u{1f}"),
                Err(_) => "PANIC".into(),
            }
        })
        .collect()
}

fn process_docs() -> Vec<(String, Lang)> {
    let mut v: Vec<(String, Lang)> = SHARED.iter().map(|s| (s.to_string(), Lang::Markdown)).collect();
    v.extend(SHARED.iter().map(|s| (s.to_string(), Lang::Plain)));
    v
}

/// child mode: print the digests of the fixed document list (one JSON array) and exit
pub fn child() {
    let dict: Dict = harper_core::FstDictionary::curated();
    let names = rule_names(&new_group(&dict));
    let d = digest(&dict, &process_docs(), &all_on(&names));
    println!("{}", serde_json::to_string(&d).unwrap());
}

fn big_doc(n: usize, salt: usize) -> String {
    // n distinct clauses = n distinct chunks
    let mut s = String::new();
    for i in 0..n {
        s.push_str(&format!("{} of of {} is an number, back in the days it were a alot worse then.\n", i + salt, (i + salt) * 7 + 3));
    }
    s.push_str("And that is all.");
    s
}

pub fn run(ctx: &Ctx) {
    if std::env::var_os("HV_C05_CHILD").is_some() {
        child();
        return;
    }
    let mut sess = Session::new(ctx);
    let mut rng = Rng::new(ctx.seed);
    let dict: Dict = harper_core::FstDictionary::curated();
    let names = rule_names(&new_group(&dict));
    let all = names.all();
    let curated = from_real(&LintGroupConfig::new_curated());
    let (cap, cap_ok) = capacity_from_source("/repo/harper-core/src/linting/lint_group.rs");
    let (wcap, wcap_ok) = capacity_from_source("/repo/harper-core/src/linting/spell_check.rs");
    sess.monitor("iter_keys() splits into sorted whole-document rules then sorted pattern rules", names.split_ok);
    let thorough = ctx.tier == Tier::Thorough;

    if let Some(v) = replay_input(ctx) {
        match v["kind"].as_str().unwrap_or("") {
            "spell" => {
                let docs: Vec<(String, Lang)> = ops_from_json(&v["docs"]).into_iter().filter_map(|o| if let HOp::Lint(t, l) = o { Some((t, l)) } else { None }).collect();
                spell_history(&mut sess, &dict, wcap, &docs, "replay");
            }
            _ => {
                let ops = ops_from_json(&v["ops"]);
                let mut tables = HashMap::new();
                for o in &ops {
                    if let HOp::Lint(t, l) = o {
                        tables.entry((t.clone(), *l)).or_insert_with(|| build_table(&dict, &names, t, *l, false));
                    }
                }
                let r = eval_history(&dict, &names, cap, &ops, &tables, true);
                sess.o();
                if let Some((op, imp)) = &r.k {
                    sess.k(op, imp);
                }
                if let Some((c, d, i)) = r.fail {
                    sess.fail(&c, d, i, None);
                }
            }
        }
        sess.nontrivial("replay-a");
        sess.nontrivial("replay-b");
        sess.finish("replay of one recorded history", false, json!({}));
        return;
    }

    // ---- histories: corpus, then random ------------------------------------------------------
    let sents = crate::corpus::sentences();
    let clauses: Vec<String> = vec!["it were a alot worse then.".into(), "back in the days we had an test.".into(), "he held his baited breath.".into(), "teh end is is near.".into()];
    let on = all_on(&names);
    let bb = "He held his baited **breath** again.".to_string();
    let mut histories: Vec<(Vec<HOp>, &'static str)> = vec![
        // the witness of the defect fixed by 131eac6: same characters, plain then Markdown
        (vec![HOp::Cfg(on.clone()), HOp::Lint(bb.clone(), Lang::Plain), HOp::Lint(bb.clone(), Lang::Markdown)], "corpus"),
        (vec![HOp::Cfg(on.clone()), HOp::Lint(bb.clone(), Lang::Markdown), HOp::Lint(bb.clone(), Lang::Plain), HOp::Lint(bb.clone(), Lang::Markdown)], "corpus"),
        (vec![HOp::Cfg(curated.clone()), HOp::Lint(bb.clone(), Lang::Plain), HOp::Lint(bb.clone(), Lang::Markdown)], "corpus"),
        // SpellCheck's word cache: the same misspelling in different cases
        (vec![HOp::Cfg(on.clone()), HOp::Lint("Teh cat.".into(), Lang::Plain), HOp::Lint("I saw teh cat.".into(), Lang::Plain), HOp::Lint("Teh cat.".into(), Lang::Plain), HOp::Lint("TEH cat, teh cat.".into(), Lang::Plain)], "corpus"),
        // the same clause at different offsets, configuration toggled in between
        (vec![
            HOp::Cfg(on.clone()),
            HOp::Lint("However, it were a alot worse then.".into(), Lang::Plain),
            HOp::Cfg([("ALot".to_string(), Some(false)), ("SpellCheck".to_string(), Some(true))].into_iter().collect()),
            HOp::Lint("I would of gone, but it were a alot worse then.".into(), Lang::Plain),
            HOp::Cfg(on.clone()),
            HOp::Lint("I would of gone, but it were a alot worse then.".into(), Lang::Plain),
            HOp::Lint("However, it were a alot worse then.".into(), Lang::Markdown),
        ], "corpus"),
        // an unknown key changes the cache key, not the result
        (vec![HOp::Cfg(on.clone()), HOp::Lint(SHARED[2].into(), Lang::Plain), HOp::Cfg({ let mut m = on.clone(); m.insert("NoSuchRule".into(), Some(true)); m }), HOp::Lint(SHARED[2].into(), Lang::Plain)], "corpus"),
    ];
    // exactly ONE rule toggled between two lints of the same text (a cache key that ignores part of
    // the configuration survives histories that always flip several rules at once)
    for (text, rule) in [
        ("We had to change tact after the meeting.", "ChangeTack"),
        ("However, it were a alot worse then.", "ALot"),
        ("I could of gone there.", "ModalOf"),
        ("He held his baited breath again.", "BaitedBreath"),
        ("I was stuck there for along time.", "ForALongTime"),
        ("This is an test of the the thing.", "RepeatedWords"),
        ("This is an test of the the thing.", "AnA"),
        ("I think teh cat is here.", "SpellCheck"),
    ] {
        let mut off = on.clone();
        off.insert(rule.to_string(), Some(false));
        for lang in [Lang::Plain, Lang::Markdown] {
            histories.push((vec![
                HOp::Cfg(on.clone()), HOp::Lint(text.into(), lang), HOp::Cfg(off.clone()), HOp::Lint(text.into(), lang),
                HOp::Cfg(on.clone()), HOp::Lint(text.into(), lang), HOp::Cfg(off.clone()), HOp::Lint(format!("Well then. {}", text), lang),
            ], "corpus"));
        }
    }
    let npool = if thorough { 1500 } else { 300 };
    let mut pool: Vec<(String, Lang)> = vec![];
    for s in SHARED {
        pool.push((s.to_string(), Lang::Plain));
        pool.push((s.to_string(), Lang::Markdown));
    }
    while pool.len() < npool {
        let t = gen_text(&mut rng, sents, &clauses);
        let l = if rng.chance(1, 2) { Lang::Markdown } else { Lang::Plain };
        pool.push((t, l));
    }
    let nhist = if thorough { 5000 } else { 1000 };
    for _ in 0..nhist {
        histories.push((gen_history(&mut rng, &pool, &names, &curated, &all), "random"));
    }
    // per-rule tables (every rule ALONE) of every document that occurs in a history
    let mut wanted: Vec<(String, Lang)> = vec![];
    {
        let mut seen = std::collections::HashSet::new();
        for (h, _) in &histories {
            for o in h {
                if let HOp::Lint(t, l) = o {
                    if seen.insert((t.clone(), *l)) {
                        wanted.push((t.clone(), *l));
                    }
                }
            }
        }
    }
    let built = par_map(wanted.len(), 16, |i| build_table(&dict, &names, &wanted[i].0, wanted[i].1, false));
    let mut hloc = HLoc::default();
    let mut tables: HashMap<(String, Lang), DocTable> = HashMap::new();
    for (k, t) in wanted.into_iter().zip(built) {
        if !t.panicked && t.attributed {
            let bad = hloc.add(&t);
            sess.monitor("H_loc: a pattern rule's lints relative to the chunk start depend only on the chunk's characters and relative tokens", bad.is_empty());
            if let Some(b) = bad.first() {
                sess.sample(json!({"H_loc violation": b}));
            }
        }
        tables.insert(k, t);
    }
    let results = par_map(histories.len(), 16, |i| eval_history(&dict, &names, cap, &histories[i].0, &tables, true));
    for (r, (_, origin)) in results.into_iter().zip(histories.iter()) {
        sess.o();
        sess.count(&format!("history:{}", origin));
        if let Some(s) = r.skipped {
            sess.count(s);
            continue;
        }
        for ok in &r.mon_attr {
            sess.monitor("pattern-lint-starts-inside-one-chunk-in-order", *ok);
        }
        if let Some(k) = r.k_dropped {
            sess.count(k);
        }
        let mut case = None;
        if let Some((op, imp)) = &r.k {
            case = Some(sess.k(op, imp));
            if r.lints > 0 && (r.repeats > 0 || r.cfg_ops > 1) {
                sess.nontrivial(op);
            }
        }
        sess.add("history:lint-ops", r.lint_ops as u64);
        sess.add("history:config-ops", r.cfg_ops as u64);
        sess.add("history:repeated-documents", r.repeats as u64);
        sess.add("history:lints", r.lints as u64);
        if let Some((c, d, i)) = r.fail {
            sess.fail(&c, d, i, case);
        }
    }
    sess.add("hloc:chunk-contents-checked", hloc.checked);
    sess.add("hloc:chunk-contents-seen-again", hloc.repeated);

    // ---- capacity pressure: more distinct chunks than the cache holds -------------------------
    // (many documents of 200 clauses: building ONE document of 10^4 sentences is quadratic)
    {
        let per = 200;
        let ndocs = (cap + cap / 20) / per + 1;
        let small = "However, it were a alot worse then. He held his baited breath, and back in the days we had an test.".to_string();
        let cfg: CfgMap = HOT.iter().map(|h| (h.to_string(), Some(true))).chain([("AnA".to_string(), Some(true)), ("RepeatedWords".to_string(), Some(true))]).collect();
        let mut ops = vec![HOp::Cfg(cfg.clone()), HOp::Lint(small.clone(), Lang::Plain)];
        for d in 0..ndocs {
            ops.push(HOp::Lint(big_doc(per, d * per), Lang::Plain));
        }
        ops.push(HOp::Lint(small.clone(), Lang::Plain)); // evicted: recomputed
        ops.push(HOp::Lint(big_doc(per, 0), Lang::Plain)); // evicted as well
        ops.push(HOp::Lint(big_doc(per, (ndocs - 1) * per), Lang::Plain)); // still cached
        ops.push(HOp::Lint(big_doc(per, per / 2), Lang::Plain)); // half cached, half not: hits and misses interleaved at capacity
        ops.push(HOp::Lint(small.clone(), Lang::Markdown));
        let t0 = std::time::Instant::now();
        // tables only for the rules the configuration enables (the others contribute nothing)
        let sub = RuleNames { doc: names.doc.iter().filter(|n| cfg.contains_key(*n)).cloned().collect(), pat: names.pat.iter().filter(|n| cfg.contains_key(*n)).cloned().collect(), split_ok: true };
        let with_k = true;
        let mut tabs = HashMap::new();
        if with_k {
            let docs: Vec<(String, Lang)> = ops.iter().filter_map(|o| if let HOp::Lint(t, l) = o { Some((t.clone(), *l)) } else { None }).collect();
            let built = par_map(docs.len(), 16, |i| build_table(&dict, &sub, &docs[i].0, docs[i].1, false));
            for (k, t) in docs.into_iter().zip(built) {
                tabs.insert(k, t);
            }
        }
        let r = eval_history(&dict, &sub, cap, &ops, &tabs, with_k);
        sess.o();
        sess.count("history:capacity-pressure");
        sess.add("capacity:distinct-chunks", (ndocs * (per + 1)) as u64);
        sess.add("capacity:lints", r.lints as u64);
        let mut case = None;
        if let Some((op, imp)) = &r.k {
            case = Some(sess.k(op, imp));
            sess.nontrivial("capacity-pressure");
        }
        if let Some((c, d, i)) = r.fail {
            sess.fail(&c, d, i, case);
        }
        sess.add("capacity:ms", t0.elapsed().as_millis() as u64);
    }

    // ---- SpellCheck's word cache ------------------------------------------------------------
    {
        let mut docs: Vec<(String, Lang)> = vec![
            ("Teh cat.".into(), Lang::Plain),
            ("teh cat, Teh cat, TEH cat.".into(), Lang::Plain),
            ("Teh cat.".into(), Lang::Markdown),
            ("mispelled wrods evrywhere, Mispelled Wrods Evrywhere.".into(), Lang::Plain),
            ("mispelled Wrods evrywhere.".into(), Lang::Plain),
        ];
        spell_history(&mut sess, &dict, wcap, &docs, "corpus");
        let nsp = if thorough { 40 } else { 8 };
        for _ in 0..nsp {
            docs.clear();
            for _ in 0..rng.range(3, 7) {
                let (t, l) = rng.pick(&pool).clone();
                // misspell: swap two letters of some words, vary the case
                let mut words: Vec<String> = t.split(' ').map(|w| w.to_string()).collect();
                for w in words.iter_mut() {
                    if w.len() > 3 && w.is_ascii() && rng.chance(1, 5) {
                        let mut cs: Vec<char> = w.chars().collect();
                        cs.swap(1, 2);
                        if rng.chance(1, 3) {
                            cs[0] = cs[0].to_ascii_uppercase();
                        }
                        *w = cs.into_iter().collect();
                    }
                }
                docs.push((words.join(" "), l));
                if rng.chance(1, 3) {
                    docs.push(docs[rng.below(docs.len())].clone());
                }
            }
            spell_history(&mut sess, &dict, wcap, &docs, "random");
        }
        if thorough {
            // more distinct misspelt words than the word cache holds, then the first ones again
            let t0 = std::time::Instant::now();
            let nw = wcap + 50;
            let per = 200;
            let mut docs: Vec<(String, Lang)> = vec![("Teh frist wrod.".into(), Lang::Plain)];
            let mut i = 0;
            while i < nw {
                let mut s = String::new();
                for j in i..(i + per).min(nw) {
                    let mut n = j;
                    let mut w = String::from("qz");
                    loop {
                        w.push((b'a' + (n % 26) as u8) as char);
                        n /= 26;
                        if n == 0 {
                            break;
                        }
                    }
                    w.push_str("xq");
                    s.push_str(&w);
                    s.push(' ');
                }
                s.push('.');
                docs.push((s, Lang::Plain));
                i += per;
            }
            docs.push(("Teh frist wrod.".into(), Lang::Plain));
            docs.push(docs[1].clone());
            let cut = docs.len();
            // long-lived vs new, O only for the bulk (the K line would be dominated by it)
            let mut long = SpellCheck::new(dict.clone(), Dialect::American);
            let firsts: Vec<Option<Vec<Lint>>> = par_map(cut, 16, |i| {
                let mut f = SpellCheck::new(dict.clone(), Dialect::American);
                spell_lints(&mut f, &dict, &docs[i].0, docs[i].1)
            });
            for (i, (t, l)) in docs.iter().enumerate() {
                let a = spell_lints(&mut long, &dict, t, *l);
                sess.o();
                if a != firsts[i] {
                    sess.fail("spell-history-dependent", format!("after {} distinct misspelt words, SpellCheck lint of document #{} differs from a new SpellCheck", nw, i + 1), json!({"kind": "spell-capacity", "words": nw, "doc": i}), None);
                    break;
                }
            }
            sess.add("spell:capacity-ms", t0.elapsed().as_millis() as u64);
            sess.add("spell:capacity-distinct-words", nw as u64);
        }
    }

    // ---- threads: per-thread groups, different orders, vs one thread ---------------------------
    {
        let nd = if thorough { 200 } else { 60 };
        let docs: Vec<(String, Lang)> = (0..nd).map(|i| pool[i % pool.len()].clone()).collect();
        let cfg = all_on(&names);
        let base = digest(&dict, &docs, &cfg);
        let per_thread: Vec<Vec<(usize, String)>> = par_map(8, 8, |t| {
            // rotated and (odd threads) reversed order, each document twice
            let mut order: Vec<usize> = (0..docs.len()).map(|i| (i + t * 7) % docs.len()).collect();
            if t % 2 == 1 {
                order.reverse();
            }
            let mut twice = order.clone();
            twice.extend(order.iter().cloned());
            let ds: Vec<(String, Lang)> = twice.iter().map(|i| docs[*i].clone()).collect();
            let got = digest(&dict, &ds, &cfg);
            twice.into_iter().zip(got).collect()
        });
        for (t, res) in per_thread.iter().enumerate() {
            for (i, d) in res {
                sess.o();
                if *d != base[*i] {
                    sess.fail("thread-or-order-dependent", format!("thread {} (its own group, another order) got different lints for document {}", t, i), json!({"kind": "history", "ops": ops_json(&[HOp::Cfg(cfg.clone()), HOp::Lint(docs[*i].0.clone(), docs[*i].1)]), "note": "differs only in a multi-document, multi-thread run"}), None);
                    break;
                }
            }
        }
        sess.count("threads:8x-per-thread-groups");
    }

    // ---- the JS-facing linter: one instance serves both languages -------------------------------
    {
        let texts: Vec<&str> = SHARED.iter().cloned().take(if thorough { 16 } else { 6 }).collect();
        let r = guarded(|| {
            let mut long = harper_wasm::Linter::new(harper_wasm::Dialect::American);
            let mut bad = None;
            for t in &texts {
                for lang in [harper_wasm::Language::Plain, harper_wasm::Language::Markdown, harper_wasm::Language::Plain] {
                    let a: Vec<String> = long.lint(t.to_string(), lang).iter().map(|l| l.to_json()).collect();
                    let mut f = harper_wasm::Linter::new(harper_wasm::Dialect::American);
                    let b: Vec<String> = f.lint(t.to_string(), lang).iter().map(|l| l.to_json()).collect();
                    if a != b && bad.is_none() {
                        bad = Some((t.to_string(), format!("{:?}", lang), a.len(), b.len()));
                    }
                }
            }
            bad
        });
        sess.o();
        sess.count("wasm-linter:long-lived-vs-new");
        match r {
            Ok(None) => {}
            Ok(Some((t, lang, a, b))) => sess.fail("wasm-history-dependent", format!("harper_wasm::Linter: {} lints from the long-lived instance, {} from a new one ({})", a, b, lang), json!({"kind": "wasm", "text": t, "lang": lang}), None),
            Err(e) => sess.sample(json!({"wasm linter unavailable natively": e})),
        }
    }

    // ---- the same with EXPLICIT user configurations (the per-lint overlay of the curated defaults
    //      must leave the user's configuration as it was), and harper-ls's DocumentState, whose
    //      generate_diagnostics / generate_code_actions do the same overlay --------------------------
    {
        let texts: Vec<&str> = SHARED.iter().cloned().take(if thorough { 12 } else { 5 }).collect();
        let cfgs = [r#"{"SpellCheck": false, "SentenceCapitalization": false}"#, r#"{"SpelledNumbers": true, "BoringWords": true, "AnA": false}"#, r#"{"SpellCheck": null, "RepeatedWords": false, "NoSuchRule": true}"#];
        for cfg in cfgs {
            let r = guarded(|| {
                let mut long = harper_wasm::Linter::new(harper_wasm::Dialect::American);
                long.set_lint_config_from_json(cfg.to_string()).ok()?;
                for (i, t) in texts.iter().enumerate() {
                    for lang in [harper_wasm::Language::Plain, harper_wasm::Language::Markdown] {
                        let a: Vec<String> = long.lint(t.to_string(), lang).iter().map(|l| l.to_json()).collect();
                        let mut f = harper_wasm::Linter::new(harper_wasm::Dialect::American);
                        f.set_lint_config_from_json(cfg.to_string()).ok()?;
                        let b: Vec<String> = f.lint(t.to_string(), lang).iter().map(|l| l.to_json()).collect();
                        if a != b {
                            return Some((t.to_string(), format!("{:?}", lang), i, a.len(), b.len()));
                        }
                    }
                }
                None
            });
            sess.o();
            sess.count("wasm-linter:configured:long-lived-vs-new");
            match r {
                Ok(None) => {}
                Ok(Some((t, lang, i, a, b))) => sess.fail("wasm-history-dependent", format!("harper_wasm::Linter configured with {}: document #{} gets {} lints from the long-lived instance, {} from a new one with the same configuration ({})", cfg, i, a, b, lang), json!({"kind": "wasm", "text": t, "lang": lang, "config": cfg}), None),
                Err(e) => sess.sample(json!({"wasm linter unavailable natively": e})),
            }
            // harper-ls: one DocumentState, diagnostics / code actions / diagnostics …
            let r = guarded(|| {
                use crate::config::{CodeActionConfig, Config, DiagnosticSeverity};
                use crate::document_state::DocumentState;
                use tower_lsp::lsp_types::{Position, Range, Url};
                let lcfg: harper_core::linting::LintGroupConfig = serde_json::from_str(cfg).ok()?;
                let _ = Config::default();
                let mk = |t: &str| {
                    let linter = harper_core::linting::LintGroup::new_curated(dict.clone(), Dialect::American).with_lint_config(lcfg.clone());
                    DocumentState { linter, document: harper_core::Document::new_plain_english(t, &*dict), url: Url::parse("file:///c05.txt").unwrap(), ..Default::default() }
                };
                let mut long = mk(texts[0]);
                for (i, t) in texts.iter().enumerate() {
                    long.document = harper_core::Document::new_plain_english(t, &*dict);
                    let a = serde_json::to_string(&long.generate_diagnostics(DiagnosticSeverity::Hint)).ok()?;
                    let b = serde_json::to_string(&mk(t).generate_diagnostics(DiagnosticSeverity::Hint)).ok()?;
                    if a != b {
                        return Some((t.to_string(), i, "diagnostics"));
                    }
                    let req = Range { start: Position { line: 0, character: 3 }, end: Position { line: 0, character: 4 } };
                    let _ = long.generate_code_actions(req, &CodeActionConfig::default());
                    let a2 = serde_json::to_string(&long.generate_diagnostics(DiagnosticSeverity::Hint)).ok()?;
                    if a2 != b {
                        return Some((t.to_string(), i, "diagnostics after a code-action request"));
                    }
                }
                None
            });
            sess.o();
            sess.count("ls-document-state:configured:long-lived-vs-new");
            match r {
                Ok(None) => {}
                Ok(Some((t, i, what))) => sess.fail("ls-history-dependent", format!("harper-ls DocumentState configured with {}: document #{}: {} differ from those of a new DocumentState with the same configuration", cfg, i, what), json!({"kind": "ls", "text": t, "config": cfg}), None),
                Err(e) => sess.sample(json!({"DocumentState stream failed": e})),
            }
        }
    }

    // ---- processes: a second process lints the same documents ----------------------------------
    {
        let docs = process_docs();
        let mine = digest(&dict, &docs, &all_on(&names));
        let exe = std::env::current_exe().ok();
        let out = exe.and_then(|e| std::process::Command::new(e).arg("C05").env("HV_C05_CHILD", "1").output().ok());
        match out.and_then(|o| serde_json::from_slice::<Vec<String>>(&o.stdout).ok()) {
            Some(theirs) => {
                sess.count("processes:child-compared");
                for (i, (a, b)) in mine.iter().zip(theirs.iter()).enumerate() {
                    sess.o();
                    if a != b {
                        sess.fail("process-dependent", format!("another process got different lints for document {:?}", docs[i].0), json!({"kind": "history", "ops": ops_json(&[HOp::Cfg(all_on(&names)), HOp::Lint(docs[i].0.clone(), docs[i].1)]), "note": "differs between two processes"}), None);
                        break;
                    }
                }
            }
            None => sess.count("processes:child-unavailable"),
        }
    }

    sess.finish(
        "corpus histories (same characters plain then Markdown and back; Teh/teh/TEH; one clause at different offsets with configuration toggles; unknown keys); random histories of 5–14 ops over a working set of 2–5 documents (rule-test sentences, Markdown-decorated copies, shared clauses; plain and Markdown), every lint compared with a brand-new group and predicted by the model from per-rule tables; capacity pressure (cap+5% distinct chunks); SpellCheck's word cache (long-lived vs new, K on the word sequence); 8 threads with per-thread groups in different orders; harper_wasm::Linter long-lived vs new, also under three explicit user configurations; harper-ls DocumentState (diagnostics / code actions / diagnostics) long-lived vs new under the same configurations; a second process. Non-trivial = a history with lints and a repeated document or ≥2 configuration ops.",
        false,
        json!({"chunk_cache_capacity": cap, "chunk_cache_capacity_from_source": cap_ok, "word_cache_capacity": wcap, "word_cache_capacity_from_source": wcap_ok, "rules": all.len()}),
    );
}
