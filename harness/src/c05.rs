//! C05 — lint results depend only on text, language, dictionary and configuration.
//! K: histories `setConfig | lint(doc, lang)` on ONE real long-lived `LintGroup` against the
//! model (an LRU keyed by chunk content and configuration) fed with the real per-rule tables.
//! O: the property itself — every lint of the long-lived group equals the lint of a brand-new
//! group with the same configuration, step by step; orders, threads, processes, front-ends.
use crate::common::*;
use crate::lg::*;
use harper_core::linting::{Lint, LintGroup, LintGroupConfig, Linter, SpellCheck};
use harper_core::{Dialect, TokenStringExt};
use serde_json::{Value, json};
use std::collections::{BTreeMap, HashMap};

#[derive(Clone, Debug)]
enum HOp {
    Cfg(CfgMap),
    Lint(String, Lang),
}

fn ops_json(ops: &[HOp]) -> Value {
    Value::Array(
        ops.iter()
            .map(|o| match o {
                HOp::Cfg(c) => json!({"setConfig": c}),
                HOp::Lint(t, l) => json!({"lint": t, "lang": l.name()}),
            })
            .collect(),
    )
}

fn ops_from_json(v: &Value) -> Vec<HOp> {
    v.as_array()
        .map(|a| {
            a.iter()
                .filter_map(|o| {
                    if let Some(c) = o.get("setConfig") {
                        Some(HOp::Cfg(serde_json::from_value(c.clone()).ok()?))
                    } else {
                        Some(HOp::Lint(o.get("lint")?.as_str()?.to_string(), Lang::from_name(o.get("lang").and_then(|l| l.as_str()).unwrap_or("plain"))))
                    }
                })
                .collect()
        })
        .unwrap_or_default()
}

/// What one lint step gave on the long-lived group and on a brand-new one.
struct Step {
    real: Option<Vec<Lint>>,
    fresh: Option<Vec<Lint>>,
}

/// Run a history on ONE long-lived group; every `lint` is also served by a brand-new group with
/// the same configuration. Returns the steps (one per `Lint` op).
fn run_history(dict: &Dict, ops: &[HOp]) -> Vec<Step> {
    let mut g = new_group(dict);
    let mut steps = vec![];
    for o in ops {
        match o {
            HOp::Cfg(c) => g.config = to_real(c),
            HOp::Lint(text, lang) => {
                let doc = make_doc(text, *lang, dict);
                let real = guarded(|| g.lint(&doc)).ok();
                let mut f = new_group(dict);
                f.config = g.config.clone();
                let fresh = guarded(|| f.lint(&doc)).ok();
                steps.push(Step { real, fresh });
            }
        }
    }
    steps
}

/// index (among the lint ops) of the first step whose result differs from fresh
fn first_diff(steps: &[Step]) -> Option<usize> {
    steps.iter().position(|s| s.real != s.fresh)
}

/// greedy delta debugging on ops: drop ops while some step still differs from fresh
fn shrink(dict: &Dict, ops: &[HOp]) -> Vec<HOp> {
    let mut cur = ops.to_vec();
    let mut changed = true;
    let mut budget = 200;
    while changed && budget > 0 {
        changed = false;
        let mut i = 0;
        while i < cur.len() && budget > 0 {
            let mut t = cur.clone();
            t.remove(i);
            budget -= 1;
            if first_diff(&run_history(dict, &t)).is_some() {
                cur = t;
                changed = true;
            } else {
                i += 1;
            }
        }
    }
    cur
}

fn describe_diff(real: &Option<Vec<Lint>>, fresh: &Option<Vec<Lint>>) -> String {
    match (real, fresh) {
        (Some(r), Some(f)) => format!("long-lived group: {} lint(s) {:?}; brand-new group: {} lint(s) {:?}", r.len(), r.iter().map(|l| (l.span.start, l.span.end, l.message.clone())).take(4).collect::<Vec<_>>(), f.len(), f.iter().map(|l| (l.span.start, l.span.end, l.message.clone())).take(4).collect::<Vec<_>>()),
        (None, Some(_)) => "long-lived group panicked, brand-new group did not".into(),
        (Some(_), None) => "brand-new group panicked, long-lived group did not".into(),
        (None, None) => "both panicked".into(),
    }
}

struct HistResult {
    k: Option<(String, String)>,
    fail: Option<(String, String, Value)>,
    lints: usize,
    lint_ops: usize,
    cfg_ops: usize,
    repeats: usize,
    tables_used: Vec<(String, Lang)>,
    mon_attr: Vec<bool>,
    skipped: Option<&'static str>,
    k_dropped: Option<&'static str>,
}

/// O (long-lived vs fresh, step by step) and the K line of one history.
fn eval_history(dict: &Dict, names: &RuleNames, cap: usize, ops: &[HOp], tables: &HashMap<(String, Lang), DocTable>, with_k: bool) -> HistResult {
    let mut res = HistResult { k: None, fail: None, lints: 0, lint_ops: 0, cfg_ops: 0, repeats: 0, tables_used: vec![], mon_attr: vec![], skipped: None, k_dropped: None };
    let steps = run_history(dict, ops);
    if steps.iter().any(|s| s.real.is_none() && s.fresh.is_none()) {
        res.skipped = Some("history:both-panicked(skipped, C01)");
        return res;
    }
    if let Some(i) = first_diff(&steps) {
        let small = shrink(dict, ops);
        let st = run_history(dict, &small);
        let (small, st, j) = match first_diff(&st) {
            Some(j) => (small, st, j),
            None => (ops.to_vec(), steps, i),
        };
        res.fail = Some(("history-dependent".into(), format!("lint #{} of the history differs from a brand-new group: {}", j + 1, describe_diff(&st[j].real, &st[j].fresh)), json!({"kind": "history", "ops": ops_json(&small)})));
        return res;
    }
    // K: the model predicts every lint of the history from the per-rule tables
    let mut line = LgLine::new(cap, names);
    let mut si = 0;
    let mut seen_docs: Vec<(&String, Lang)> = vec![];
    let mut usable = with_k;
    for o in ops {
        match o {
            HOp::Cfg(c) => {
                res.cfg_ops += 1;
                line.cfg(c);
            }
            HOp::Lint(text, lang) => {
                res.lint_ops += 1;
                let real = steps[si].real.as_ref().unwrap();
                si += 1;
                res.lints += real.len();
                if seen_docs.contains(&(text, *lang)) {
                    res.repeats += 1;
                }
                seen_docs.push((text, *lang));
                if usable {
                    match tables.get(&(text.clone(), *lang)) {
                        Some(t) if t.k_usable() => {
                            res.mon_attr.push(true);
                            line.lint(t, real);
                            res.tables_used.push((text.clone(), *lang));
                        }
                        Some(t) => {
                            if !t.panicked && !t.attributed {
                                res.mon_attr.push(false);
                            }
                            res.k_dropped = Some(if t.panicked { "history:no-K-line(a rule panicked alone)" } else if !t.shared_fired.is_empty() { "history:no-K-line(a name shared by both rule maps fires)" } else { "history:no-K-line(attribution)" });
                            usable = false;
                        }
                        None => usable = false,
                    }
                }
            }
        }
    }
    if usable {
        res.k = Some(line.finish());
    }
    res
}

// ---------------------------------------------------------------------------------------------
// generators

const HOT: [&str; 14] = ["SpellCheck", "SentenceCapitalization", "RepeatedWords", "AnA", "LongSentences", "BackInTheDay", "ThenThan", "Spaces", "UnclosedQuotes", "BoringWords", "Matcher", "BatedBreath", "ALot", "LetsConfusion"];

fn all_on(names: &RuleNames) -> CfgMap {
    names.all().into_iter().map(|n| (n, Some(true))).collect()
}

fn gen_cfg(rng: &mut Rng, names: &RuleNames, curated: &CfgMap, all: &[String]) -> CfgMap {
    match rng.below(7) {
        0 => all_on(names),
        1 => curated.clone(),
        2 => {
            // the LS / wasm pattern: a sparse user configuration overlaid on the curated one
            let mut u = CfgMap::new();
            for _ in 0..rng.below(5) {
                u.insert(rng.pick(&HOT).to_string(), Some(rng.chance(1, 2)));
            }
            let mut r = to_real(&u);
            r.fill_with_curated();
            from_real(&r)
        }
        3 => {
            // all on plus an unknown key: a different cache key, the same lints
            let mut m = all_on(names);
            m.insert(format!("Unknown{}", rng.below(3)), Some(rng.chance(1, 2)));
            m
        }
        _ => {
            let mut m = CfgMap::new();
            for h in HOT {
                match rng.below(4) {
                    0 => {}
                    1 => {
                        m.insert(h.to_string(), Some(false));
                    }
                    _ => {
                        m.insert(h.to_string(), Some(true));
                    }
                }
            }
            for _ in 0..rng.below(10) {
                m.entry(rng.pick(all).clone()).or_insert(Some(true));
            }
            m
        }
    }
}

const SHARED: [&str; 16] = [
    "He held his baited **breath** again.",
    "This is an *test* of the the _system_.",
    "Back in the days, we used `code` a lot, and it were a alot worse then.",
    "[Teh link](http://example.com) was here, is not it?",
    "# An heading with an mistake",
    "1. Frist item\n2. Secnod item",
    "Teh cat sat, teh dog ran, and Teh bird flew.",
    "I would of gone, but it were a alot worse then.",
    "However, it were a alot worse then.",
    "* one\n* two of of them",
    "She said \"hello, and then left.",
    "An **apple** a day; an *test* a week.",
    "Their is a `problem`, and their is a problem.",
    "> quoted text with an mistake",
    "mispelled wrods evrywhere, Mispelled Wrods Evrywhere.",
    "The the end.",
];

fn decorate(rng: &mut Rng, s: &str) -> String {
    // wrap a random word in Markdown emphasis: same characters, different tokens per language
    let words: Vec<&str> = s.split(' ').collect();
    if words.len() < 2 {
        return s.to_string();
    }
    let i = rng.below(words.len());
    let mark = *rng.pick(&["**", "_", "`", "*"]);
    words.iter().enumerate().map(|(j, w)| if i == j { format!("{}{}{}", mark, w, mark) } else { w.to_string() }).collect::<Vec<_>>().join(" ")
}

fn gen_text(rng: &mut Rng, sents: &[String], clauses: &[String]) -> String {
    let n = rng.range(1, 3);
    let mut parts: Vec<String> = vec![];
    for _ in 0..n {
        let s = match rng.below(6) {
            0 | 1 => rng.pick(&SHARED).to_string(),
            2 => {
                // the same clause at different offsets
                let pre = *rng.pick(&["Well, ", "As I said before, ", "Yes; ", "", "In the end, it is what it is, and "]);
                format!("{}{}", pre, rng.pick(clauses))
            }
            3 => {
                let base = rng.pick(sents).clone();
                decorate(rng, &base)
            }
            _ => rng.pick(sents).clone(),
        };
        parts.push(s);
    }
    parts.join(*rng.pick(&[" ", "\n\n", " ", "\n"]))
}

fn gen_history(rng: &mut Rng, pool: &[(String, Lang)], names: &RuleNames, curated: &CfgMap, all: &[String]) -> Vec<HOp> {
    let mut ops = vec![HOp::Cfg(gen_cfg(rng, names, curated, all))];
    let n = rng.range(4, 12);
    // a small working set so that documents, chunks and words recur
    let ws: Vec<&(String, Lang)> = (0..rng.range(2, 5)).map(|_| rng.pick(pool)).collect();
    let mut cfgs: Vec<CfgMap> = vec![];
    for _ in 0..n {
        match rng.below(10) {
            0 | 1 => {
                // toggle: a new configuration or back to an earlier one
                let c = if !cfgs.is_empty() && rng.chance(1, 2) { rng.pick(&cfgs).clone() } else { gen_cfg(rng, names, curated, all) };
                cfgs.push(c.clone());
                ops.push(HOp::Cfg(c));
            }
            2 => {
                // the same characters in the other language
                let (t, l) = (*rng.pick(&ws)).clone();
                ops.push(HOp::Lint(t.clone(), l));
                ops.push(HOp::Lint(t, if l == Lang::Plain { Lang::Markdown } else { Lang::Plain }));
            }
            _ => {
                let (t, l) = (*rng.pick(&ws)).clone();
                ops.push(HOp::Lint(t, l));
            }
        }
    }
    ops
}

// ---------------------------------------------------------------------------------------------
// SpellCheck's word cache

fn spell_lints(sc: &mut SpellCheck<Dict>, dict: &Dict, text: &str, lang: Lang) -> Option<Vec<Lint>> {
    let doc = make_doc(text, lang, dict);
    guarded(|| sc.lint(&doc)).ok()
}

/// long-lived `SpellCheck` vs a new one per document; K: the word-cache model on the word sequence
fn spell_history(sess: &mut Session, dict: &Dict, cap: usize, docs: &[(String, Lang)], origin: &str) {
    let mut long = SpellCheck::new(dict.clone(), Dialect::American);
    let mut wid: HashMap<Vec<char>, usize> = HashMap::new();
    let mut pid: HashMap<String, usize> = HashMap::new();
    let mut op = format!("spell {} |", cap);
    let mut imp = String::from("ok");
    let mut flagged = 0;
    for (i, (text, lang)) in docs.iter().enumerate() {
        let a = spell_lints(&mut long, dict, text, *lang);
        let mut f = SpellCheck::new(dict.clone(), Dialect::American);
        let b = spell_lints(&mut f, dict, text, *lang);
        sess.o();
        if a != b {
            sess.fail("spell-history-dependent", format!("SpellCheck lint of document #{} differs from a new SpellCheck: {}", i + 1, describe_diff(&a, &b)), json!({"kind": "spell", "docs": docs[..=i].iter().map(|(t, l)| json!({"lint": t, "lang": l.name()})).collect::<Vec<_>>()}), None);
            return;
        }
        let (Some(a), Some(b)) = (a, b) else { continue };
        // words in order; a word is flagged iff a lint has its span; its `suggest` comes from the NEW checker
        let doc = make_doc(text, *lang, dict);
        let mut bi = 0;
        let mut ai = 0;
        for w in doc.iter_words() {
            let chars = doc.get_span_content(&w.span).to_vec();
            let n = wid.len();
            let id = *wid.entry(chars).or_insert(n);
            let fresh_hit = bi < b.len() && b[bi].span == w.span;
            let sg = if fresh_hit {
                let p = format!("{:?}|{}", b[bi].suggestions, b[bi].message);
                bi += 1;
                let n = pid.len();
                *pid.entry(p).or_insert(n)
            } else {
                0
            };
            op.push_str(&format!(" {}:{}:{}", id, if fresh_hit { 0 } else { 1 }, sg));
            if ai < a.len() && a[ai].span == w.span {
                let p = format!("{:?}|{}", a[ai].suggestions, a[ai].message);
                ai += 1;
                let n = pid.len();
                let s = *pid.entry(p).or_insert(n);
                imp.push_str(&format!(" {}:{}", id, s));
                flagged += 1;
            }
        }
    }
    sess.k(&op, &imp);
    sess.count(&format!("spell:{}", origin));
    sess.add("spell:flagged-words", flagged);
    if flagged > 1 {
        sess.nontrivial(&op);
    }
}

// ---------------------------------------------------------------------------------------------

fn digest(dict: &Dict, docs: &[(String, Lang)], cfg: &CfgMap) -> Vec<String> {
    let mut g = new_group(dict);
    g.config = to_real(cfg);
    docs.iter()
        .map(|(t, l)| {
            let doc = make_doc(t, *l, dict);
            match guarded(|| g.lint(&doc)) {
                Ok(ls) => ls.iter().map(|x| format!("{}:{}:{}", x.span.start, x.span.end, payload(x))).collect::<Vec<_>>().join("\u{1f}"),
                Err(_) => "PANIC".into(),
            }
        })
        .collect()
}

fn process_docs() -> Vec<(String, Lang)> {
    // w25: first a capitalised misspelling, then gibberish (forces the distance back-off), then both:
    // a process whose main thread has a past must agree with one that starts here
    let mut v: Vec<(String, Lang)> = vec![
        ("Tommorow is here. Reccomend it to them. Libary books are here.".to_string(), Lang::Plain),
        ("The qzxjkvwqp is here, and the zzkqjxvw too.".to_string(), Lang::Plain),
        ("Tommorow the qzxjkvwqp is here. Reccomend it to them.".to_string(), Lang::Markdown),
    ];
    v.extend(SHARED.iter().map(|s| (s.to_string(), Lang::Markdown)));
    v.extend(SHARED.iter().map(|s| (s.to_string(), Lang::Plain)));
    v
}

/// child mode: print the digests of the fixed document list (one JSON array) and exit
pub fn child() {
    let dict: Dict = harper_core::FstDictionary::curated();
    let names = rule_names(&new_group(&dict));
    if std::env::var("HV_C05_CHILD").ok().as_deref() == Some("2") {
        // w25: this process did OTHER work first (a British group over a merged dictionary, the
        // documents in reverse order, then an American group in reverse order): whatever is
        // memoised per process (lazy statics, #[cached], thread-locals of the main thread) is warm
        // with other content when the digests are taken
        let docs = process_docs();
        let rev: Vec<(String, Lang)> = docs.iter().rev().cloned().collect();
        let words: Vec<String> = USER_WORDS.iter().map(|s| s.to_string()).collect();
        let ops: Vec<XOp> = std::iter::once(XOp::Cfg(all_on(&names))).chain(rev.iter().map(|(t, l)| XOp::Lint(t.clone(), if *l == Lang::Markdown { "markdown".into() } else { "plaintext".into() }))).collect();
        let _ = run_xhistory(Dialect::British, &words, &ops);
        let mut d = digest(&dict, &rev, &all_on(&names));
        d.reverse();
        println!("{}", serde_json::to_string(&d).unwrap());
        return;
    }
    let d = digest(&dict, &process_docs(), &all_on(&names));
    println!("{}", serde_json::to_string(&d).unwrap());
}

fn big_doc(n: usize, salt: usize) -> String {
    // n distinct clauses = n distinct chunks
    let mut s = String::new();
    for i in 0..n {
        s.push_str(&format!("{} of of {} is an number, back in the days it were a alot worse then.\n", i + salt, (i + salt) * 7 + 3));
    }
    s.push_str("And that is all.");
    s
}

// =============================================================================================
// w25 — oracle-only streams through call sites, configurations and input families that the
// streams above do not reach (notes/asbuilt_w25_C05.md): every dialect, a merged dictionary with
// user words, every document language of the server (comments, HTML, Typst, literate Haskell,
// commit messages), non-ASCII / CRLF / empty / very long / repetitive texts, misspellings whose
// near matches belong to another dialect; the JS linter across `import_words` (which rebuilds its
// LintGroup); a group moved between threads; the real `Backend` with several documents open at
// once; a second process that did other work first.

use harper_core::{CharString, Dictionary, Document, FstDictionary, MergedDictionary, MutableDictionary, WordMetadata};
use std::sync::Arc;

pub const DIALECTS: [(Dialect, &str); 4] = [(Dialect::American, "American"), (Dialect::British, "British"), (Dialect::Canadian, "Canadian"), (Dialect::Australian, "Australian")];

pub fn dialect_of(name: &str) -> Dialect {
    DIALECTS.iter().find(|d| d.1 == name).map(|d| d.0).unwrap_or(Dialect::American)
}

pub fn dialect_name(d: Dialect) -> &'static str {
    DIALECTS.iter().find(|x| x.0 == d).map(|x| x.1).unwrap_or("American")
}

/// curated dictionary + the user's words (what harper-ls, harper-cli and the JS linter lint with)
pub fn user_merged(words: &[String]) -> Arc<MergedDictionary> {
    let mut user = MutableDictionary::new();
    user.extend_words(words.iter().map(|w| (w.chars().collect::<CharString>(), WordMetadata::default())));
    let mut m = MergedDictionary::new();
    m.add_dictionary(FstDictionary::curated());
    m.add_dictionary(Arc::new(user));
    Arc::new(m)
}

#[derive(Clone, Debug)]
enum XOp {
    Cfg(CfgMap),
    /// text, language id of the server's table
    Lint(String, String),
}

fn xops_json(ops: &[XOp]) -> Value {
    Value::Array(
        ops.iter()
            .map(|o| match o {
                XOp::Cfg(c) => json!({"setConfig": c}),
                XOp::Lint(t, l) => json!({"lint": t, "lang": l}),
            })
            .collect(),
    )
}

fn xops_from_json(v: &Value) -> Vec<XOp> {
    v.as_array()
        .map(|a| {
            a.iter()
                .filter_map(|o| {
                    if let Some(c) = o.get("setConfig") {
                        Some(XOp::Cfg(serde_json::from_value(c.clone()).ok()?))
                    } else {
                        Some(XOp::Lint(o.get("lint")?.as_str()?.to_string(), o.get("lang").and_then(|l| l.as_str()).unwrap_or("plaintext").to_string()))
                    }
                })
                .collect()
        })
        .unwrap_or_default()
}

/// `None`: no document (unknown language id, or the front-end panicked — C01/C04's business)
type XStep = Option<(Option<Vec<Lint>>, Option<Vec<Lint>>)>;

fn run_xhistory_on<D: Dictionary + 'static>(dict: &Arc<D>, dialect: Dialect, ops: &[XOp]) -> Vec<XStep> {
    let mut g = LintGroup::new_curated(dict.clone(), dialect);
    let mut steps = vec![];
    for o in ops {
        match o {
            XOp::Cfg(c) => g.config = to_real(c),
            XOp::Lint(text, id) => {
                let doc = crate::frontends::parser_for(id, false).and_then(|p| guarded(|| Document::new(text, &p, &**dict)).ok());
                let Some(doc) = doc else {
                    steps.push(None);
                    continue;
                };
                let real = guarded(|| g.lint(&doc)).ok();
                let mut f = LintGroup::new_curated(dict.clone(), dialect);
                f.config = g.config.clone();
                let fresh = guarded(|| f.lint(&doc)).ok();
                steps.push(Some((real, fresh)));
            }
        }
    }
    steps
}

/// One long-lived group of `dialect` over curated (+ user words, merged) against a brand-new one.
fn run_xhistory(dialect: Dialect, words: &[String], ops: &[XOp]) -> Vec<XStep> {
    if words.is_empty() { run_xhistory_on(&FstDictionary::curated(), dialect, ops) } else { run_xhistory_on(&user_merged(words), dialect, ops) }
}

fn x_first_diff(steps: &[XStep]) -> Option<usize> {
    steps.iter().position(|s| matches!(s, Some((a, b)) if a != b))
}

fn x_shrink(dialect: Dialect, words: &[String], ops: &[XOp]) -> Vec<XOp> {
    let mut cur = ops.to_vec();
    let mut changed = true;
    let mut budget = 120;
    while changed && budget > 0 {
        changed = false;
        let mut i = 0;
        while i < cur.len() && budget > 0 {
            let mut t = cur.clone();
            t.remove(i);
            budget -= 1;
            if x_first_diff(&run_xhistory(dialect, words, &t)).is_some() {
                cur = t;
                changed = true;
            } else {
                i += 1;
            }
        }
    }
    cur
}

struct XResult {
    fail: Option<(String, String, Value)>,
    lint_ops: usize,
    no_doc: usize,
    lints: usize,
    repeats: usize,
}

fn eval_xhistory(dialect: Dialect, words: &[String], ops: &[XOp]) -> XResult {
    let mut res = XResult { fail: None, lint_ops: 0, no_doc: 0, lints: 0, repeats: 0 };
    let steps = run_xhistory(dialect, words, ops);
    if let Some(i) = x_first_diff(&steps) {
        let small = x_shrink(dialect, words, ops);
        let st = run_xhistory(dialect, words, &small);
        let (small, st, j) = match x_first_diff(&st) {
            Some(j) => (small, st, j),
            None => (ops.to_vec(), steps, i),
        };
        let (a, b) = st[j].clone().unwrap();
        let lang = small.iter().filter_map(|o| if let XOp::Lint(_, l) = o { Some(l.clone()) } else { None }).nth(j).unwrap_or_default();
        res.fail = Some((
            "ext-history-dependent".into(),
            format!("dialect {}, user words {:?}: lint #{} of the history (language {}) differs from a brand-new group: {}", dialect_name(dialect), words, j + 1, lang, describe_diff(&a, &b)),
            json!({"kind": "ext", "dialect": dialect_name(dialect), "words": words, "ops": xops_json(&small)}),
        ));
        return res;
    }
    let mut seen: Vec<(&String, &String)> = vec![];
    let mut si = 0;
    for o in ops {
        if let XOp::Lint(t, l) = o {
            res.lint_ops += 1;
            match &steps[si] {
                None => res.no_doc += 1,
                Some((a, _)) => res.lints += a.as_ref().map(|a| a.len()).unwrap_or(0),
            }
            si += 1;
            if seen.contains(&(t, l)) {
                res.repeats += 1;
            }
            seen.push((t, l));
        }
    }
    res
}

/// prose families the generators above do not write (tag, prose)
pub fn family_texts(thorough: bool) -> Vec<(&'static str, String)> {
    let mut v: Vec<(&'static str, String)> = vec![
        // misspellings whose near matches are words of ONE dialect (kilometer / kilometre …): the
        // suggestions go through the dialect filter, and through the word cache the second time
        ("dialect-near-miss", "The town is one kilometr away.".into()),
        ("dialect-near-miss", "One kilometr here and another kilometr there, Kilometr after kilometr.".into()),
        ("dialect-near-miss", "The colr of the centr theatr was grey, and the flavr of the harbr was a honr.".into()),
        ("dialect-near-miss", "We realise that the neighbour's favourite colour is gray; we realize the neighbor's favorite color is grey.".into()),
        ("dialect-near-miss", "He analysd the defenc of the travelr with a litr of alumium.".into()),
        ("non-ascii", "Teh café was naïve — “teh” résumé and teh straße, señor.".into()),
        ("astral", "Teh 😀 cat 👩‍👩‍👧 sat on teh mat 𝒳, and it were a alot worse then 🎉.".into()),
        ("combining", "Tehe\u{301} cat is an e\u{301}le\u{301}phant, an hour ago it were a alot worse then.".into()),
        ("fullwidth", "Ｔｅｈ ｃａｔ is an test． Teh ＣＡＴ　is an test.".into()),
        ("crlf", "Teh cat.\r\nTeh dog is an test.\r\n\r\nAn test of the the thing.\r\n".into()),
        ("lone-cr", "Teh cat.\rTeh dog is an test.\rthe the end".into()),
        ("empty", String::new()),
        ("whitespace-only", "  \n\t \r\n ".into()),
        ("whitespace-only", "\n".into()),
        ("long-word", format!("{} is an test of teh {}.", "a".repeat(300), "supercalifragilistic".repeat(12))),
        ("same-clause-many-times", "it were a alot worse then. ".repeat(12)),
        ("same-word-many-times", "teh Teh TEH ".repeat(14) + "."),
        ("user-word-variants", "A tset, a Tset, a TSET and tset's; wrods and Wrods at o'clockish, O'Clockish; TEH teh Teh.".into()),
        ("user-word-variants", "The tset was a tset of wrods. The tset was a tset of wrods.".into()),
        // a word with nothing within distance 3 makes SpellCheck back off to larger distances (other
        // automaton builders on that thread); capitalised misspellings go through the exact-case and
        // the lower-case automaton
        ("gibberish", "The qzxjkvwqp is here, and the zzkqjxvw too.".into()),
        ("capitalised-misspelling", "Tommorow is here. Reccomend it to them. Libary books are here.".into()),
        ("gibberish+capitalised-misspelling", "Tommorow the qzxjkvwqp is here. Reccomend it to them.".into()),
    ];
    if thorough {
        v.push(("long-document", SHARED.iter().cycle().take(160).cloned().collect::<Vec<_>>().join(" ")));
        v.push(("long-document", SHARED.iter().cycle().take(120).cloned().collect::<Vec<_>>().join("\n\n")));
    } else {
        v.push(("long-document", SHARED.iter().cycle().take(40).cloned().collect::<Vec<_>>().join(" ")));
    }
    v
}

pub const XLANGS: [&str; 14] = ["plaintext", "markdown", "html", "typst", "rust", "python", "javascript", "lhaskell", "git-commit", "go", "lua", "java", "c", "shellscript"];
pub const USER_WORDS: [&str; 6] = ["tset", "Wrods", "o'clockish", "naïveté", "TEH", "alumium"];

fn gen_xhistory(rng: &mut Rng, fams: &[(&'static str, String)], langs: &[String], names: &RuleNames, curated: &CfgMap, all: &[String], tags: &mut Vec<String>) -> Vec<XOp> {
    let mut ops = vec![XOp::Cfg(gen_cfg(rng, names, curated, all))];
    // a small working set of (prose, language) so that documents, chunks and words recur
    let mut ws: Vec<(String, String, String)> = vec![];
    for _ in 0..rng.range(2, 4) {
        let (tag, prose) = if rng.chance(3, 4) { rng.pick(fams).clone() } else { ("shared", rng.pick(&SHARED).to_string()) };
        let id = if rng.chance(1, 4) { "plaintext".to_string() } else { rng.pick(langs).clone() };
        tags.push(format!("ext:family:{}", tag));
        tags.push(format!("ext:lang:{}", id));
        ws.push((prose.clone(), id.clone(), crate::frontends::embed(&id, &prose, rng.below(4))));
    }
    let mut cfgs: Vec<CfgMap> = vec![];
    for _ in 0..rng.range(4, 8) {
        match rng.below(10) {
            0 | 1 => {
                let c = if !cfgs.is_empty() && rng.chance(1, 2) { rng.pick(&cfgs).clone() } else { gen_cfg(rng, names, curated, all) };
                cfgs.push(c.clone());
                ops.push(XOp::Cfg(c));
            }
            2 | 3 => {
                // the same prose in another language of the server's table
                let (prose, id, text) = rng.pick(&ws).clone();
                let other = rng.pick(langs).clone();
                ops.push(XOp::Lint(text, id));
                tags.push(format!("ext:lang:{}", other));
                ops.push(XOp::Lint(crate::frontends::embed(&other, &prose, rng.below(4)), other));
            }
            _ => {
                let (_, id, text) = rng.pick(&ws).clone();
                ops.push(XOp::Lint(text, id));
            }
        }
    }
    // the first document once more at the end: everything else lies between its two lints
    let (_, id, text) = ws[0].clone();
    ops.push(XOp::Lint(text, id));
    ops
}

/// all dialects × {curated, curated + user words}: long-lived group vs brand-new, step by step
fn ext_histories(sess: &mut Session, rng: &mut Rng, names: &RuleNames, curated: &CfgMap, all: &[String], thorough: bool) {
    let fams = family_texts(thorough);
    let langs: Vec<String> = XLANGS.iter().filter(|id| crate::frontends::parser_for(id, false).is_some()).map(|s| s.to_string()).collect();
    let words: Vec<String> = USER_WORDS.iter().map(|s| s.to_string()).collect();
    let on = all_on(names);
    let mut jobs: Vec<(Dialect, Vec<String>, Vec<XOp>, Vec<String>)> = vec![];
    for (d, _) in DIALECTS {
        for w in [vec![], words.clone()] {
            // corpus: every family once per setup, twice in a row, plain text, all rules on and curated
            // (three histories per setup, so that they run side by side)
            for part in 0..3 {
                let mut ops = vec![XOp::Cfg(on.clone())];
                let mut tags = vec![];
                let mine: Vec<&(&'static str, String)> = fams.iter().enumerate().filter(|(i, _)| i % 3 == part).map(|(_, f)| f).collect();
                for (i, (tag, prose)) in mine.iter().enumerate() {
                    tags.push(format!("ext:family:{}", tag));
                    ops.push(XOp::Lint(prose.clone(), "plaintext".into()));
                    if i % 3 == 2 {
                        ops.push(XOp::Cfg(if i % 2 == 0 { curated.clone() } else { on.clone() }));
                    }
                }
                for (_, prose) in mine.iter() {
                    ops.push(XOp::Lint(prose.clone(), "plaintext".into()));
                }
                jobs.push((d, w.clone(), ops, tags));
            }
            for _ in 0..(if thorough { 40 } else { 5 }) {
                let mut tags = vec![];
                let ops = gen_xhistory(rng, &fams, &langs, names, curated, all, &mut tags);
                jobs.push((d, w.clone(), ops, tags));
            }
        }
    }
    let results = par_map(jobs.len(), 16, |i| eval_xhistory(jobs[i].0, &jobs[i].1, &jobs[i].2));
    for (r, (d, w, ops, tags)) in results.into_iter().zip(jobs.iter()) {
        sess.o();
        sess.count(&format!("ext:dialect:{}", dialect_name(*d)));
        sess.count(if w.is_empty() { "ext:dictionary:curated" } else { "ext:dictionary:merged-with-user-words" });
        for t in tags {
            sess.count(t);
        }
        sess.add("ext:lint-ops", r.lint_ops as u64);
        sess.add("ext:lint-ops-without-document(front-end panicked)", r.no_doc as u64);
        sess.add("ext:lints", r.lints as u64);
        sess.add("ext:repeated-documents", r.repeats as u64);
        if r.lints > 0 && r.repeats > 0 {
            sess.nontrivial(&format!("ext|{}|{}|{}", dialect_name(*d), w.len(), xops_json(ops)));
        }
        if let Some((c, desc, i)) = r.fail {
            sess.fail(&c, desc, i, None);
        }
    }
}

// ---- the JS linter across import_words (synchronize_lint_dict rebuilds the LintGroup) -------------

#[derive(Clone, Debug)]
pub enum WOp {
    Lint(String, bool),
    Import(Vec<String>),
    SetCfg(String),
}

fn wops_json(ops: &[WOp]) -> Value {
    Value::Array(
        ops.iter()
            .map(|o| match o {
                WOp::Lint(t, md) => json!({"lint": t, "lang": if *md { "markdown" } else { "plain" }}),
                WOp::Import(w) => json!({"importWords": w}),
                WOp::SetCfg(c) => json!({"setConfig": c}),
            })
            .collect(),
    )
}

fn wops_from_json(v: &Value) -> Vec<WOp> {
    v.as_array()
        .map(|a| {
            a.iter()
                .filter_map(|o| {
                    if let Some(w) = o.get("importWords") {
                        Some(WOp::Import(serde_json::from_value(w.clone()).ok()?))
                    } else if let Some(c) = o.get("setConfig") {
                        Some(WOp::SetCfg(c.as_str()?.to_string()))
                    } else {
                        Some(WOp::Lint(o.get("lint")?.as_str()?.to_string(), o.get("lang").and_then(|l| l.as_str()) == Some("markdown")))
                    }
                })
                .collect()
        })
        .unwrap_or_default()
}

fn wasm_dialect(d: Dialect) -> harper_wasm::Dialect {
    match d {
        Dialect::American => harper_wasm::Dialect::American,
        Dialect::British => harper_wasm::Dialect::British,
        Dialect::Canadian => harper_wasm::Dialect::Canadian,
        Dialect::Australian => harper_wasm::Dialect::Australian,
    }
}

/// lower∘normalize key under which `MutableDictionary` files a word
fn dict_key(w: &str) -> String {
    w.chars().map(|c| if matches!(c, '’' | '‘' | 'ʼ' | '＇') { '\'' } else { c }).collect::<String>().to_lowercase()
}

/// RECORDED finding (known_findings.json, class `wasm-dict-case-only-reimport-stale`; the defect C07 and
/// C16 record as `c07-case-collision` / `c16-words-case-only-reimport-stale`): `import_words` rebuilds the
/// linting dictionary only when the user dictionary GREW; a call that only replaces the spelling of
/// existing keys (`Tset` … later `tset`) leaves the group with the old spelling. `stale` = the keys
/// whose spelling was replaced by calls that added no new key since the last call that did. The
/// classifier: some key is stale AND every lint in which the two results differ is about a word
/// with a stale key.
fn only_stale_words_differ(stale: &std::collections::BTreeSet<String>, a: &[String], b: &[String]) -> bool {
    if stale.is_empty() {
        return false;
    }
    let mut diff: Vec<&String> = a.iter().filter(|x| !b.contains(x)).collect();
    diff.extend(b.iter().filter(|x| !a.contains(x)));
    !diff.is_empty()
        && diff.iter().all(|j| {
            let text = serde_json::from_str::<Value>(j).ok().and_then(|v| v["problem_text"].as_str().map(dict_key)).unwrap_or_default();
            stale.iter().any(|k| text.contains(k.as_str()))
        })
}

/// One long-lived `harper_wasm::Linter`; after every lint: (a) a NEW Linter that is given the same
/// words (one call) and then the same configurations must report the same, (b) so must harper-core
/// with a new group over curated + those words under that configuration (overlaps removed, as
/// `Linter::lint` does). Returns (class, description) of the first difference.
pub fn eval_wasm_dict(dialect: Dialect, ops: &[WOp]) -> Result<Option<(String, String)>, String> {
    use harper_core::parsers::{Markdown, PlainEnglish};
    guarded(|| {
        let mut long = harper_wasm::Linter::new(wasm_dialect(dialect));
        let mut words: Vec<String> = vec![];
        let mut cfgs: Vec<String> = vec![];
        let mut n = 0;
        let mut spelling: BTreeMap<String, String> = BTreeMap::new();
        let mut stale: std::collections::BTreeSet<String> = Default::default();
        for o in ops {
            match o {
                WOp::Import(w) => {
                    long.import_words(w.clone());
                    words.extend(w.iter().cloned());
                    let grew = w.iter().any(|x| !spelling.contains_key(&dict_key(x)));
                    if grew {
                        stale.clear();
                    }
                    for x in w {
                        let k = dict_key(x);
                        if let Some(old) = spelling.insert(k.clone(), x.clone()) {
                            if old != *x && !grew {
                                stale.insert(k);
                            }
                        }
                    }
                }
                WOp::SetCfg(c) => {
                    if long.set_lint_config_from_json(c.clone()).is_ok() {
                        cfgs.push(c.clone());
                    }
                }
                WOp::Lint(t, md) => {
                    n += 1;
                    let lang = if *md { harper_wasm::Language::Markdown } else { harper_wasm::Language::Plain };
                    let a: Vec<String> = long.lint(t.clone(), lang).iter().map(|l| l.to_json()).collect();
                    let mut f = harper_wasm::Linter::new(wasm_dialect(dialect));
                    if !words.is_empty() {
                        f.import_words(words.clone());
                    }
                    for c in &cfgs {
                        let _ = f.set_lint_config_from_json(c.clone());
                    }
                    let b: Vec<String> = f.lint(t.clone(), lang).iter().map(|l| l.to_json()).collect();
                    if a != b {
                        let class = if only_stale_words_differ(&stale, &a, &b) { "wasm-dict-case-only-reimport-stale" } else { "wasm-dict-history-dependent" };
                        return Some((class.to_string(), format!("harper_wasm::Linter ({}): lint #{} ({:?}, {}) gives {} lints on the long-lived instance, {} on a new one given the same words {:?} and configurations {:?}", dialect_name(dialect), n, trunc(t, 60), if *md { "markdown" } else { "plain" }, a.len(), b.len(), words, cfgs)));
                    }
                    // harper-core under the same dictionary and configuration
                    let dict = user_merged(&words);
                    let mut user = LintGroupConfig::default();
                    for c in &cfgs {
                        if let Ok(mut u) = serde_json::from_str::<LintGroupConfig>(c) {
                            user.merge_from(&mut u);
                        }
                    }
                    user.fill_with_curated();
                    let doc = if *md { Document::new(t, &Markdown::default(), &*dict) } else { Document::new(t, &PlainEnglish, &*dict) };
                    let mut g = LintGroup::new_curated(dict.clone(), dialect).with_lint_config(user);
                    let mut core = g.lint(&doc);
                    harper_core::remove_overlaps(&mut core);
                    let want: Vec<Value> = core.iter().map(|l| serde_json::to_value(l).unwrap_or(Value::Null)).collect();
                    let got: Vec<Value> = a.iter().map(|j| serde_json::from_str::<Value>(j).map(|v| v["inner"].clone()).unwrap_or(Value::Null)).collect();
                    if want != got {
                        // (same recorded defect seen against harper-core: compare on the lints alone)
                        let as_js = |v: &[Value], texts: &dyn Fn(&Value) -> String| v.iter().map(|l| json!({"inner": l, "problem_text": texts(l)}).to_string()).collect::<Vec<_>>();
                        let chars: Vec<char> = t.chars().collect();
                        let text_of = |l: &Value| -> String { let (s, e) = (l["span"]["start"].as_u64().unwrap_or(0) as usize, l["span"]["end"].as_u64().unwrap_or(0) as usize); chars.get(s..e.min(chars.len())).map(|c| c.iter().collect()).unwrap_or_default() };
                        if only_stale_words_differ(&stale, &as_js(&got, &text_of), &as_js(&want, &text_of)) {
                            return Some(("wasm-dict-case-only-reimport-stale".to_string(), format!("harper_wasm::Linter ({}): after a case-only re-import (stale keys {:?}, words {:?}) lint #{} ({:?}) differs from harper-core over curated + the words as exported", dialect_name(dialect), stale, words, n, trunc(t, 60))));
                        }
                        let show = |v: &[Value]| v.iter().map(|l| format!("{}-{} {}", l["span"]["start"], l["span"]["end"], l["message"].as_str().unwrap_or(""))).take(4).collect::<Vec<_>>();
                        return Some(("wasm-dict-not-core".to_string(), format!("harper_wasm::Linter ({}) after importing {:?} and configurations {:?}: lint #{} ({:?}) reports {} lints {:?}; a new harper-core group over curated + those words under that configuration {} {:?}", dialect_name(dialect), words, cfgs, n, trunc(t, 60), got.len(), show(&got), want.len(), show(&want))));
                    }
                }
            }
        }
        None
    })
}

fn wasm_dict_stream(sess: &mut Session, rng: &mut Rng, thorough: bool) {
    let t1 = "A tset of teh wrods, and a Tset of Teh Wrods; one kilometr is an test.";
    let t2 = "The **tset** was an _tset_ of wrods, it were a alot worse then.";
    let t3 = "We bought 3 apples at o'clockish; teh kilometr and the the tset.";
    let w = |xs: &[&str]| WOp::Import(xs.iter().map(|s| s.to_string()).collect());
    let l = |t: &str, md: bool| WOp::Lint(t.to_string(), md);
    let c = |s: &str| WOp::SetCfg(s.to_string());
    let mut scripts: Vec<(Dialect, Vec<WOp>)> = vec![
        // lint, add words, lint again: the flagged word is accepted, the caches of the old group are gone
        (Dialect::American, vec![l(t1, false), l(t2, true), w(&["tset"]), l(t1, false), l(t2, true), w(&["tset"]), l(t1, false), w(&["wrods", "Teh"]), l(t1, false), l(t3, false), l(t1, true)]),
        // an explicit configuration must survive the rebuild
        (Dialect::American, vec![c(r#"{"SpellCheck": true, "AnA": false, "SpelledNumbers": true}"#), l(t3, false), w(&["kilometr"]), l(t3, false), l(t1, false), c(r#"{"RepeatedWords": false, "AnA": null}"#), l(t3, false), w(&["o'clockish", "tset"]), l(t3, false), l(t3, true)]),
        (Dialect::British, vec![l(t1, false), l(t1, false), w(&["Tset"]), l(t1, false), c(r#"{"SentenceCapitalization": false, "NoSuchRule": true}"#), l(t2, false), w(&["wrods"]), l(t2, false), l(t2, true), l(t1, false)]),
        // the witness of the recorded finding `wasm-dict-case-only-reimport-stale` (a re-import that only changes the case)
        (Dialect::Canadian, vec![w(&["kilometr", "Tset"]), l(t2, false), w(&["tset"]), l(t2, false)]),
    ];
    let texts = [t1, t2, t3, SHARED[6], SHARED[14], "One kilometr here and another kilometr there."];
    let pool = ["tset", "Tset", "wrods", "teh", "Teh", "kilometr", "o'clockish", "alot", "mispelled", "evrywhere", "naïveté"];
    let cfgs = [r#"{"SpellCheck": false}"#, r#"{"SpellCheck": true, "AnA": false}"#, r#"{"SpelledNumbers": true, "BoringWords": true}"#, r#"{"RepeatedWords": false, "SpellCheck": null}"#];
    for _ in 0..(if thorough { 24 } else { 3 }) {
        let d = rng.pick(&DIALECTS).0;
        let mut ops = vec![];
        for _ in 0..rng.range(6, 10) {
            match rng.below(8) {
                0 | 1 => ops.push(WOp::Import((0..rng.range(1, 2)).map(|_| rng.pick(&pool).to_string()).collect())),
                2 => ops.push(c(*rng.pick(&cfgs))),
                _ => ops.push(l(*rng.pick(&texts), rng.chance(1, 3))),
            }
        }
        ops.push(l(t1, false));
        scripts.push((d, ops));
    }
    for (d, ops) in &scripts {
        sess.o();
        sess.count("wasm-linter:import-words:long-lived-vs-new-and-core");
        sess.add("wasm-linter:import-words:lint-ops", ops.iter().filter(|o| matches!(o, WOp::Lint(..))).count() as u64);
        sess.add("wasm-linter:import-words:import-ops", ops.iter().filter(|o| matches!(o, WOp::Import(..))).count() as u64);
        match eval_wasm_dict(*d, ops) {
            Ok(None) => sess.nontrivial(&format!("wasm-dict|{}|{}", dialect_name(*d), wops_json(ops))),
            Ok(Some((class, desc))) => sess.fail(&class, desc, json!({"kind": "wasm-dict", "dialect": dialect_name(*d), "ops": wops_json(ops)}), None),
            Err(e) => sess.sample(json!({"wasm import_words stream panicked": e})),
        }
    }
}

// ---- one group, several threads one after the other -----------------------------------------------

/// A group built on one thread and used on others (harper-ls's runtime moves a document's linter
/// between worker threads): every lint equals that of a brand-new group built and run right here.
fn moved_stream(sess: &mut Session, dict: &Dict, names: &RuleNames, docs: &[(String, Lang)]) {
    let cfg = all_on(names);
    let want = digest(dict, docs, &cfg); // one new group, this thread (digest of a history = of brand-new groups, by the streams above)
    // built in a thread of its own, handed back
    let built: Option<LintGroup> = std::thread::scope(|s| s.spawn(|| new_group(dict)).join().ok());
    let Some(mut g) = built else { return };
    g.config = to_real(&cfg);
    let mut bad: Option<(usize, usize)> = None;
    for round in 0..3 {
        let got: Vec<String> = std::thread::scope(|s| {
            let g = &mut g;
            s.spawn(move || {
                docs.iter()
                    .map(|(t, l)| {
                        let doc = make_doc(t, *l, dict);
                        match guarded(|| g.lint(&doc)) {
                            Ok(ls) => ls.iter().map(|x| format!("{}:{}:{}", x.span.start, x.span.end, payload(x))).collect::<Vec<_>>().join("\u{1f}"),
                            Err(_) => "PANIC".into(),
                        }
                    })
                    .collect()
            })
            .join()
            .unwrap_or_default()
        });
        for (i, d) in got.iter().enumerate() {
            sess.o();
            if *d != want[i] && bad.is_none() {
                bad = Some((round, i));
            }
        }
    }
    // brand-new threads (no thread-local state yet) against this one, which is made to have a past
    // first: a lint must not depend on what the thread that runs it did before
    {
        let texts = ["Tommorow is here. Reccomend it to them. Libary books are here.", "The qzxjkvwqp is here, and the zzkqjxvw too.", "Teh cat sat, teh dog ran, and Teh bird flew.", "Mispelled Wrods Evrywhere, one Kilometr away."];
        let tdocs: Vec<(String, Lang)> = texts.iter().map(|t| (t.to_string(), Lang::Plain)).collect();
        let _ = digest(dict, &[tdocs[1].clone()], &cfg); // this thread has backed off to larger distances now
        let here: Vec<String> = tdocs.iter().map(|d| digest(dict, std::slice::from_ref(d), &cfg).remove(0)).collect();
        let there: Vec<Option<String>> = std::thread::scope(|s| {
            let cfg = &cfg;
            let hs: Vec<_> = tdocs.iter().map(|d| s.spawn(move || digest(dict, std::slice::from_ref(d), cfg).remove(0))).collect();
            hs.into_iter().map(|h| h.join().ok()).collect()
        });
        for (i, (a, b)) in here.iter().zip(there.iter()).enumerate() {
            sess.o();
            if Some(a) != b.as_ref() {
                sess.fail("thread-dependent", format!("a new group on a brand-new thread and a new group on a thread that has linted other documents before give different lints for {:?}", tdocs[i].0), json!({"kind": "history", "ops": ops_json(&[HOp::Cfg(cfg.clone()), HOp::Lint(tdocs[i].0.clone(), Lang::Plain)]), "note": "differs only between a used and a brand-new thread"}), None);
                break;
            }
        }
        sess.count("threads:brand-new-thread-vs-used-thread");
        // and histories that run on a brand-new thread from their first lint on
        let l = |t: &str| XOp::Lint(t.to_string(), "plaintext".to_string());
        let scripts: Vec<Vec<XOp>> = vec![
            vec![XOp::Cfg(cfg.clone()), l(texts[0]), l(texts[1]), l(texts[0]), l("Tommorow the qzxjkvwqp is here. Reccomend it to them.")],
            vec![XOp::Cfg(cfg.clone()), l(texts[3]), l(texts[2]), l(texts[1]), l(texts[3]), l(texts[2])],
        ];
        let results: Vec<Option<XResult>> = std::thread::scope(|s| {
            let hs: Vec<_> = scripts.iter().map(|ops| s.spawn(move || eval_xhistory(Dialect::American, &[], ops))).collect();
            hs.into_iter().map(|h| h.join().ok()).collect()
        });
        for r in results.into_iter().flatten() {
            sess.o();
            sess.count("threads:history-on-a-brand-new-thread");
            if let Some((c, d, i)) = r.fail {
                sess.fail(&c, d, i, None);
            }
        }
    }
    sess.count("threads:one-group-moved-across-4-threads");
    if let Some((round, i)) = bad {
        sess.fail("thread-moved-dependent", format!("a group built on one thread and used on another (hand-over #{}) got different lints for document {} than a group that stayed on one thread", round + 1, i), json!({"kind": "history", "ops": ops_json(&[HOp::Cfg(cfg.clone()), HOp::Lint(docs[i].0.clone(), docs[i].1)]), "note": "differs only when the group changes threads"}), None);
    }
}

// ---- the real Backend: several documents open at once vs a session of its own per document --------

fn pub_lines(v: Option<&Value>) -> Option<Vec<String>> {
    v.and_then(|v| v.as_array()).map(|a| a.iter().map(|d| format!("{}:{}-{}:{} [{}] {}", d["range"]["start"]["line"], d["range"]["start"]["character"], d["range"]["end"]["line"], d["range"]["end"]["character"], d["severity"], d["message"].as_str().unwrap_or(""))).collect())
}

/// what a server that has seen NOTHING else publishes for (uri, language, text)
fn fresh_publication(cfg: &Value, uri: &str, lang: &str, text: &str) -> Result<Option<Vec<String>>, crate::lsclient::LsError> {
    use crate::lsclient::*;
    let mut ls = LsSession::start()?;
    ls.initialize(cfg)?;
    ls.notify("textDocument/didOpen", did_open(uri, lang, text))?;
    ls.quiesce(cfg)?;
    let out = pub_lines(ls.last_publication(uri));
    ls.shutdown(cfg)?;
    Ok(out)
}

/// script steps: (action, document index, text index)
fn eval_server_hist(sess: &mut Session, cfg: &Value, docs: &[(String, String)], texts: &[String], script: &[(String, usize, usize)]) -> Result<(), crate::lsclient::LsError> {
    use crate::lsclient::*;
    let body = |d: usize, t: usize| crate::frontends::embed(&docs[d].1, &texts[t % texts.len()], t);
    let mut ls = LsSession::start()?;
    ls.initialize(cfg)?;
    let mut ver = 1i64;
    let mut open: Vec<Option<String>> = vec![None; docs.len()];
    // two entries of `docs` may name the SAME uri under different language ids: the one that is
    // open is closed first (the server must forget it: a re-open is a new document)
    let mut memo: HashMap<(usize, String), Option<Vec<String>>> = HashMap::new();
    let mut done: Vec<String> = vec![];
    for (act, d, t) in script {
        let d = *d % docs.len();
        let (uri, lang) = (&docs[d].0, &docs[d].1);
        done.push(format!("{} {}", act, uri.rsplit('/').next().unwrap_or("")));
        match act.as_str() {
            "open" | "change" => {
                let text = body(d, *t);
                for e in 0..docs.len() {
                    if e != d && docs[e].0 == *uri && open[e].is_some() {
                        ls.notify("textDocument/didClose", did_close(uri))?;
                        ls.quiesce(cfg)?;
                        open[e] = None;
                    }
                }
                if open[d].is_none() {
                    ls.notify("textDocument/didOpen", did_open(uri, lang, &text))?;
                } else {
                    ver += 1;
                    ls.notify("textDocument/didChange", did_change(uri, ver, &text))?;
                }
                ls.quiesce(cfg)?;
                open[d] = Some(text.clone());
                let got = pub_lines(ls.last_publication(uri));
                let want = match memo.get(&(d, text.clone())) {
                    Some(w) => w.clone(),
                    None => {
                        let w = fresh_publication(cfg, uri, lang, &text)?;
                        memo.insert((d, text.clone()), w.clone());
                        w
                    }
                };
                sess.o();
                sess.count(&format!("ls-session:lang:{}", lang));
                if got != want {
                    let (g, w) = (got.clone().unwrap_or_default(), want.clone().unwrap_or_default());
                    let only_long: Vec<&String> = g.iter().filter(|x| !w.contains(x)).take(3).collect();
                    let only_fresh: Vec<&String> = w.iter().filter(|x| !g.contains(x)).take(3).collect();
                    sess.fail(
                        "ls-session-history-dependent",
                        format!("real Backend, settings {}: after {:?} the publication for {} ({}) differs from that of a server that only ever opened this text — long-lived only: {:?}; new only: {:?} ({} vs {} diagnostics)", cfg, done, uri, lang, only_long, only_fresh, g.len(), w.len()),
                        json!({"kind": "ls-session", "settings": cfg, "docs": docs, "texts": texts, "script": script}),
                        None,
                    );
                    let _ = ls.shutdown(cfg);
                    return Ok(());
                }
                if want.as_ref().map(|w| !w.is_empty()).unwrap_or(false) {
                    sess.nontrivial(&format!("ls-session|{}|{:?}", cfg, done));
                }
            }
            "action" => {
                if open[d].is_some() {
                    for c in [0, 2, 5, 9] {
                        let params = json!({"textDocument": {"uri": uri}, "range": {"start": {"line": 0, "character": c}, "end": {"line": 0, "character": c + 1}}, "context": {"diagnostics": []}});
                        ls.request_sync("textDocument/codeAction", params, cfg)?;
                    }
                }
            }
            "close" => {
                if open[d].is_some() {
                    ls.notify("textDocument/didClose", did_close(uri))?;
                    ls.quiesce(cfg)?;
                    open[d] = None;
                }
            }
            _ => {}
        }
    }
    ls.shutdown(cfg)?;
    Ok(())
}

fn server_hist_stream(sess: &mut Session, ctx: &Ctx, rng: &mut Rng, thorough: bool, only: Option<&Value>) {
    crate::lsclient::set_home(&ctx.out.join("c05-home"));
    let mut ok = true;
    if let Some(v) = only {
        let docs: Vec<(String, String)> = serde_json::from_value(v["docs"].clone()).unwrap_or_default();
        let texts: Vec<String> = serde_json::from_value(v["texts"].clone()).unwrap_or_default();
        let script: Vec<(String, usize, usize)> = serde_json::from_value(v["script"].clone()).unwrap_or_default();
        if !docs.is_empty() && !texts.is_empty() {
            ok &= eval_server_hist(sess, &v["settings"], &docs, &texts, &script).is_ok();
        }
    } else {
        let docs: Vec<(String, String)> = [("a.md", "markdown"), ("b.txt", "plaintext"), ("c.rs", "rust"), ("d.py", "python"), ("e.html", "html"), ("b.txt", "markdown"), ("a.md", "plaintext")].iter().map(|(f, l)| (format!("file:///c05-server/{}", f), l.to_string())).collect();
        let texts: Vec<String> = vec![
            "There is a tset here, and we bought 3 apples. this is very boring, and it is an test.".into(),
            "He held his baited **breath** again, one kilometr away; it were a alot worse then.".into(),
            "Teh cat sat, teh dog ran, and Teh bird flew over the the fence.".into(),
        ];
        let settings = [json!({"harper-ls": {}}), json!({"harper-ls": {"linters": {"SpelledNumbers": true, "BoringWords": true, "AnA": false}, "dialect": "British"}})];
        let s = |a: &str, d: usize, t: usize| (a.to_string(), d, t);
        let fixed: Vec<(String, usize, usize)> = vec![s("open", 0, 0), s("open", 1, 0), s("open", 2, 0), s("change", 0, 1), s("action", 1, 0), s("change", 1, 1), s("change", 2, 1), s("change", 0, 0), s("action", 2, 0), s("change", 2, 0), s("close", 1, 0), s("open", 1, 2), s("open", 3, 2), s("change", 3, 0), s("open", 4, 1), s("change", 0, 2), s("change", 4, 0), s("change", 2, 2), s("open", 5, 1), s("change", 5, 0), s("open", 6, 1), s("open", 1, 1), s("change", 0, 1)];
        for cfg in &settings {
            ok &= eval_server_hist(sess, cfg, &docs, &texts, &fixed).is_ok();
            sess.count("ls-session:several-documents-vs-own-session");
            for _ in 0..(if thorough { 8 } else { 2 }) {
                let script: Vec<(String, usize, usize)> = (0..rng.range(8, 16)).map(|_| (rng.pick(&["open", "change", "change", "change", "action", "close"]).to_string(), rng.below(docs.len()), rng.below(texts.len()))).collect();
                ok &= eval_server_hist(sess, cfg, &docs, &texts, &script).is_ok();
                sess.count("ls-session:several-documents-vs-own-session");
            }
        }
    }
    sess.monitor("the in-process language server completed the C05 sessions", ok);
}

pub fn run(ctx: &Ctx) {
    if std::env::var_os("HV_C05_CHILD").is_some() {
        child();
        return;
    }
    let mut sess = Session::new(ctx);
    let mut rng = Rng::new(ctx.seed);
    let dict: Dict = harper_core::FstDictionary::curated();
    let names = rule_names(&new_group(&dict));
    let all = names.all();
    let curated = from_real(&LintGroupConfig::new_curated());
    let (cap, cap_ok) = capacity_from_source("/repo/harper-core/src/linting/lint_group.rs");
    let (wcap, wcap_ok) = capacity_from_source("/repo/harper-core/src/linting/spell_check.rs");
    sess.monitor("iter_keys() splits into sorted whole-document rules then sorted pattern rules", names.split_ok);
    let thorough = ctx.tier == Tier::Thorough;

    if let Some(v) = replay_input(ctx) {
        match v["kind"].as_str().unwrap_or("") {
            "ext" => {
                let words: Vec<String> = serde_json::from_value(v["words"].clone()).unwrap_or_default();
                let r = eval_xhistory(dialect_of(v["dialect"].as_str().unwrap_or("")), &words, &xops_from_json(&v["ops"]));
                sess.o();
                if let Some((c, d, i)) = r.fail {
                    sess.fail(&c, d, i, None);
                }
            }
            "wasm-dict" => {
                sess.o();
                if let Ok(Some((class, desc))) = eval_wasm_dict(dialect_of(v["dialect"].as_str().unwrap_or("")), &wops_from_json(&v["ops"])) {
                    sess.fail(&class, desc, v.clone(), None);
                }
            }
            "ls-session" => server_hist_stream(&mut sess, ctx, &mut rng, thorough, Some(&v)),
            "spell" => {
                let docs: Vec<(String, Lang)> = ops_from_json(&v["docs"]).into_iter().filter_map(|o| if let HOp::Lint(t, l) = o { Some((t, l)) } else { None }).collect();
                spell_history(&mut sess, &dict, wcap, &docs, "replay");
            }
            _ => {
                let ops = ops_from_json(&v["ops"]);
                let mut tables = HashMap::new();
                for o in &ops {
                    if let HOp::Lint(t, l) = o {
                        tables.entry((t.clone(), *l)).or_insert_with(|| build_table(&dict, &names, t, *l, false));
                    }
                }
                let r = eval_history(&dict, &names, cap, &ops, &tables, true);
                sess.o();
                if let Some((op, imp)) = &r.k {
                    sess.k(op, imp);
                }
                if let Some((c, d, i)) = r.fail {
                    sess.fail(&c, d, i, None);
                }
            }
        }
        sess.nontrivial("replay-a");
        sess.nontrivial("replay-b");
        sess.finish("replay of one recorded history", false, json!({}));
        return;
    }

    // ---- histories: corpus, then random ------------------------------------------------------
    let sents = crate::corpus::sentences();
    let clauses: Vec<String> = vec!["it were a alot worse then.".into(), "back in the days we had an test.".into(), "he held his baited breath.".into(), "teh end is is near.".into()];
    let on = all_on(&names);
    let bb = "He held his baited **breath** again.".to_string();
    let mut histories: Vec<(Vec<HOp>, &'static str)> = vec![
        // the witness of the defect fixed by 131eac6: same characters, plain then Markdown
        (vec![HOp::Cfg(on.clone()), HOp::Lint(bb.clone(), Lang::Plain), HOp::Lint(bb.clone(), Lang::Markdown)], "corpus"),
        (vec![HOp::Cfg(on.clone()), HOp::Lint(bb.clone(), Lang::Markdown), HOp::Lint(bb.clone(), Lang::Plain), HOp::Lint(bb.clone(), Lang::Markdown)], "corpus"),
        (vec![HOp::Cfg(curated.clone()), HOp::Lint(bb.clone(), Lang::Plain), HOp::Lint(bb.clone(), Lang::Markdown)], "corpus"),
        // SpellCheck's word cache: the same misspelling in different cases
        (vec![HOp::Cfg(on.clone()), HOp::Lint("Teh cat.".into(), Lang::Plain), HOp::Lint("I saw teh cat.".into(), Lang::Plain), HOp::Lint("Teh cat.".into(), Lang::Plain), HOp::Lint("TEH cat, teh cat.".into(), Lang::Plain)], "corpus"),
        // the same clause at different offsets, configuration toggled in between
        (vec![
            HOp::Cfg(on.clone()),
            HOp::Lint("However, it were a alot worse then.".into(), Lang::Plain),
            HOp::Cfg([("ALot".to_string(), Some(false)), ("SpellCheck".to_string(), Some(true))].into_iter().collect()),
            HOp::Lint("I would of gone, but it were a alot worse then.".into(), Lang::Plain),
            HOp::Cfg(on.clone()),
            HOp::Lint("I would of gone, but it were a alot worse then.".into(), Lang::Plain),
            HOp::Lint("However, it were a alot worse then.".into(), Lang::Markdown),
        ], "corpus"),
        // an unknown key changes the cache key, not the result
        (vec![HOp::Cfg(on.clone()), HOp::Lint(SHARED[2].into(), Lang::Plain), HOp::Cfg({ let mut m = on.clone(); m.insert("NoSuchRule".into(), Some(true)); m }), HOp::Lint(SHARED[2].into(), Lang::Plain)], "corpus"),
    ];
    // exactly ONE rule toggled between two lints of the same text (a cache key that ignores part of
    // the configuration survives histories that always flip several rules at once)
    for (text, rule) in [
        ("We had to change tact after the meeting.", "ChangeTack"),
        ("However, it were a alot worse then.", "ALot"),
        ("I could of gone there.", "ModalOf"),
        ("He held his baited breath again.", "BaitedBreath"),
        ("I was stuck there for along time.", "ForALongTime"),
        ("This is an test of the the thing.", "RepeatedWords"),
        ("This is an test of the the thing.", "AnA"),
        ("I think teh cat is here.", "SpellCheck"),
    ] {
        let mut off = on.clone();
        off.insert(rule.to_string(), Some(false));
        for lang in [Lang::Plain, Lang::Markdown] {
            histories.push((vec![
                HOp::Cfg(on.clone()), HOp::Lint(text.into(), lang), HOp::Cfg(off.clone()), HOp::Lint(text.into(), lang),
                HOp::Cfg(on.clone()), HOp::Lint(text.into(), lang), HOp::Cfg(off.clone()), HOp::Lint(format!("Well then. {}", text), lang),
            ], "corpus"));
        }
    }
    let npool = if thorough { 1500 } else { 300 };
    let mut pool: Vec<(String, Lang)> = vec![];
    for s in SHARED {
        pool.push((s.to_string(), Lang::Plain));
        pool.push((s.to_string(), Lang::Markdown));
    }
    while pool.len() < npool {
        let t = gen_text(&mut rng, sents, &clauses);
        let l = if rng.chance(1, 2) { Lang::Markdown } else { Lang::Plain };
        pool.push((t, l));
    }
    let nhist = if thorough { 5000 } else { 1000 };
    for _ in 0..nhist {
        histories.push((gen_history(&mut rng, &pool, &names, &curated, &all), "random"));
    }
    // per-rule tables (every rule ALONE) of every document that occurs in a history
    let mut wanted: Vec<(String, Lang)> = vec![];
    {
        let mut seen = std::collections::HashSet::new();
        for (h, _) in &histories {
            for o in h {
                if let HOp::Lint(t, l) = o {
                    if seen.insert((t.clone(), *l)) {
                        wanted.push((t.clone(), *l));
                    }
                }
            }
        }
    }
    let built = par_map(wanted.len(), 16, |i| build_table(&dict, &names, &wanted[i].0, wanted[i].1, false));
    let mut hloc = HLoc::default();
    let mut tables: HashMap<(String, Lang), DocTable> = HashMap::new();
    for (k, t) in wanted.into_iter().zip(built) {
        if !t.panicked && t.attributed {
            let bad = hloc.add(&t);
            sess.monitor("H_loc: a pattern rule's lints relative to the chunk start depend only on the chunk's characters and relative tokens", bad.is_empty());
            if let Some(b) = bad.first() {
                sess.sample(json!({"H_loc violation": b}));
            }
        }
        tables.insert(k, t);
    }
    let results = par_map(histories.len(), 16, |i| eval_history(&dict, &names, cap, &histories[i].0, &tables, true));
    for (r, (_, origin)) in results.into_iter().zip(histories.iter()) {
        sess.o();
        sess.count(&format!("history:{}", origin));
        if let Some(s) = r.skipped {
            sess.count(s);
            continue;
        }
        for ok in &r.mon_attr {
            sess.monitor("pattern-lint-starts-inside-one-chunk-in-order", *ok);
        }
        if let Some(k) = r.k_dropped {
            sess.count(k);
        }
        let mut case = None;
        if let Some((op, imp)) = &r.k {
            case = Some(sess.k(op, imp));
            if r.lints > 0 && (r.repeats > 0 || r.cfg_ops > 1) {
                sess.nontrivial(op);
            }
        }
        sess.add("history:lint-ops", r.lint_ops as u64);
        sess.add("history:config-ops", r.cfg_ops as u64);
        sess.add("history:repeated-documents", r.repeats as u64);
        sess.add("history:lints", r.lints as u64);
        if let Some((c, d, i)) = r.fail {
            sess.fail(&c, d, i, case);
        }
    }
    sess.add("hloc:chunk-contents-checked", hloc.checked);
    sess.add("hloc:chunk-contents-seen-again", hloc.repeated);

    // ---- capacity pressure: more distinct chunks than the cache holds -------------------------
    // (many documents of 200 clauses: building ONE document of 10^4 sentences is quadratic)
    {
        let per = 200;
        let ndocs = (cap + cap / 20) / per + 1;
        let small = "However, it were a alot worse then. He held his baited breath, and back in the days we had an test.".to_string();
        let cfg: CfgMap = HOT.iter().map(|h| (h.to_string(), Some(true))).chain([("AnA".to_string(), Some(true)), ("RepeatedWords".to_string(), Some(true))]).collect();
        let mut ops = vec![HOp::Cfg(cfg.clone()), HOp::Lint(small.clone(), Lang::Plain)];
        for d in 0..ndocs {
            ops.push(HOp::Lint(big_doc(per, d * per), Lang::Plain));
        }
        ops.push(HOp::Lint(small.clone(), Lang::Plain)); // evicted: recomputed
        ops.push(HOp::Lint(big_doc(per, 0), Lang::Plain)); // evicted as well
        ops.push(HOp::Lint(big_doc(per, (ndocs - 1) * per), Lang::Plain)); // still cached
        ops.push(HOp::Lint(big_doc(per, per / 2), Lang::Plain)); // half cached, half not: hits and misses interleaved at capacity
        ops.push(HOp::Lint(small.clone(), Lang::Markdown));
        let t0 = std::time::Instant::now();
        // tables only for the rules the configuration enables (the others contribute nothing)
        let sub = RuleNames { doc: names.doc.iter().filter(|n| cfg.contains_key(*n)).cloned().collect(), pat: names.pat.iter().filter(|n| cfg.contains_key(*n)).cloned().collect(), split_ok: true };
        let with_k = true;
        let mut tabs = HashMap::new();
        if with_k {
            let docs: Vec<(String, Lang)> = ops.iter().filter_map(|o| if let HOp::Lint(t, l) = o { Some((t.clone(), *l)) } else { None }).collect();
            let built = par_map(docs.len(), 16, |i| build_table(&dict, &sub, &docs[i].0, docs[i].1, false));
            for (k, t) in docs.into_iter().zip(built) {
                tabs.insert(k, t);
            }
        }
        let r = eval_history(&dict, &sub, cap, &ops, &tabs, with_k);
        sess.o();
        sess.count("history:capacity-pressure");
        sess.add("capacity:distinct-chunks", (ndocs * (per + 1)) as u64);
        sess.add("capacity:lints", r.lints as u64);
        let mut case = None;
        if let Some((op, imp)) = &r.k {
            case = Some(sess.k(op, imp));
            sess.nontrivial("capacity-pressure");
        }
        if let Some((c, d, i)) = r.fail {
            sess.fail(&c, d, i, case);
        }
        sess.add("capacity:ms", t0.elapsed().as_millis() as u64);
    }

    // ---- SpellCheck's word cache ------------------------------------------------------------
    {
        let mut docs: Vec<(String, Lang)> = vec![
            ("Teh cat.".into(), Lang::Plain),
            ("teh cat, Teh cat, TEH cat.".into(), Lang::Plain),
            ("Teh cat.".into(), Lang::Markdown),
            ("mispelled wrods evrywhere, Mispelled Wrods Evrywhere.".into(), Lang::Plain),
            ("mispelled Wrods evrywhere.".into(), Lang::Plain),
        ];
        spell_history(&mut sess, &dict, wcap, &docs, "corpus");
        let nsp = if thorough { 40 } else { 8 };
        for _ in 0..nsp {
            docs.clear();
            for _ in 0..rng.range(3, 7) {
                let (t, l) = rng.pick(&pool).clone();
                // misspell: swap two letters of some words, vary the case
                let mut words: Vec<String> = t.split(' ').map(|w| w.to_string()).collect();
                for w in words.iter_mut() {
                    if w.len() > 3 && w.is_ascii() && rng.chance(1, 5) {
                        let mut cs: Vec<char> = w.chars().collect();
                        cs.swap(1, 2);
                        if rng.chance(1, 3) {
                            cs[0] = cs[0].to_ascii_uppercase();
                        }
                        *w = cs.into_iter().collect();
                    }
                }
                docs.push((words.join(" "), l));
                if rng.chance(1, 3) {
                    docs.push(docs[rng.below(docs.len())].clone());
                }
            }
            spell_history(&mut sess, &dict, wcap, &docs, "random");
        }
        if thorough {
            // more distinct misspelt words than the word cache holds, then the first ones again
            let t0 = std::time::Instant::now();
            let nw = wcap + 50;
            let per = 200;
            let mut docs: Vec<(String, Lang)> = vec![("Teh frist wrod.".into(), Lang::Plain)];
            let mut i = 0;
            while i < nw {
                let mut s = String::new();
                for j in i..(i + per).min(nw) {
                    let mut n = j;
                    let mut w = String::from("qz");
                    loop {
                        w.push((b'a' + (n % 26) as u8) as char);
                        n /= 26;
                        if n == 0 {
                            break;
                        }
                    }
                    w.push_str("xq");
                    s.push_str(&w);
                    s.push(' ');
                }
                s.push('.');
                docs.push((s, Lang::Plain));
                i += per;
            }
            docs.push(("Teh frist wrod.".into(), Lang::Plain));
            docs.push(docs[1].clone());
            let cut = docs.len();
            // long-lived vs new, O only for the bulk (the K line would be dominated by it)
            let mut long = SpellCheck::new(dict.clone(), Dialect::American);
            let firsts: Vec<Option<Vec<Lint>>> = par_map(cut, 16, |i| {
                let mut f = SpellCheck::new(dict.clone(), Dialect::American);
                spell_lints(&mut f, &dict, &docs[i].0, docs[i].1)
            });
            for (i, (t, l)) in docs.iter().enumerate() {
                let a = spell_lints(&mut long, &dict, t, *l);
                sess.o();
                if a != firsts[i] {
                    sess.fail("spell-history-dependent", format!("after {} distinct misspelt words, SpellCheck lint of document #{} differs from a new SpellCheck", nw, i + 1), json!({"kind": "spell-capacity", "words": nw, "doc": i}), None);
                    break;
                }
            }
            sess.add("spell:capacity-ms", t0.elapsed().as_millis() as u64);
            sess.add("spell:capacity-distinct-words", nw as u64);
        }
    }

    // ---- threads: per-thread groups, different orders, vs one thread ---------------------------
    {
        let nd = if thorough { 200 } else { 60 };
        let docs: Vec<(String, Lang)> = (0..nd).map(|i| pool[i % pool.len()].clone()).collect();
        let cfg = all_on(&names);
        let base = digest(&dict, &docs, &cfg);
        let per_thread: Vec<Vec<(usize, String)>> = par_map(8, 8, |t| {
            // rotated and (odd threads) reversed order, each document twice
            let mut order: Vec<usize> = (0..docs.len()).map(|i| (i + t * 7) % docs.len()).collect();
            if t % 2 == 1 {
                order.reverse();
            }
            let mut twice = order.clone();
            twice.extend(order.iter().cloned());
            let ds: Vec<(String, Lang)> = twice.iter().map(|i| docs[*i].clone()).collect();
            let got = digest(&dict, &ds, &cfg);
            twice.into_iter().zip(got).collect()
        });
        for (t, res) in per_thread.iter().enumerate() {
            for (i, d) in res {
                sess.o();
                if *d != base[*i] {
                    sess.fail("thread-or-order-dependent", format!("thread {} (its own group, another order) got different lints for document {}", t, i), json!({"kind": "history", "ops": ops_json(&[HOp::Cfg(cfg.clone()), HOp::Lint(docs[*i].0.clone(), docs[*i].1)]), "note": "differs only in a multi-document, multi-thread run"}), None);
                    break;
                }
            }
        }
        sess.count("threads:8x-per-thread-groups");
    }

    // ---- the JS-facing linter: one instance serves both languages -------------------------------
    {
        let texts: Vec<&str> = SHARED.iter().cloned().take(if thorough { 16 } else { 6 }).collect();
        let r = guarded(|| {
            let mut long = harper_wasm::Linter::new(harper_wasm::Dialect::American);
            let mut bad = None;
            for t in &texts {
                for lang in [harper_wasm::Language::Plain, harper_wasm::Language::Markdown, harper_wasm::Language::Plain] {
                    let a: Vec<String> = long.lint(t.to_string(), lang).iter().map(|l| l.to_json()).collect();
                    let mut f = harper_wasm::Linter::new(harper_wasm::Dialect::American);
                    let b: Vec<String> = f.lint(t.to_string(), lang).iter().map(|l| l.to_json()).collect();
                    if a != b && bad.is_none() {
                        bad = Some((t.to_string(), format!("{:?}", lang), a.len(), b.len()));
                    }
                }
            }
            bad
        });
        sess.o();
        sess.count("wasm-linter:long-lived-vs-new");
        match r {
            Ok(None) => {}
            Ok(Some((t, lang, a, b))) => sess.fail("wasm-history-dependent", format!("harper_wasm::Linter: {} lints from the long-lived instance, {} from a new one ({})", a, b, lang), json!({"kind": "wasm", "text": t, "lang": lang}), None),
            Err(e) => sess.sample(json!({"wasm linter unavailable natively": e})),
        }
    }

    // ---- the same with EXPLICIT user configurations (the per-lint overlay of the curated defaults
    //      must leave the user's configuration as it was), and harper-ls's DocumentState, whose
    //      generate_diagnostics / generate_code_actions do the same overlay --------------------------
    {
        let texts: Vec<&str> = SHARED.iter().cloned().take(if thorough { 12 } else { 5 }).collect();
        let cfgs = [r#"{"SpellCheck": false, "SentenceCapitalization": false}"#, r#"{"SpelledNumbers": true, "BoringWords": true, "AnA": false}"#, r#"{"SpellCheck": null, "RepeatedWords": false, "NoSuchRule": true}"#];
        for cfg in cfgs {
            let r = guarded(|| {
                let mut long = harper_wasm::Linter::new(harper_wasm::Dialect::American);
                long.set_lint_config_from_json(cfg.to_string()).ok()?;
                for (i, t) in texts.iter().enumerate() {
                    for lang in [harper_wasm::Language::Plain, harper_wasm::Language::Markdown] {
                        let a: Vec<String> = long.lint(t.to_string(), lang).iter().map(|l| l.to_json()).collect();
                        let mut f = harper_wasm::Linter::new(harper_wasm::Dialect::American);
                        f.set_lint_config_from_json(cfg.to_string()).ok()?;
                        let b: Vec<String> = f.lint(t.to_string(), lang).iter().map(|l| l.to_json()).collect();
                        if a != b {
                            return Some((t.to_string(), format!("{:?}", lang), i, a.len(), b.len()));
                        }
                    }
                }
                None
            });
            sess.o();
            sess.count("wasm-linter:configured:long-lived-vs-new");
            match r {
                Ok(None) => {}
                Ok(Some((t, lang, i, a, b))) => sess.fail("wasm-history-dependent", format!("harper_wasm::Linter configured with {}: document #{} gets {} lints from the long-lived instance, {} from a new one with the same configuration ({})", cfg, i, a, b, lang), json!({"kind": "wasm", "text": t, "lang": lang, "config": cfg}), None),
                Err(e) => sess.sample(json!({"wasm linter unavailable natively": e})),
            }
            // harper-ls: one DocumentState, diagnostics / code actions / diagnostics …
            let r = guarded(|| {
                use crate::config::{CodeActionConfig, Config, DiagnosticSeverity};
                use crate::document_state::DocumentState;
                use tower_lsp::lsp_types::{Position, Range, Url};
                let lcfg: harper_core::linting::LintGroupConfig = serde_json::from_str(cfg).ok()?;
                let _ = Config::default();
                let mk = |t: &str| {
                    let linter = harper_core::linting::LintGroup::new_curated(dict.clone(), Dialect::American).with_lint_config(lcfg.clone());
                    DocumentState { linter, document: harper_core::Document::new_plain_english(t, &*dict), url: Url::parse("file:///c05.txt").unwrap(), ..Default::default() }
                };
                let mut long = mk(texts[0]);
                for (i, t) in texts.iter().enumerate() {
                    long.document = harper_core::Document::new_plain_english(t, &*dict);
                    let a = serde_json::to_string(&long.generate_diagnostics(DiagnosticSeverity::Hint)).ok()?;
                    let b = serde_json::to_string(&mk(t).generate_diagnostics(DiagnosticSeverity::Hint)).ok()?;
                    if a != b {
                        return Some((t.to_string(), i, "diagnostics"));
                    }
                    let req = Range { start: Position { line: 0, character: 3 }, end: Position { line: 0, character: 4 } };
                    let _ = long.generate_code_actions(req, &CodeActionConfig::default());
                    let a2 = serde_json::to_string(&long.generate_diagnostics(DiagnosticSeverity::Hint)).ok()?;
                    if a2 != b {
                        return Some((t.to_string(), i, "diagnostics after a code-action request"));
                    }
                }
                None
            });
            sess.o();
            sess.count("ls-document-state:configured:long-lived-vs-new");
            match r {
                Ok(None) => {}
                Ok(Some((t, i, what))) => sess.fail("ls-history-dependent", format!("harper-ls DocumentState configured with {}: document #{}: {} differ from those of a new DocumentState with the same configuration", cfg, i, what), json!({"kind": "ls", "text": t, "config": cfg}), None),
                Err(e) => sess.sample(json!({"DocumentState stream failed": e})),
            }
        }
    }

    // ---- w25: dialects × dictionaries × document languages × text families; the JS linter across
    //      import_words; one group handed from thread to thread; the real Backend with several
    //      documents open at once -------------------------------------------------------------------
    {
        let t0 = std::time::Instant::now();
        ext_histories(&mut sess, &mut rng, &names, &curated, &all, thorough);
        sess.add("ext:ms", t0.elapsed().as_millis() as u64);
        let t0 = std::time::Instant::now();
        wasm_dict_stream(&mut sess, &mut rng, thorough);
        sess.add("wasm-linter:import-words:ms", t0.elapsed().as_millis() as u64);
        let nd = if thorough { 120 } else { 40 };
        let docs: Vec<(String, Lang)> = (0..nd).map(|i| pool[(i * 3) % pool.len()].clone()).collect();
        moved_stream(&mut sess, &dict, &names, &docs);
        let t0 = std::time::Instant::now();
        server_hist_stream(&mut sess, ctx, &mut rng, thorough, None);
        sess.add("ls-session:ms", t0.elapsed().as_millis() as u64);
    }

    // ---- processes: a second process lints the same documents ----------------------------------
    {
        let docs = process_docs();
        let mine = digest(&dict, &docs, &all_on(&names));
        let exe = std::env::current_exe().ok();
        // w25: and a third one that did other work first (see `child`)
        let out2 = exe.clone().and_then(|e| std::process::Command::new(e).arg("C05").env("HV_C05_CHILD", "2").output().ok());
        match out2.and_then(|o| serde_json::from_slice::<Vec<String>>(&o.stdout).ok()) {
            Some(theirs) if theirs.len() == mine.len() => {
                sess.count("processes:child-with-other-work-first-compared");
                for (i, (a, b)) in mine.iter().zip(theirs.iter()).enumerate() {
                    sess.o();
                    if a != b {
                        sess.fail("process-dependent", format!("a process that had linted other documents (another dialect, another dictionary, reverse order) before got different lints for document {:?}", docs[i].0), json!({"kind": "history", "ops": ops_json(&[HOp::Cfg(all_on(&names)), HOp::Lint(docs[i].0.clone(), docs[i].1)]), "note": "differs between two processes"}), None);
                        break;
                    }
                }
            }
            _ => sess.count("processes:child-with-other-work-first-unavailable"),
        }
        let out = exe.and_then(|e| std::process::Command::new(e).arg("C05").env("HV_C05_CHILD", "1").output().ok());
        match out.and_then(|o| serde_json::from_slice::<Vec<String>>(&o.stdout).ok()) {
            Some(theirs) => {
                sess.count("processes:child-compared");
                for (i, (a, b)) in mine.iter().zip(theirs.iter()).enumerate() {
                    sess.o();
                    if a != b {
                        sess.fail("process-dependent", format!("another process got different lints for document {:?}", docs[i].0), json!({"kind": "history", "ops": ops_json(&[HOp::Cfg(all_on(&names)), HOp::Lint(docs[i].0.clone(), docs[i].1)]), "note": "differs between two processes"}), None);
                        break;
                    }
                }
            }
            None => sess.count("processes:child-unavailable"),
        }
    }

    sess.finish(
        "corpus histories (same characters plain then Markdown and back; Teh/teh/TEH; one clause at different offsets with configuration toggles; unknown keys); random histories of 5–14 ops over a working set of 2–5 documents (rule-test sentences, Markdown-decorated copies, shared clauses; plain and Markdown), every lint compared with a brand-new group and predicted by the model from per-rule tables; capacity pressure (cap+5% distinct chunks); SpellCheck's word cache (long-lived vs new, K on the word sequence); 8 threads with per-thread groups in different orders; harper_wasm::Linter long-lived vs new, also under three explicit user configurations; harper-ls DocumentState (diagnostics / code actions / diagnostics) long-lived vs new under the same configurations; a second process, and a third that did other work first; w25 (oracle only): all four dialects × {curated, curated merged with user words} long-lived vs brand-new over every document language of the server and the families dialect-near-miss / non-ASCII / astral / combining / fullwidth / CRLF / lone CR / empty / whitespace-only / long word / repeated clause / user-word case variants / long document; harper_wasm::Linter across import_words (rebuilds its group) vs a new Linter and vs harper-core over curated + those words; one group handed across threads, brand-new threads vs a used one (gibberish that forces the distance back-off, capitalised misspellings); the real Backend with five documents of five languages open at once (and a URI re-opened under another language id) vs a session of its own per text. Non-trivial = a history with lints and a repeated document or ≥2 configuration ops.",
        false,
        json!({"chunk_cache_capacity": cap, "chunk_cache_capacity_from_source": cap_ok, "word_cache_capacity": wcap, "word_cache_capacity_from_source": wcap_ok, "rules": all.len()}),
    );
}
