//! C08 — diagnostics and quick-fix edits land exactly on the flagged text.
//!
//! K: the real `span_to_range` / `range_to_span` (`index_to_position(i)` is observed as
//! `span_to_range(Span::new(i,i)).start`, `position_to_index(p)` as `range_to_span(Range{p,p}).start`),
//! the real `lint_to_code_actions` `TextEdit`s, the real `Suggestion::apply`, and the code-action
//! filter of `generate_code_actions` (real `range_to_span` + `with_len(1)` + `overlaps_with`)
//! against the Lean model; plus the harness's own LSP client against the Lean client
//! (`cdec` / `capply`: a cross-check of the oracle, not of harper).
//!
//! O: on the real code, through the real `DocumentState::generate_diagnostics` /
//! `generate_code_actions` with lints injected by a one-rule `LintGroup` (and, in the last stream,
//! with the real curated rules): every diagnostic range, decoded by an independent LSP client
//! (lines end at `\n`, `\r\n`, `\r`; UTF-16 columns, clamped), covers exactly the lint span; a
//! request at every client position inside it returns the lint's fixes; every returned `TextEdit`
//! applied as a client equals `Suggestion::apply`.
use crate::common::*;
use crate::config::{CodeActionConfig, DiagnosticSeverity};
use crate::diagnostics::lint_to_code_actions;
use crate::document_state::DocumentState;
use crate::pos_conv::{range_to_span, span_to_range};
use harper_core::linting::{Lint, LintGroup, LintKind, Linter, Suggestion};
use harper_core::{Dialect, Document, FstDictionary, Span};
use serde_json::{Value, json};
use std::sync::{Arc, Mutex};
use crate::lsclient::{LsError, LsSession, did_close, did_open, set_home};
use tower_lsp::lsp_types::{CodeActionOrCommand, Diagnostic, Position, Range, TextEdit, Url};

// ------------------------------------------------------------------------------------------
// An independent LSP client (specification side of the oracle)
// ------------------------------------------------------------------------------------------

/// `(start, end)` of every line, `end` excluding the terminator. Terminators: `\n`, `\r\n`, `\r`.
fn client_lines(src: &[char]) -> Vec<(usize, usize)> {
    let mut out = vec![];
    let mut start = 0;
    let mut i = 0;
    while i < src.len() {
        if src[i] == '\r' && i + 1 < src.len() && src[i + 1] == '\n' {
            out.push((start, i));
            i += 2;
            start = i;
        } else if src[i] == '\n' || src[i] == '\r' {
            out.push((start, i));
            i += 1;
            start = i;
        } else {
            i += 1;
        }
    }
    out.push((start, src.len()));
    out
}

/// character offset a client means by `(line, character)`
fn client_offset(src: &[char], p: Position) -> usize {
    let lines = client_lines(src);
    let Some(&(s, e)) = lines.get(p.line as usize) else {
        return src.len();
    };
    let mut units = 0usize;
    let mut k = s;
    while k < e {
        let w = src[k].len_utf16();
        if units + w > p.character as usize {
            break;
        }
        units += w;
        k += 1;
    }
    k
}

/// the position a client sends for the caret before character `i` (`None`: `i` is between the
/// `\r` and `\n` of one terminator — not a client position)
fn client_encode(src: &[char], i: usize) -> Option<Position> {
    if inside_crlf(src, i) {
        return None;
    }
    let lines = client_lines(src);
    for (ln, &(s, e)) in lines.iter().enumerate() {
        if s <= i && i <= e {
            let col: usize = src[s..i].iter().map(|c| c.len_utf16()).sum();
            return Some(Position { line: ln as u32, character: col as u32 });
        }
    }
    None
}

fn client_apply(src: &[char], edit: &TextEdit) -> Vec<char> {
    let a = client_offset(src, edit.range.start);
    let b = client_offset(src, edit.range.end);
    let mut out: Vec<char> = src[..a.min(src.len())].to_vec();
    out.extend(edit.new_text.chars());
    out.extend_from_slice(&src[b.min(src.len())..]);
    out
}

fn inside_crlf(src: &[char], i: usize) -> bool {
    i >= 1 && i < src.len() && src[i - 1] == '\r' && src[i] == '\n'
}

/// a `\r` not followed by `\n` at an index `< i`
fn lone_cr_before(src: &[char], i: usize) -> bool {
    (0..i.min(src.len())).any(|j| src[j] == '\r' && (j + 1 >= src.len() || src[j + 1] != '\n'))
}

fn newlines(src: &[char]) -> usize {
    src.iter().filter(|c| **c == '\n').count()
}

/// Classifier of oracle failures = the matchers of known_findings.json.
/// `idx`: the character index the failing position stands for; `line`: the failing position's line.
fn classify(src: &[char], idx: usize, line: usize, other: &str) -> String {
    let n = newlines(src);
    if lone_cr_before(src, idx) {
        "c08-lone-cr".into()
    } else if n >= 1 && line == n {
        "c08-last-line".into()
    } else {
        other.into()
    }
}

// ------------------------------------------------------------------------------------------
// plumbing
// ------------------------------------------------------------------------------------------

fn t16(cs: &[char]) -> String {
    cs.iter().map(|c| format!("{}:{}", *c as u32, c.len_utf16())).collect::<Vec<_>>().join(" ")
}
fn cps(cs: &[char]) -> Vec<u32> {
    cs.iter().map(|c| *c as u32).collect()
}
fn pos(l: usize, c: usize) -> Position {
    Position { line: l as u32, character: c as u32 }
}
fn show_pos(p: Position) -> String {
    format!("{} {}", p.line, p.character)
}
fn show_range(r: Range) -> String {
    format!("{} {}", show_pos(r.start), show_pos(r.end))
}
fn join3(a: &str, b: &str, c: &str) -> String {
    format!("{} | {} | {}", a, b, c).trim_end().to_string()
}

/// A rule that reports whatever lints the harness put into it: lets the *real*
/// `DocumentState::generate_diagnostics` / `generate_code_actions` run on chosen lints.
struct Injected(Arc<Mutex<Vec<Lint>>>);
impl Linter for Injected {
    fn lint(&mut self, _document: &Document) -> Vec<Lint> {
        self.0.lock().unwrap().clone()
    }
    fn description(&self) -> &str {
        "injected lints"
    }
}

struct World {
    state: DocumentState,
    slot: Arc<Mutex<Vec<Lint>>>,
    url: Url,
    cfg: CodeActionConfig,
    dict: Arc<FstDictionary>,
}

impl World {
    fn new() -> Self {
        let slot = Arc::new(Mutex::new(vec![]));
        let mut linter = LintGroup::empty();
        linter.add("Injected", Box::new(Injected(slot.clone())));
        linter.config.set_rule_enabled("Injected", true);
        let url = Url::parse("file:///c08.txt").unwrap();
        let state = DocumentState { linter, url: url.clone(), ..Default::default() };
        World { state, slot, url, cfg: CodeActionConfig::default(), dict: FstDictionary::curated() }
    }
    fn set_text(&mut self, text: &[char]) {
        let s: String = text.iter().collect();
        self.state.document = Document::new_plain_english(&s, &self.dict);
    }
}

#[derive(Clone, Copy, PartialEq)]
enum Kind {
    R,
    I,
    D,
}
impl Kind {
    fn letter(self) -> &'static str {
        match self {
            Kind::R => "R",
            Kind::I => "I",
            Kind::D => "D",
        }
    }
    fn sugg(self, repl: &[char]) -> Suggestion {
        match self {
            Kind::R => Suggestion::ReplaceWith(repl.to_vec()),
            Kind::I => Suggestion::InsertAfter(repl.to_vec()),
            Kind::D => Suggestion::Remove,
        }
    }
}
const KINDS: [Kind; 3] = [Kind::R, Kind::I, Kind::D];

fn mk_lint(s: usize, e: usize, suggs: Vec<Suggestion>) -> Lint {
    Lint { span: Span { start: s, end: e }, lint_kind: LintKind::Miscellaneous, suggestions: suggs, message: "m".into(), priority: 1 }
}

/// the `TextEdit`s (in order) among code actions
fn text_edits(actions: &[CodeActionOrCommand], url: &Url) -> Vec<(String, TextEdit)> {
    let mut out = vec![];
    for a in actions {
        if let CodeActionOrCommand::CodeAction(ca) = a {
            if let Some(we) = &ca.edit {
                if let Some(ch) = &we.changes {
                    if let Some(v) = ch.get(url) {
                        for te in v {
                            out.push((ca.title.clone(), te.clone()));
                        }
                    }
                }
            }
        }
    }
    out
}

fn input_json(text: &[char], s: usize, e: usize, repl: &[char], what: &str, idx: usize, p: Option<Position>) -> Value {
    json!({"text": cps(text), "text_str": text.iter().collect::<String>(), "span": [s, e], "repl": cps(repl),
           "check": what, "index": idx, "position": p.map(|p| vec![p.line, p.character])})
}

// ------------------------------------------------------------------------------------------
// K: conversions on a grid
// ------------------------------------------------------------------------------------------

/// `i2p`, `p2i`, `cdec`, `s2r`, `r2s` lines for one text.
fn k_conversions(sess: &mut Session, text: &[char], idxs: &[usize], poss: &[Position], spans: &[(usize, usize)], pairs: &[(Position, Position)]) {
    let t = t16(text);
    for &i in idxs {
        let r = guarded(|| span_to_range(text, Span { start: i, end: i }).start);
        let imp = match r {
            Ok(p) => format!("ok {}", show_pos(p)),
            Err(_) => "panic".into(),
        };
        sess.k(&format!("i2p {} | {}", i, t).trim_end(), &imp);
        if i > text.len() {
            sess.count("i2p:oob");
        }
    }
    for &p in poss {
        let r = guarded(|| range_to_span(text, Range { start: p, end: p }).start);
        let imp = match r {
            Ok(i) => format!("ok {}", i),
            Err(_) => "panic".into(),
        };
        sess.k(&format!("p2i {} | {}", show_pos(p), t).trim_end(), &imp);
        // the harness's client against the Lean client (oracle cross-check)
        sess.k(&format!("cdec {} | {}", show_pos(p), t).trim_end(), &format!("ok {}", client_offset(text, p)));
    }
    for &(s, e) in spans {
        let r = guarded(|| span_to_range(text, Span { start: s, end: e }));
        let imp = match r {
            Ok(r) => format!("ok {}", show_range(r)),
            Err(_) => "panic".into(),
        };
        sess.k(&format!("s2r {} {} | {}", s, e, t).trim_end(), &imp);
    }
    for &(a, b) in pairs {
        let r = guarded(|| range_to_span(text, Range { start: a, end: b }));
        let imp = match &r {
            Ok(sp) => format!("ok {} {}", sp.start, sp.end),
            Err(_) => "panic".into(),
        };
        if r.is_err() {
            sess.count("r2s:panic");
            sess.nontrivial(&format!("r2s-panic {} {} {}", show_pos(a), show_pos(b), t));
        }
        sess.k(&format!("r2s {} {} | {}", show_pos(a), show_pos(b), t).trim_end(), &imp);
    }
}

// ------------------------------------------------------------------------------------------
// K + O for one (text, span, replacement): range, edits, code-action selection
// ------------------------------------------------------------------------------------------

struct Opts {
    /// emit K lines (false: oracle only)
    k: bool,
    /// also try range requests (start inside, end = span end) and not only carets
    ranges: bool,
}

fn eval_span(sess: &mut Session, w: &mut World, text: &[char], s: usize, e: usize, repl: &[char], o: &Opts) {
    let t = t16(text);
    let n = text.len();
    let in_bounds = s <= e && e <= n;
    let span = Span { start: s, end: e };
    let lone = lone_cr_before(text, e);
    if lone {
        sess.count("span:after-lone-cr");
    }

    // ---- the three TextEdits straight from the real lint_to_code_actions (K) ----
    let mut real_edits: Vec<Option<TextEdit>> = vec![];
    for k in KINDS {
        let lint = mk_lint(s, e, vec![k.sugg(repl)]);
        let r = guarded(|| lint_to_code_actions(&lint, &w.url, &w.state.document, &w.cfg));
        let (imp, te) = match &r {
            Ok(acts) => {
                let tes = text_edits(acts, &w.url);
                if tes.len() == 1 {
                    let te = tes[0].1.clone();
                    let nt: Vec<char> = te.new_text.chars().collect();
                    (format!("ok {} | {}", show_range(te.range), chars_field(&nt)).trim_end().to_string(), Some(te))
                } else {
                    (format!("err {}-edits", tes.len()), None)
                }
            }
            Err(_) => ("panic".to_string(), None),
        };
        let rp: &[char] = if k == Kind::D { &[] } else { repl };
        if o.k {
            sess.k(&join3(&format!("edit {} {} {}", k.letter(), s, e), &t, &chars_field(rp)), &imp);
        }
        if in_bounds && te.is_none() {
            sess.fail("panic", format!("lint_to_code_actions failed for an in-bounds span: {}", imp),
                input_json(text, s, e, repl, "edit", s, None), None);
        }
        real_edits.push(te);
    }
    if !in_bounds {
        sess.count("span:oob");
        return;
    }

    // ---- real Suggestion::apply (K against the splice; reference for O) ----
    let mut applied: Vec<Vec<char>> = vec![];
    for k in KINDS {
        let mut v = text.to_vec();
        let sg = k.sugg(repl);
        let r = guarded(|| sg.apply(span, &mut v));
        let rp: &[char] = if k == Kind::D { &[] } else { repl };
        let imp = match r {
            Ok(()) => format!("ok {}", chars_field(&v)).trim_end().to_string(),
            Err(_) => "panic".into(),
        };
        if o.k {
            sess.k(&join3(&format!("sapply {} {} {}", k.letter(), s, e), &t, &chars_field(rp)), &imp);
        }
        applied.push(v);
    }

    // ---- O1: through the real generate_diagnostics: the range read by a client is the span ----
    *w.slot.lock().unwrap() = vec![mk_lint(s, e, KINDS.iter().map(|k| k.sugg(repl)).collect())];
    let diags = guarded(|| w.state.generate_diagnostics(DiagnosticSeverity::Hint));
    sess.o();
    let mut addressable = true;
    match &diags {
        Ok(d) if d.len() == 1 => {
            let r = d[0].range;
            if real_edits.iter().flatten().any(|te| te.range != r) {
                sess.fail("edit-range-differs", "a TextEdit's range differs from the diagnostic's".into(),
                    input_json(text, s, e, repl, "diag", s, None), None);
            }
            for (which, idx, p) in [("start", s, r.start), ("end", e, r.end)] {
                if inside_crlf(text, idx) {
                    // not a client position; lints never end there (monitored on real lints below)
                    sess.count("boundary:inside-crlf-skipped");
                    addressable = false;
                    continue;
                }
                let got = client_offset(text, p);
                if got != idx {
                    let class = if lone_cr_before(text, idx) { "c08-lone-cr" } else { "range-misplaced" };
                    if class == "c08-lone-cr" {
                        addressable = false;
                    }
                    sess.fail(class, format!("diagnostic range {} ({}) read by a client is character {}, the lint's is {}", which, show_pos(p), got, idx),
                        input_json(text, s, e, repl, "diag", idx, Some(p)), None);
                }
            }
        }
        Ok(d) => sess.fail("diag-count", format!("{} diagnostics for one lint", d.len()), input_json(text, s, e, repl, "diag", s, None), None),
        Err(m) => sess.fail("panic", format!("generate_diagnostics panicked: {}", m), input_json(text, s, e, repl, "diag", s, None), None),
    }

    // ---- O2: every TextEdit applied by a client = Suggestion::apply; K: capply ----
    for (ki, k) in KINDS.iter().enumerate() {
        let Some(te) = &real_edits[ki] else { continue };
        let got = client_apply(text, te);
        if o.k {
            let nt: Vec<char> = te.new_text.chars().collect();
            sess.k(&join3(&format!("capply {}", show_range(te.range)), &t, &chars_field(&nt)),
                &format!("ok {}", chars_field(&got)).trim_end());
        }
        sess.o();
        if !addressable {
            continue;
        }
        if got != applied[ki] {
            sess.fail("edit-differs", format!("{} edit applied by a client gives {:?}, Suggestion::apply gives {:?}", k.letter(),
                got.iter().collect::<String>(), applied[ki].iter().collect::<String>()),
                input_json(text, s, e, repl, "edit", s, None), None);
        }
    }

    // ---- O3 + K `sel`: code actions at every client position inside [s, e) ----
    if s == e {
        return;
    }
    let lint_span = Span { start: s, end: e };
    for i in s..e {
        let Some(p) = client_encode(text, i) else {
            sess.count("caret:inside-crlf-skipped");
            continue;
        };
        let mut reqs = vec![(Range { start: p, end: p }, i)];
        if o.ranges {
            if let Some(q) = client_encode(text, e) {
                if q != p {
                    reqs.push((Range { start: p, end: q }, e));
                }
            }
        }
        for (req, end_idx) in reqs {
            // K: the filter of generate_code_actions, replicated with the real functions
            let sel = guarded(|| lint_span.overlaps_with(range_to_span(text, req).with_len(1)));
            if o.k {
                let imp = match &sel {
                    Ok(true) => "ok 1".to_string(),
                    Ok(false) => "ok 0".to_string(),
                    Err(_) => "panic".to_string(),
                };
                sess.k(&format!("sel {} {} {} | {}", show_range(req), s, e, t).trim_end(), &imp);
            }
            // O: the real generate_code_actions
            let acts = guarded(|| w.state.generate_code_actions(req, &w.cfg));
            sess.o();
            // a failing range request may be caused by either end
            let class_of = |other: &str| {
                let c = classify(text, i, p.line as usize, other);
                if c == other && req.start != req.end { classify(text, end_idx, req.end.line as usize, other) } else { c }
            };
            match acts {
                Err(m) => {
                    let class = class_of("code-action-panic");
                    sess.count("actions:request-panicked");
                    sess.fail(&class, format!("generate_code_actions({}) panicked: {}", show_range(req), m),
                        input_json(text, s, e, repl, "actions", i, Some(p)), None);
                    if sel.is_ok() {
                        sess.fail("filter-replica-differs", "generate_code_actions panicked, its replicated filter did not".into(),
                            input_json(text, s, e, repl, "actions", i, Some(p)), None);
                    }
                }
                Ok(acts) => {
                    let tes = text_edits(&acts, &w.url);
                    let found = tes.len() == 3
                        && KINDS.iter().enumerate().all(|(ki, k)| {
                            tes[ki].0 == k.sugg(repl).to_string() && Some(&tes[ki].1) == real_edits[ki].as_ref()
                        });
                    if sel.as_ref().ok().copied() != Some(!tes.is_empty()) {
                        sess.fail("filter-replica-differs", format!("generate_code_actions found={} but its replicated filter says {:?}", found, sel),
                            input_json(text, s, e, repl, "actions", i, Some(p)), None);
                    }
                    if !found {
                        let class = class_of("code-action-missed");
                        sess.fail(&class, format!("code actions requested at {} (character {}) inside the lint [{},{}) do not contain its fixes ({} edits returned)",
                            show_range(req), i, s, e, tes.len()),
                            input_json(text, s, e, repl, "actions", i, Some(p)), None);
                    } else {
                        sess.count("actions:found");
                    }
                }
            }
        }
    }
}

// ------------------------------------------------------------------------------------------
// generators
// ------------------------------------------------------------------------------------------

fn grid(max_line: usize, max_col: usize) -> Vec<Position> {
    let mut v = vec![];
    for l in 0..=max_line {
        for c in 0..=max_col {
            v.push(pos(l, c));
        }
    }
    v
}

fn eval_text_exhaustive(sess: &mut Session, w: &mut World, text: &[char]) {
    let n = text.len();
    let idxs: Vec<usize> = (0..=n + 1).collect();
    let poss = grid(4, 8);
    let mut spans = vec![];
    for s in 0..=n + 1 {
        for e in s..=n + 1 {
            spans.push((s, e));
        }
    }
    let small = grid(2, 2);
    let mut pairs = vec![];
    for a in &small {
        for b in &small {
            pairs.push((*a, *b));
        }
    }
    k_conversions(sess, text, &idxs, &poss, &spans, &pairs);
    w.set_text(text);
    let repl = ['x', '😀'];
    let o = Opts { k: true, ranges: true };
    for &(s, e) in &spans {
        if s > n {
            continue;
        }
        eval_span(sess, w, text, s, e, &repl, &o);
    }
    let nl = newlines(text);
    sess.count(&format!("exh:newlines:{}", nl));
    if text.contains(&'\r') {
        sess.count("exh:with-cr");
    }
    if nl >= 1 || text.contains(&'😀') {
        sess.nontrivial(&t16(text));
    }
}

const POOL: &[&str] = &[
    "a", "b", "The", "quick", " ", " ", " ", ".", ",", "\n", "\n", "\r\n", "\r\n", "\t", "😀", "𝒳", "e\u{301}", "\u{301}",
    "👩\u{200d}💻", "é", "ß", "日本", "\u{feff}", "\u{2028}", "\u{85}", "\u{b}", "\u{c}", "teh", "an apple", "\n\n", "  ",
];

fn random_text(rng: &mut Rng, lone_cr: bool) -> Vec<char> {
    let pieces = rng.range(0, 40);
    let mut s = String::new();
    for _ in 0..pieces {
        if lone_cr && rng.chance(1, 10) {
            s.push('\r');
        } else {
            s.push_str(*rng.pick(POOL));
        }
    }
    s.chars().collect()
}

fn eval_text_random(sess: &mut Session, w: &mut World, rng: &mut Rng, text: &[char]) {
    let n = text.len();
    let mut idxs: Vec<usize> = (0..6).map(|_| rng.below(n + 1)).collect();
    idxs.push(n);
    idxs.push(n + 1 + rng.below(3));
    let nl = newlines(text);
    let mut poss = vec![];
    for _ in 0..8 {
        poss.push(pos(rng.below(nl + 3), rng.below(12)));
    }
    // positions that are encodings of real indices (the interesting ones)
    for _ in 0..6 {
        if let Some(p) = client_encode(text, rng.below(n + 1)) {
            poss.push(p);
        }
    }
    let mut spans = vec![];
    for _ in 0..6 {
        let s = rng.below(n + 1);
        let e = (s + rng.below(8)).min(n + 1);
        spans.push((s, e));
    }
    let mut pairs = vec![];
    for _ in 0..6 {
        pairs.push((*rng.pick(&poss), *rng.pick(&poss)));
    }
    k_conversions(sess, text, &idxs, &poss, &spans, &pairs);
    w.set_text(text);
    let repls: [&[char]; 4] = [&[], &['x'], &['😀', '\n', 'y'], &['\r', '\n']];
    let o = Opts { k: true, ranges: true };
    for &(s, e) in &spans {
        let repl = *rng.pick(&repls);
        eval_span(sess, w, text, s, e, repl, &o);
    }
    sess.count(&format!("rand:len:{}", (n / 25) * 25));
    sess.nontrivial(&t16(text));
}

/// real rules on real sentences: diagnostics vs lints, code actions at every position inside
fn eval_real(sess: &mut Session, rw: &mut DocumentState, text: &str) {
    let dict = FstDictionary::curated();
    rw.document = Document::new_plain_english(text, &dict);
    let src: Vec<char> = text.chars().collect();
    let lints = match guarded(|| rw.linter.lint(&rw.document)) {
        Ok(l) => l,
        Err(_) => {
            sess.count("real:lint-panicked(C01)");
            return;
        }
    };
    let diags = match guarded(|| rw.generate_diagnostics(DiagnosticSeverity::Hint)) {
        Ok(d) => d,
        Err(_) => return,
    };
    let inp = |i: usize, s: usize, e: usize, p: Option<Position>| input_json(&src, s, e, &[], "real", i, p);
    if diags.len() != lints.len() {
        sess.fail("diag-count", format!("{} diagnostics for {} lints", diags.len(), lints.len()), inp(0, 0, 0, None), None);
        return;
    }
    sess.count(&format!("real:lints:{}", lints.len().min(5)));
    let cfg = CodeActionConfig::default();
    for (lint, d) in lints.iter().zip(diags.iter()) {
        let (s, e) = (lint.span.start, lint.span.end);
        sess.monitor("real lint spans lie in the text, start ≤ end", s <= e && e <= src.len());
        sess.monitor("real lint boundaries are never between \\r and \\n", !inside_crlf(&src, s) && !inside_crlf(&src, e));
        if !(s <= e && e <= src.len()) || inside_crlf(&src, s) || inside_crlf(&src, e) {
            continue;
        }
        sess.o();
        for (which, idx, p) in [("start", s, d.range.start), ("end", e, d.range.end)] {
            let got = client_offset(&src, p);
            if got != idx {
                let class = if lone_cr_before(&src, idx) { "c08-lone-cr" } else { "range-misplaced" };
                sess.fail(class, format!("diagnostic range {} ({}) read by a client is character {}, the lint's is {}", which, show_pos(p), got, idx), inp(idx, s, e, Some(p)), None);
            }
        }
        for i in s..e {
            let Some(p) = client_encode(&src, i) else { continue };
            let req = Range { start: p, end: p };
            sess.o();
            match guarded(|| rw.generate_code_actions(req, &cfg)) {
                Err(m) => {
                    let class = classify(&src, i, p.line as usize, "code-action-panic");
                    sess.fail(&class, format!("generate_code_actions({}) panicked: {}", show_range(req), m), inp(i, s, e, Some(p)), None);
                }
                Ok(acts) => {
                    let tes = text_edits(&acts, &rw.url);
                    let mut ok = true;
                    for sg in &lint.suggestions {
                        let mut want = src.clone();
                        if guarded(|| sg.apply(lint.span, &mut want)).is_err() {
                            continue;
                        }
                        let title = sg.to_string();
                        if !tes.iter().any(|(t, te)| *t == title && client_apply(&src, te) == want) {
                            ok = false;
                        }
                    }
                    if ok {
                        sess.count("real:actions-found");
                    } else {
                        let class = classify(&src, i, p.line as usize, "code-action-missed");
                        sess.fail(&class, format!("code actions at {} (character {}) inside real lint [{},{}) lack one of its fixes, or the fix applied by a client differs from Suggestion::apply", show_pos(p), i, s, e), inp(i, s, e, Some(p)), None);
                    }
                }
            }
        }
    }
}

/// texts for the Backend stream: rule-test sentences behind prefixes that an editor buffer can
/// start with (a byte-order mark, an astral character, an empty line, CRLF) — the server must
/// interpret positions against exactly the text the client sent
fn backend_texts(rng: &mut Rng, n: usize) -> Vec<String> {
    let sents = crate::corpus::sentences();
    let mut v: Vec<String> = vec![
        "\u{feff}Ths is a test.\nThe secnd line is here.\n".into(),
        "\u{feff}\u{feff}Ths is a test.\n".into(),
        "Ths is\u{feff} a tset.\nMore text.\n".into(),
        "😀 Ths is a test.\r\nThe secnd line.\r\n".into(),
        "\nThs is a test.\n".into(),
        "\u{feff}\r\nThs is a test.\r\n".into(),
        "\u{feff}# Ths is a tset\n\nThe secnd line is here.\n".into(),
    ];
    const PRE: &[&str] = &["", "\u{feff}", "", "😀 ", "\u{feff}", "\r\n", "\u{feff} ", "é\u{301} ", "\t", "\u{feff}\n"];
    for i in 0..n {
        let k = rng.range(1, 3);
        let mut t = PRE[i % PRE.len()].to_string();
        for j in 0..k {
            if j > 0 {
                t.push_str(*rng.pick(&["\n", "\r\n", " ", " 😀 ", "\n\n"]));
            }
            t.push_str(&sents[rng.below(sents.len())]);
        }
        t.push_str(*rng.pick(&["\n", "\r\n", "\nok\n"]));
        v.push(t);
    }
    v
}

/// One document through the REAL `Backend` (in process, over the LSP wire format): `didOpen` with
/// `text`, then the published diagnostics read the way a client reads them must be the lints
/// harper-core reports for that very text, and the quick fixes requested at every position of a
/// flagged range, applied by a client to ITS text, must equal `Suggestion::apply`.
fn eval_backend(sess: &mut Session, ls: &mut LsSession, n: usize, lang: &str, text: &str) -> Result<(), LsError> {
    let cfg = json!({"harper-ls": {}});
    let uri = format!("file:///c08-backend/doc{}.{}", n, if lang == "markdown" { "md" } else { "txt" });
    let url = Url::parse(&uri).unwrap();
    let src: Vec<char> = text.chars().collect();
    ls.notify("textDocument/didOpen", did_open(&uri, lang, text))?;
    ls.quiesce(&cfg)?;
    let inp = |i: usize, s: usize, e: usize, p: Option<Position>| {
        let mut v = input_json(&src, s, e, &[], "backend", i, p);
        v["lang"] = json!(lang);
        v
    };
    let Some(publ) = ls.last_publication(&uri).cloned() else {
        sess.fail("no-publication", "didOpen was not answered by a publishDiagnostics".into(), inp(0, 0, 0, None), None);
        return Ok(());
    };
    let diags: Vec<Diagnostic> = serde_json::from_value(publ.clone()).unwrap_or_default();
    // what harper-core says about the client's text (default server configuration: curated rules,
    // American, empty user and file dictionaries)
    let dict = FstDictionary::curated();
    let lints = match guarded(|| {
        let doc = if lang == "markdown" { Document::new_markdown_default(text, &dict) } else { Document::new_plain_english(text, &dict) };
        let mut g = LintGroup::new_curated(dict.clone(), Dialect::American);
        g.config.fill_with_curated();
        g.lint(&doc)
    }) {
        Ok(l) => l,
        Err(_) => {
            sess.count("backend:lint-panicked(C01)");
            let _ = ls.notify("textDocument/didClose", did_close(&uri));
            return Ok(());
        }
    };
    sess.count(&format!("backend:lints:{}", lints.len().min(5)));
    sess.count(if text.starts_with('\u{feff}') { "backend:starts-with-BOM" } else { "backend:no-BOM" });
    let last_line_start = src.iter().rposition(|c| *c == '\n').map(|i| i + 1).unwrap_or(0);
    let mut want: Vec<(usize, usize, String)> = lints.iter().map(|l| (l.span.start, l.span.end, l.message.clone())).collect();
    let mut got: Vec<(usize, usize, String)> = diags.iter().map(|d| (client_offset(&src, d.range.start), client_offset(&src, d.range.end), d.message.clone())).collect();
    want.sort();
    got.sort();
    sess.o();
    if want != got {
        let miss = want.iter().find(|w| !got.contains(w)).or(got.iter().find(|g| !want.contains(g))).cloned().unwrap_or_default();
        let known_shape = src.iter().any(|c| *c == '\r') && src.windows(2).any(|w| w[0] == '\r' && w[1] != '\n') || (src.contains(&'\n') && (miss.0 >= last_line_start || miss.1 >= last_line_start));
        let class = if known_shape { classify(&src, miss.1, src[..miss.1.min(src.len())].iter().filter(|c| **c == '\n').count(), "range-misplaced") } else { "range-misplaced".to_string() };
        sess.fail(
            &class,
            format!("through the real Backend: the diagnostics a client reads ({:?}) are not harper-core's lints for the text it sent ({:?})", got.iter().take(4).collect::<Vec<_>>(), want.iter().take(4).collect::<Vec<_>>()),
            inp(miss.0, miss.0, miss.1, None),
            None,
        );
    } else {
        sess.nontrivial(&format!("backend|{}", text));
        // quick fixes at every position inside every flagged range
        for lint in &lints {
            let (s, e) = (lint.span.start, lint.span.end);
            if !(s <= e && e <= src.len()) || inside_crlf(&src, s) || inside_crlf(&src, e) {
                continue;
            }
            for i in s..e {
                let Some(p) = client_encode(&src, i) else { continue };
                let params = json!({"textDocument": {"uri": uri}, "range": {"start": {"line": p.line, "character": p.character}, "end": {"line": p.line, "character": p.character}}, "context": {"diagnostics": []}});
                let resp = ls.request_sync("textDocument/codeAction", params, &cfg)?;
                sess.o();
                let acts: Vec<CodeActionOrCommand> = serde_json::from_value(resp["result"].clone()).unwrap_or_default();
                let tes = text_edits(&acts, &url);
                let mut ok = resp.get("error").is_none();
                for sg in &lint.suggestions {
                    let mut w = src.clone();
                    if guarded(|| sg.apply(lint.span, &mut w)).is_err() {
                        continue;
                    }
                    let title = sg.to_string();
                    if !tes.iter().any(|(t, te)| *t == title && client_apply(&src, te) == w) {
                        ok = false;
                    }
                }
                if ok {
                    sess.count("backend:actions-found");
                } else {
                    let class = classify(&src, i, p.line as usize, "code-action-missed");
                    sess.fail(&class, format!("through the real Backend: code actions at {} (character {}) inside lint [{},{}) lack one of its fixes, answer with an error, or the fix applied by a client differs from Suggestion::apply", show_pos(p), i, s, e), inp(i, s, e, Some(p)), None);
                }
            }
        }
    }
    ls.notify("textDocument/didClose", did_close(&uri))?;
    Ok(())
}

fn run_backend(sess: &mut Session, ctx: &Ctx, texts: &[(String, String)]) {
    set_home(&ctx.out.join("c08-home"));
    let cfg = json!({"harper-ls": {}});
    let r: Result<(), LsError> = (|| {
        let mut ls = LsSession::start()?;
        ls.initialize(&cfg)?;
        for (n, (lang, t)) in texts.iter().enumerate() {
            eval_backend(sess, &mut ls, n, lang, t)?;
        }
        ls.shutdown(&cfg)?;
        Ok(())
    })();
    sess.monitor("the in-process language server completed the C08 session", r.is_ok());
    if let Err(e) = r {
        sess.count(&format!("backend:session-error:{}", e.to_string().chars().take(60).collect::<String>()));
    }
}

pub fn run(ctx: &Ctx) {
    // Config::default() of harper-ls (not used here) and dirs: keep everything inside a temp HOME
    let mut sess = Session::new(ctx);
    let mut rng = Rng::new(ctx.seed);
    let mut w = World::new();

    if let Some(v) = replay_input(ctx) {
        let text: Vec<char> = v["text"].as_array().map(|a| a.iter().filter_map(|x| x.as_u64().and_then(|u| char::from_u32(u as u32))).collect()).unwrap_or_default();
        let repl: Vec<char> = v["repl"].as_array().map(|a| a.iter().filter_map(|x| x.as_u64().and_then(|u| char::from_u32(u as u32))).collect()).unwrap_or_default();
        let s = v["span"][0].as_u64().unwrap_or(0) as usize;
        let e = v["span"][1].as_u64().unwrap_or(0) as usize;
        w.set_text(&text);
        if v["check"] == "backend-lang" {
            // (w25) one document of the all-languages Backend stream
            let t: String = text.iter().collect();
            let lang = v["lang"].as_str().unwrap_or("plaintext").to_string();
            let lints = lints_for_lang(&lang, &t).unwrap_or_default();
            let via_change = v["via_change"].as_bool().unwrap_or(false);
            let docs = vec![LangDoc { uri: format!("file:///c08-backend-lang/replay.{}", lang.replace(' ', "_")), lang, text: t, lints, via_change }];
            run_backend_langs(&mut sess, ctx, docs);
        } else if v["check"] == "backend" {
            let t: String = text.iter().collect();
            run_backend(&mut sess, ctx, &[(v["lang"].as_str().unwrap_or("plaintext").to_string(), t)]);
        } else if v["check"] == "real" {
            let mut rw = real_world();
            eval_real(&mut sess, &mut rw, &text.iter().collect::<String>());
        } else {
            eval_span(&mut sess, &mut w, &text, s, e, &repl, &Opts { k: true, ranges: true });
        }
        sess.nontrivial("replay-a");
        sess.nontrivial("replay-b");
        sess.finish("replay of one recorded input", false, json!({}));
        return;
    }

    // 1. corpus: the pinned unit tests' texts and the witnesses of the recorded findings
    let corpus: Vec<(&str, usize, usize)> = vec![
        ("First line.\nSecnd line", 12, 17), // c08-last-line witness: index 12 ↦ (1,0) ↦ 0
        ("Hello thur\n", 6, 10),             // issue_250
        ("This is a short test\n", 16, 20),  // end_of_line
        ("This is a short test", 16, 20),    // end_of_file
        ("There was a man,\n his voice had timbre,\n unlike a boy.", 18, 21),
        ("ab\ncd", 1, 4),                    // c08-last-line: request (0,2)-(1,0)/(1,1) panics in Span::new
        ("a\rb", 2, 3),                      // c08-lone-cr witness
        ("ab\r\ncd\r\nef", 4, 6),
        ("x😀y\n😀z\n", 5, 7),
        ("", 0, 0),
        ("\n", 0, 1),
    ];
    for (t, s, e) in &corpus {
        let text: Vec<char> = t.chars().collect();
        let n = text.len();
        let idxs: Vec<usize> = (0..=n + 1).collect();
        let poss = grid(3, 22);
        k_conversions(&mut sess, &text, &idxs, &poss, &[(*s, *e), (0, n), (n, n)], &[(pos(0, 2), pos(1, 0)), (pos(1, 9), pos(1, 10))]);
        w.set_text(&text);
        eval_span(&mut sess, &mut w, &text, *s, *e, &['F', 'i', 'x'], &Opts { k: true, ranges: true });
        sess.count("origin:corpus");
    }

    // 2. exhaustive small scope: every text of length ≤ 5 (quick) / ≤ 6 (thorough) over {a, 😀, \n, \r}
    let alphabet = ['a', '😀', '\n', '\r'];
    let maxlen = if ctx.tier == Tier::Thorough { 6 } else { 5 };
    for len in 0..=maxlen {
        let total = alphabet.len().pow(len as u32);
        for code in 0..total {
            let mut c = code;
            let mut text = Vec::with_capacity(len);
            for _ in 0..len {
                text.push(alphabet[c % 4]);
                c /= 4;
            }
            eval_text_exhaustive(&mut sess, &mut w, &text);
            sess.count("origin:exhaustive");
        }
    }

    // 3. random long texts: astral / combining characters, ZWJ sequences, tabs, CRLF, other
    //    Unicode line separators (which LSP does not treat as line ends); 1 in 8 with lone \r
    let nrand = if ctx.tier == Tier::Thorough { 20000 } else { 1200 };
    for i in 0..nrand {
        let text = random_text(&mut rng, i % 8 == 0);
        eval_text_random(&mut sess, &mut w, &mut rng, &text);
        sess.count("origin:random");
    }

    // 4. the real rules on the rule tests' own sentences, joined with \n / \r\n, with astral
    //    characters spliced in: diagnostics ↔ lints ↔ code actions through the real DocumentState
    let mut rw = real_world();
    let sents = crate::corpus::sentences();
    let nreal = if ctx.tier == Tier::Thorough { 3000 } else { 250 };
    for i in 0..nreal {
        let k = rng.range(1, 3);
        let mut text = String::new();
        for j in 0..k {
            if j > 0 {
                text.push_str(*rng.pick(&["\n", "\r\n", "\n\n", " ", " 😀 "]));
            }
            text.push_str(&sents[rng.below(sents.len())]);
        }
        if rng.chance(1, 2) {
            text.push_str(*rng.pick(&["\n", "\r\n"]));
        }
        if i < 2 {
            sess.sample(json!({"real_text": text}));
        }
        eval_real(&mut sess, &mut rw, &text);
        sess.count("origin:real");
    }

    // 5. the same through the real Backend over the wire format (didOpen → publishDiagnostics →
    //    codeAction), on texts that begin with a byte-order mark, an astral character, CRLF
    let nb = if ctx.tier == Tier::Thorough { 400 } else { 50 };
    let texts: Vec<(String, String)> = backend_texts(&mut rng, nb).into_iter().enumerate().map(|(i, t)| ((if t.contains("# ") || i % 7 == 6 { "markdown" } else { "plaintext" }).to_string(), t)).collect();
    run_backend(&mut sess, ctx, &texts);

    // 6. (w25) the same over every language id, several documents open at once
    let per = if ctx.tier == Tier::Thorough { 16 } else { 4 };
    let docs = lang_docs(&mut rng, per, &mut sess);
    run_backend_langs(&mut sess, ctx, docs);

    sess.finish(
        "corpus (pinned unit-test texts, finding witnesses); every text of length ≤5 (quick) / ≤6 (thorough) over {a, 😀, \\n, \\r} × every index (one out of bounds) × every position with line ≤4, col ≤8 × every span (incl. out of bounds) × 3 suggestion kinds × every caret and caret-to-end request inside the span; random texts of 0–40 pieces with astral/combining/ZWJ characters, tabs, CRLF, Unicode line separators (1 in 8 with lone \\r); real curated rules on rule-test sentences joined by \\n / \\r\\n; the same through the real Backend (didOpen → publishDiagnostics → codeAction at every flagged position) on texts beginning with a byte-order mark / astral character / CRLF. Non-trivial = text with a newline or a non-BMP character (exhaustive), every random text; distinct by text.",
        true,
        json!({"exhaustive_scope": format!("texts of length ≤{} over {{a, U+1F600, LF, CR}}", maxlen)}),
    );
}

fn real_world() -> DocumentState {
    let dict = FstDictionary::curated();
    let mut linter = LintGroup::new_curated(dict, Dialect::American);
    linter.config.fill_with_curated();
    DocumentState { linter, url: Url::parse("file:///c08.txt").unwrap(), ..Default::default() }
}

// ------------------------------------------------------------------------------------------
// (w25) the Backend stream over EVERY language id (the property quantifies over them; the stream
// above only opens plaintext and Markdown documents), with all documents of a batch open at the
// same time, half of the prose documents installed by didChange over a decoy text, and
// `codeActions.ForceStable` switched on for every other batch
// ------------------------------------------------------------------------------------------

/// harper-core's lints for `text` opened as `lang` under the default server configuration (curated
/// rules, American, empty user / file dictionaries; a source file's own identifiers accepted)
fn lints_for_lang(lang: &str, text: &str) -> Option<Vec<Lint>> {
    use harper_core::parsers::{CollapseIdentifiers, MarkdownOptions, Parser};
    use harper_core::{MergedDictionary, MutableDictionary};
    let md = MarkdownOptions::default();
    let source: Vec<char> = text.chars().collect();
    let mut dict = MergedDictionary::new();
    dict.add_dictionary(FstDictionary::curated());
    dict.add_dictionary(Arc::new(MutableDictionary::new()));
    dict.add_dictionary(Arc::new(MutableDictionary::new()));
    let ident = if let Some(ts) = harper_comments::CommentParser::new_from_language_id(lang, md) {
        ts.create_ident_dict(&source)
    } else if matches!(lang, "literate haskell" | "lhaskell") {
        harper_literate_haskell::LiterateHaskellParser::new_markdown(md).create_ident_dict(&source, md)
    } else {
        None
    };
    let collapse = ident.is_some();
    if let Some(id) = ident {
        dict.add_dictionary(Arc::new(id));
    }
    let dict = Arc::new(dict);
    let mut parser: Box<dyn Parser> = crate::frontends::parser_for(lang, false)?;
    if collapse {
        parser = Box::new(CollapseIdentifiers::new(parser, Box::new(dict.clone())));
    }
    let doc = Document::new(text, &parser, &dict);
    let mut g = LintGroup::new_curated(dict.clone(), Dialect::American);
    g.config.fill_with_curated();
    Some(g.lint(&doc))
}

struct LangDoc {
    lang: String,
    uri: String,
    text: String,
    lints: Vec<Lint>,
    /// installed by didChange over a decoy text (prose languages only)
    via_change: bool,
}

/// the documents of the stream: every language id × `per` texts (rule-test sentences, some with an
/// astral / combining prefix, embedded the way `frontends::embed` writes a file of that language)
fn lang_docs(rng: &mut Rng, per: usize, sess: &mut Session) -> Vec<LangDoc> {
    let sents = crate::corpus::sentences();
    let mut out = vec![];
    // tree-sitter-dart can hang (recorded under C01); the server has no watchdog
    for (li, lang) in crate::frontends::language_ids().into_iter().filter(|l| l != "dart").enumerate() {
        // tree-sitter documents are never changed: the second update drops the identifier dictionary
        // (C09's `c09-ident-dict-dropped`), which may add lints
        let tree_sitter = harper_comments::CommentParser::new_from_language_id(&lang, Default::default()).is_some() || lang.contains("haskell");
        for j in 0..per {
            let via_change = !tree_sitter && j % 2 == 1;
            let mut prose = String::new();
            prose.push_str(*rng.pick(&["", "😀 ", "e\u{301}é ", "ａｂ ", ""]));
            prose.push_str(&sents[rng.below(sents.len())]);
            if via_change || rng.chance(1, 2) {
                prose.push_str(if via_change { "\r\n" } else { *rng.pick(&["\n", " 𝒳 ", "\r\n"]) });
                prose.push_str(&sents[rng.below(sents.len())]);
            }
            let mut text = crate::frontends::embed(&lang, &prose, li + j + rng.below(4));
            if via_change && j % 4 == 1 {
                // what an editor buffer can start with
                text.insert(0, '\u{feff}');
            }
            let t2 = text.clone();
            let l2 = lang.clone();
            let lints = match guarded(move || lints_for_lang(&l2, &t2)) {
                Ok(Some(l)) => l,
                Ok(None) => continue,
                Err(_) => {
                    sess.count("backend-lang:lint-panicked(C01)");
                    continue;
                }
            };
            let ext = lang.replace(' ', "_");
            out.push(LangDoc { uri: format!("file:///c08-backend-lang/d{}-{}.{}", li, j, ext), lang: lang.clone(), text, lints, via_change });
        }
    }
    out
}

/// One batch through the real `Backend`: all documents opened first (several documents open at
/// once), then every document's published diagnostics and the code actions at every position of
/// every flagged range are read the way a client reads them.
fn eval_backend_langs(sess: &mut Session, ls: &mut LsSession, docs: &[LangDoc], force_stable: bool) -> Result<(), LsError> {
    let cfg = json!({"harper-ls": {"codeActions": {"ForceStable": force_stable}}});
    for d in docs.iter() {
        if d.via_change {
            ls.notify("textDocument/didOpen", did_open(&d.uri, &d.lang, "\u{feff}😀😀 Decoy txet on anothr line.\r\n\r\n"))?;
            ls.quiesce(&cfg)?;
            ls.notify("textDocument/didChange", json!({"textDocument": {"uri": d.uri, "version": 2}, "contentChanges": [{"text": d.text}]}))?;
            sess.count("backend-lang:installed-by-didChange");
        } else {
            ls.notify("textDocument/didOpen", did_open(&d.uri, &d.lang, &d.text))?;
        }
        ls.quiesce(&cfg)?;
    }
    for d in docs {
        let src: Vec<char> = d.text.chars().collect();
        let url = Url::parse(&d.uri).unwrap();
        let inp = |i: usize, s: usize, e: usize, p: Option<Position>| {
            let mut v = input_json(&src, s, e, &[], "backend-lang", i, p);
            v["lang"] = json!(d.lang);
            v["force_stable"] = json!(force_stable);
            v["via_change"] = json!(d.via_change);
            v
        };
        sess.count(&format!("backend-lang:{}", d.lang));
        sess.count(&format!("backend-lang:lints:{}", d.lints.len().min(5)));
        if src.iter().any(|c| c.len_utf16() == 2) {
            sess.count("backend-lang:astral-in-text");
        }
        if d.text.contains("\r\n") {
            sess.count("backend-lang:crlf-in-text");
        }
        if d.text.starts_with('\u{feff}') {
            sess.count("backend-lang:starts-with-BOM");
        }
        let Some(publ) = ls.last_publication(&d.uri).cloned() else {
            sess.fail("no-publication", format!("didOpen of a {} document was not answered by a publishDiagnostics", d.lang), inp(0, 0, 0, None), None);
            continue;
        };
        let diags: Vec<Diagnostic> = serde_json::from_value(publ).unwrap_or_default();
        let last_line_start = src.iter().rposition(|c| *c == '\n').map(|i| i + 1).unwrap_or(0);
        let mut want: Vec<(usize, usize, String)> = d.lints.iter().map(|l| (l.span.start, l.span.end, l.message.clone())).collect();
        let mut got: Vec<(usize, usize, String)> = diags.iter().map(|x| (client_offset(&src, x.range.start), client_offset(&src, x.range.end), x.message.clone())).collect();
        want.sort();
        got.sort();
        sess.o();
        if want != got {
            let miss = want.iter().find(|w| !got.contains(w)).or(got.iter().find(|g| !want.contains(g))).cloned().unwrap_or_default();
            let known_shape = src.windows(2).any(|w| w[0] == '\r' && w[1] != '\n') || src.last() == Some(&'\r') || (src.contains(&'\n') && (miss.0 >= last_line_start || miss.1 >= last_line_start));
            let class = if known_shape { classify(&src, miss.1, src[..miss.1.min(src.len())].iter().filter(|c| **c == '\n').count(), "range-misplaced") } else { "range-misplaced".to_string() };
            sess.fail(
                &class,
                format!("through the real Backend, {} document: the diagnostics a client reads ({:?}) are not harper-core's lints for the text it sent ({:?})", d.lang, got.iter().take(4).collect::<Vec<_>>(), want.iter().take(4).collect::<Vec<_>>()),
                inp(miss.0, miss.0, miss.1, None),
                None,
            );
            continue;
        }
        if !d.lints.is_empty() {
            sess.nontrivial(&format!("backend-lang|{}|{}", d.lang, d.text));
        }
        for lint in d.lints.iter().take(8) {
            let (s, e) = (lint.span.start, lint.span.end);
            if !(s <= e && e <= src.len()) || inside_crlf(&src, s) || inside_crlf(&src, e) {
                continue;
            }
            // carets at every position inside, plus ONE selection request per lint: from its second
            // position (its first when it has one character) to its end. A selection that ends on the last
            // line of a text without trailing newline panics inside the server (`c08-last-line`) and
            // would end the session, so such lints get carets only.
            let mut reqs: Vec<(usize, Position, Position)> = (s..e).take(24).filter_map(|i| client_encode(&src, i).map(|p| (i, p, p))).collect();
            let i0 = (s + 1).min(e - 1).max(s);
            if let (Some(p), Some(q)) = (client_encode(&src, i0), client_encode(&src, e)) {
                let fine = |idx: usize, pos: Position| classify(&src, idx, pos.line as usize, "fine") == "fine";
                if s < e && p != q && fine(i0, p) && fine(e, q) {
                    reqs.push((i0, p, q));
                    sess.count("backend-lang:selection-requests");
                }
            }
            for (i, p, q) in reqs {
                let params = json!({"textDocument": {"uri": d.uri}, "range": {"start": {"line": p.line, "character": p.character}, "end": {"line": q.line, "character": q.character}}, "context": {"diagnostics": []}});
                let resp = ls.request_sync("textDocument/codeAction", params, &cfg)?;
                sess.o();
                let acts: Vec<CodeActionOrCommand> = serde_json::from_value(resp["result"].clone()).unwrap_or_default();
                let tes = text_edits(&acts, &url);
                let mut ok = resp.get("error").is_none();
                for sg in &lint.suggestions {
                    let mut w = src.clone();
                    if guarded(|| sg.apply(lint.span, &mut w)).is_err() {
                        continue;
                    }
                    let title = sg.to_string();
                    if !tes.iter().any(|(t, te)| *t == title && client_apply(&src, te) == w) {
                        ok = false;
                    }
                }
                // observation (not demanded): the HarperIgnoreLint command offered here carries this very lint
                let carries = acts.iter().any(|a| match a {
                    CodeActionOrCommand::Command(c) if c.command == "HarperIgnoreLint" => c
                        .arguments
                        .as_ref()
                        .and_then(|a| a.get(1))
                        .and_then(|l| serde_json::from_value::<Lint>(l.clone()).ok())
                        .map(|l| l.span == lint.span && l.message == lint.message)
                        .unwrap_or(false),
                    _ => false,
                });
                sess.count(if carries { "backend-lang:ignore-command-carries-the-lint" } else { "backend-lang:ignore-command-for-the-lint-absent" });
                if ok {
                    sess.count("backend-lang:actions-found");
                } else {
                    let class = classify(&src, i, p.line as usize, "code-action-missed");
                    sess.fail(&class, format!("through the real Backend, {} document (one of {} open): code actions at {} (character {}) inside lint [{},{}) lack one of its fixes, answer with an error, or the fix applied by a client differs from Suggestion::apply", d.lang, docs.len(), show_pos(p), i, s, e), inp(i, s, e, Some(p)), None);
                }
            }
        }
    }
    for d in docs {
        ls.notify("textDocument/didClose", did_close(&d.uri))?;
    }
    Ok(())
}

fn run_backend_langs(sess: &mut Session, ctx: &Ctx, docs: Vec<LangDoc>) {
    set_home(&ctx.out.join("c08-home"));
    let cfg = json!({"harper-ls": {}});
    let t0 = std::time::Instant::now();
    let r: Result<(), LsError> = (|| {
        let mut ls = LsSession::start()?;
        ls.initialize(&cfg)?;
        for (b, batch) in docs.chunks(6).enumerate() {
            eval_backend_langs(sess, &mut ls, batch, b % 2 == 1)?;
        }
        ls.shutdown(&cfg)?;
        Ok(())
    })();
    sess.monitor("the in-process language server completed the C08 all-languages session", r.is_ok());
    if let Err(e) = r {
        sess.count(&format!("backend-lang:session-error:{}", e.to_string().chars().take(60).collect::<String>()));
    }
    sess.add("backend-lang:wall-ms", t0.elapsed().as_millis() as u64);
}
