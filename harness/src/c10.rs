//! C10 — the text being checked never leaves the machine (level `other`: effect-trace refinement
//! validated by syscall tracing).
//!
//! The harness re-invokes itself (`hv C10-child <scenario> <tmpdir>`) under
//! `strace -f -qq -e trace=<network + file-modifying syscalls>`:
//!   * `lib`    — `Document::new` + `LintGroup::lint` on documents of several languages;
//!   * `wasm`   — `harper_wasm::Linter` natively (lint, ignore, import/export words, statistics);
//!   * `server` — the real `Backend` in process (lsclient): open / change / save / add-to-user-dict /
//!                add-to-file-dict / ignore / record / code action / configuration / watched-file
//!                delete / close / shutdown (save_stats), with `Config::default()` paths under a
//!                temp HOME.
//! O: no `socket` / `connect` / `bind` / `listen` / `accept` / `send*` at all (an AF_UNIX socket
//! would be reported and examined), and no file opened for writing, created, renamed, unlinked or
//! mkdir'ed other than the user dictionary, the file-dictionary directory entries and the statistics
//! file (and the directories that contain them, inside the temp HOME), `/dev/null`, `/proc/self/…`.
//! K: the traced write set (and the reads under the temp HOME) as tags vs the Lean effect model's
//! prediction for the same scenario (`eff`), and `file_dict_name` vs the model on hostile paths
//! (`fdn`); w24: the directories `create_dir_all` really makes — the real `save_dict` in a sandbox
//! (`mkd`, file system before/after), the successful `mkdir` calls of the traced path scenarios
//! (`effmk`), and `save_dict("/")` under strace (`sde`: `Path::parent()` of the root is `None`, no
//! `mkdir`). The dependency closure from `/repo/Cargo.lock` and a source scan for socket APIs are
//! lookups, reported in `extra` and labelled as such.
use crate::common::*;
use crate::dictionary_io::file_dict_name;
use crate::lsclient::*;
use serde_json::{Value, json};
use std::collections::{BTreeMap, BTreeSet, HashMap, VecDeque};
use std::path::{Component, Path, PathBuf};
use tower_lsp::lsp_types::Url;

const TRACE_SET: &str = "socket,connect,bind,listen,accept,accept4,sendto,sendmsg,sendmmsg,socketpair,openat,open,creat,rename,renameat,renameat2,unlink,unlinkat,mkdir,mkdirat,rmdir,link,linkat,symlink,symlinkat,truncate,ftruncate,chmod,fchmodat";

// ------------------------------------------------------------------------------------------
// child scenarios
// ------------------------------------------------------------------------------------------

fn server_docs(tmp: &Path) -> (PathBuf, PathBuf, PathBuf) {
    let docs = tmp.join("docs");
    (docs.join("my notes ü.txt"), docs.join("src").join("lib.rs"), docs.join("never-saved.md"))
}

pub fn child(args: &[String]) {
    let scenario = args.first().map(|s| s.as_str()).unwrap_or("");
    let tmp = PathBuf::from(args.get(1).cloned().unwrap_or_default());
    let (ud, fd, st) = set_home(&tmp.join("home"));
    let mut out = json!({"scenario": scenario, "user_dict": ud, "file_dict_dir": fd, "stats": st});
    match scenario {
        "lib" => {
            use harper_core::linting::{LintGroup, Linter};
            use harper_core::{Dialect, Document, FstDictionary};
            let dict = FstDictionary::curated();
            let mut n = 0;
            for id in ["plaintext", "markdown", "rust", "python", "html", "typst", "literate haskell", "gitcommit", "javascript", "go", "java"] {
                let Some(parser) = crate::frontends::parser_for(id, false) else { continue };
                for prose in ["This is an test of the the checker. Teh end.", "Private notes: my pasword is hunter2, dont tell any one."] {
                    let text = crate::frontends::embed(id, prose, 0);
                    let r = guarded(|| {
                        let doc = Document::new(&text, &parser, &dict);
                        let mut g = LintGroup::new_curated(dict.clone(), Dialect::American);
                        g.config.fill_with_curated();
                        g.lint(&doc).len()
                    });
                    if let Ok(k) = r {
                        n += k;
                    }
                }
            }
            out["lints"] = json!(n);
        }
        "wasm" => {
            use harper_wasm::{Dialect as WDialect, Language, Linter as WLinter};
            let mut l = WLinter::new(WDialect::American);
            let text = "This is an test of the the checker. Teh end, zqprivateword.".to_string();
            let lints = l.lint(text.clone(), Language::Plain);
            let lints_md = l.lint(format!("# Title\n\n{}", text), Language::Markdown);
            l.import_words(vec!["zqprivateword".to_string()]);
            let words = l.export_words();
            if let Some(first) = lints.first() {
                if let Some(s) = first.suggestions().first() {
                    let _ = guarded(|| l.apply_suggestion(text.clone(), first, s));
                }
            }
            let stats = l.generate_stats_file();
            let _ = l.import_stats_file(stats.clone());
            let ignored = l.export_ignored_lints();
            let _ = l.import_ignored_lints(ignored.clone());
            let _ = l.get_lint_config_as_json();
            let _ = l.is_likely_english(text.clone());
            let _ = l.isolate_english(text.clone());
            let _ = harper_wasm::to_title_case("a tale of two cities".to_string());
            out["lints"] = json!(lints.len() + lints_md.len());
            out["words"] = json!(words.len());
            out["stats_lines"] = json!(stats.lines().count());
        }
        "server" => {
            let (a, r, m) = server_docs(&tmp);
            std::fs::create_dir_all(a.parent().unwrap()).unwrap();
            std::fs::create_dir_all(r.parent().unwrap()).unwrap();
            let (ua, ur, um) = (file_url(&a), file_url(&r), file_url(&m));
            let cfg = json!({"harper-ls": {}});
            let cfg2 = json!({"harper-ls": {"diagnosticSeverity": "warning", "linters": {"SpellCheck": true}}});
            let ta = "This is an test of the the checker. Teh end, zqprivateword.";
            let tr = "// Teh helper fucntion for zqident.\nfn zqident() {}\n";
            let res: Result<Value, LsError> = (|| {
                let mut ls = LsSession::start()?;
                ls.initialize(&cfg)?;
                let mut drain = |ls: &mut LsSession, c: &Value| -> Result<(), LsError> {
                    while ls.pending_count() > 0 {
                        ls.answer_config_at(0, c)?;
                    }
                    Ok(())
                };
                ls.notify("textDocument/didOpen", did_open(&ua, "plaintext", ta))?;
                drain(&mut ls, &cfg)?;
                ls.notify("textDocument/didChange", did_change(&ua, 2, &format!("{} More.", ta)))?;
                drain(&mut ls, &cfg)?;
                std::fs::write(&a, format!("{} More.", ta)).unwrap(); // the EDITOR writes the file
                ls.notify("textDocument/didSave", did_save(&ua))?;
                drain(&mut ls, &cfg)?;
                ls.request("workspace/executeCommand", json!({"command": "HarperAddToUserDict", "arguments": ["zqprivateword", ua]}))?;
                drain(&mut ls, &cfg)?;
                ls.request("workspace/executeCommand", json!({"command": "HarperAddToFileDict", "arguments": ["Teh", ua]}))?;
                drain(&mut ls, &cfg)?;
                ls.notify("textDocument/didOpen", did_open(&ur, "rust", tr))?;
                drain(&mut ls, &cfg)?;
                std::fs::write(&r, tr).unwrap();
                ls.request("workspace/executeCommand", json!({"command": "HarperAddToFileDict", "arguments": ["fucntion", ur]}))?;
                drain(&mut ls, &cfg)?;
                ls.notify("textDocument/didOpen", did_open(&um, "markdown", "# Teh title\n"))?;
                drain(&mut ls, &cfg)?;
                ls.request("textDocument/codeAction", json!({"textDocument": {"uri": ua}, "range": {"start": {"line": 0, "character": 8}, "end": {"line": 0, "character": 9}}, "context": {"diagnostics": []}}))?;
                drain(&mut ls, &cfg)?;
                ls.request("workspace/executeCommand", json!({"command": "HarperRecordLint", "arguments": ["\"Applied\""]}))?;
                ls.request("workspace/executeCommand", json!({"command": "HarperIgnoreLint", "arguments": [ua, {}]}))?;
                drain(&mut ls, &cfg)?;
                ls.notify("workspace/didChangeConfiguration", json!({"settings": cfg2}))?;
                drain(&mut ls, &cfg2)?;
                std::fs::remove_file(&r).unwrap(); // the USER deletes the file
                ls.notify("workspace/didChangeWatchedFiles", deleted(&ur))?;
                ls.notify("textDocument/didClose", did_close(&um))?;
                ls.quiesce(&cfg2)?;
                let pubs = ls.all_publications().len();
                ls.shutdown(&cfg2)?;
                Ok(json!({"publications": pubs}))
            })();
            match res {
                Ok(v) => out["result"] = v,
                Err(e) => out["error"] = json!(e.to_string()),
            }
            out["docs"] = json!([a, r, m]);
        }
        "savedict" => {
            // `save_dict` on the root path (no parent: no mkdir; creating `/` fails) and on a file one
            // level below the existing HOME (exactly one mkdir)
            let rt = tokio::runtime::Builder::new_current_thread().enable_all().build().unwrap();
            let mut dict = harper_core::MutableDictionary::new();
            dict.append_word_str("zqword", harper_core::WordMetadata::default());
            let sub = tmp.join("home").join("sub").join("x.txt");
            let r0 = rt.block_on(crate::dictionary_io::save_dict("/", dict.clone()));
            let r1 = rt.block_on(crate::dictionary_io::save_dict(&sub, dict.clone()));
            out["root_is_err"] = json!(r0.is_err());
            out["sub_is_ok"] = json!(r1.is_ok());
            out["targets"] = json!(["/", sub]);
        }
        sc if sc.starts_with("paths-") => {
            // HOME = <tmp>/home (set above), the current directory = <tmp>/cwd (set by the parent)
            let doc = tmp.join("docs").join("p.txt");
            std::fs::create_dir_all(doc.parent().unwrap()).unwrap();
            std::fs::write(&doc, "This is teh test, zqprivateword.").unwrap();
            let cfg = json!({"harper-ls": paths_config(sc, &tmp)});
            let ud = file_url(&doc);
            let res: Result<Value, LsError> = (|| {
                let mut ls = LsSession::start()?;
                ls.initialize(&cfg)?;
                ls.notify("textDocument/didOpen", did_open(&ud, "plaintext", "This is teh test, zqprivateword."))?;
                while ls.pending_count() > 0 {
                    ls.answer_config_at(0, &cfg)?;
                }
                ls.send_request("workspace/executeCommand", json!({"command": "HarperAddToUserDict", "arguments": ["zqprivateword", ud]}), &cfg)?;
                ls.send_request("workspace/executeCommand", json!({"command": "HarperAddToFileDict", "arguments": ["teh", ud]}), &cfg)?;
                ls.quiesce(&cfg)?;
                let pubs = ls.all_publications().len();
                ls.shutdown(&cfg)?;
                Ok(json!({"publications": pubs}))
            })();
            match res {
                Ok(v) => out["result"] = v,
                Err(e) => out["error"] = json!(e.to_string()),
            }
            out["docs"] = json!([doc]);
            out["cwd"] = json!(std::env::current_dir().ok());
            out["config"] = cfg;
        }
        "lib-wide" => w25_child_lib_wide(&mut out),
        "wasm-wide" => w25_child_wasm_wide(&mut out),
        "server-wide" => w25_child_server_wide(&mut out, &tmp),
        _ => {
            out["error"] = json!("unknown scenario");
        }
    }
    println!("C10-CHILD {}", out);
}

// ------------------------------------------------------------------------------------------
// strace parsing
// ------------------------------------------------------------------------------------------

#[derive(Debug, Clone)]
struct Sys {
    name: String,
    args: String,
    ret: String,
}

/// stitch `<unfinished ...>` / `<... resumed>` pairs per pid and return complete calls
fn parse_trace(text: &str) -> Vec<Sys> {
    let mut open: HashMap<String, String> = HashMap::new();
    let mut out = vec![];
    for line in text.lines() {
        let (pid, rest) = match line.split_once(char::is_whitespace) {
            Some((p, r)) if p.chars().all(|c| c.is_ascii_digit()) => (p.to_string(), r.trim_start().to_string()),
            _ => ("0".to_string(), line.to_string()),
        };
        let mut full = rest.clone();
        if rest.ends_with("<unfinished ...>") {
            open.insert(pid, rest.trim_end_matches("<unfinished ...>").to_string());
            continue;
        }
        if rest.starts_with("<... ") {
            if let Some(prefix) = open.remove(&pid) {
                let tail = rest.splitn(2, "resumed>").nth(1).unwrap_or("");
                full = format!("{}{}", prefix, tail);
            }
        }
        if full.starts_with("+++") || full.starts_with("---") {
            continue;
        }
        let Some(p) = full.find('(') else { continue };
        let name = full[..p].to_string();
        let Some(eq) = full.rfind(" = ") else { continue };
        let args = full[p + 1..eq].trim_end().trim_end_matches(')').to_string();
        out.push(Sys { name, args, ret: full[eq + 3..].to_string() });
    }
    out
}

/// the quoted strings of an argument list (strace prints paths as C string literals)
fn quoted(args: &str) -> Vec<String> {
    let b = args.as_bytes();
    let mut out = vec![];
    let mut i = 0;
    while i < b.len() {
        if b[i] == b'"' {
            let mut bytes: Vec<u8> = vec![];
            i += 1;
            while i < b.len() && b[i] != b'"' {
                if b[i] == b'\\' && i + 1 < b.len() {
                    i += 1;
                    match b[i] {
                        b'n' => bytes.push(b'\n'),
                        b't' => bytes.push(b'\t'),
                        b'r' => bytes.push(b'\r'),
                        b'\\' => bytes.push(b'\\'),
                        b'"' => bytes.push(b'"'),
                        b'0'..=b'7' => {
                            let mut v = 0u32;
                            let mut k = 0;
                            while k < 3 && i < b.len() && (b'0'..=b'7').contains(&b[i]) {
                                v = v * 8 + (b[i] - b'0') as u32;
                                i += 1;
                                k += 1;
                            }
                            i -= 1;
                            bytes.push(v as u8);
                        }
                        b'x' => {
                            let h = std::str::from_utf8(&b[i + 1..(i + 3).min(b.len())]).unwrap_or("0");
                            bytes.push(u8::from_str_radix(h, 16).unwrap_or(b'?'));
                            i += 2;
                        }
                        c => bytes.push(c),
                    }
                } else {
                    bytes.push(b[i]);
                }
                i += 1;
            }
            out.push(String::from_utf8_lossy(&bytes).to_string());
        }
        i += 1;
    }
    out
}

fn norm(p: &str) -> String {
    let mut parts: Vec<String> = vec![];
    for c in Path::new(p).components() {
        match c {
            Component::Normal(s) => parts.push(s.to_string_lossy().to_string()),
            Component::ParentDir => {
                parts.pop();
            }
            _ => {}
        }
    }
    format!("/{}", parts.join("/"))
}

fn cps(s: &str) -> String {
    s.chars().map(|c| (c as u32).to_string()).collect::<Vec<_>>().join(".")
}

struct Scope {
    home: String,
    user: String,
    fdir: String,
    stats: String,
    own: Vec<String>,
}

impl Scope {
    /// the model's tag of a path (None: not a path the model knows)
    fn tag(&self, p: &str) -> Option<String> {
        let parent = |x: &str| Path::new(x).parent().map(|y| y.to_string_lossy().to_string()).unwrap_or_default();
        if p == self.user {
            Some("U".into())
        } else if p == parent(&self.user) {
            Some("UD".into())
        } else if p == self.stats {
            Some("S".into())
        } else if p == parent(&self.stats) {
            Some("DD".into())
        } else if p == self.fdir {
            Some("FD".into())
        } else if parent(p) == self.fdir {
            Some(format!("F:{}", cps(Path::new(p).file_name().map(|x| x.to_str().unwrap_or("")).unwrap_or(""))))
        } else {
            None
        }
    }
    fn under_home(&self, p: &str) -> bool {
        p.starts_with(&format!("{}/", self.home)) || p == self.home
    }
}

struct Traced {
    effects: BTreeSet<String>, // tags for K
    bad: Vec<String>,          // violations of the property
    network: Vec<String>,      // every network-family call seen (reported)
    unix_sockets: Vec<String>,
    n_calls: usize,
}

fn classify(calls: &[Sys], sc: &Scope, doc_reads: &[String]) -> Traced {
    let mut t = Traced { effects: BTreeSet::new(), bad: vec![], network: vec![], unix_sockets: vec![], n_calls: calls.len() };
    for c in calls {
        let failed = c.ret.starts_with("-1");
        match c.name.as_str() {
            "socket" | "socketpair" => {
                if c.args.contains("AF_UNIX") || c.args.contains("AF_LOCAL") {
                    t.unix_sockets.push(format!("{}({}) = {}", c.name, c.args, c.ret));
                } else {
                    t.network.push(format!("{}({})", c.name, c.args));
                    t.bad.push(format!("network: {}({}) = {}", c.name, c.args, c.ret));
                }
            }
            "connect" | "bind" | "listen" | "accept" | "accept4" | "sendto" | "sendmsg" | "sendmmsg" => {
                let unix_inside = c.args.contains("AF_UNIX") && quoted(&c.args).iter().all(|p| sc.under_home(&norm(p)));
                t.network.push(format!("{}({})", c.name, c.args));
                if !unix_inside {
                    t.bad.push(format!("network: {}({}) = {}", c.name, c.args, c.ret));
                }
            }
            "openat" | "open" | "creat" => {
                let Some(path) = quoted(&c.args).into_iter().next() else { continue };
                let p = norm(&path);
                let writing = c.name == "creat" || ["O_WRONLY", "O_RDWR", "O_CREAT", "O_TRUNC", "O_APPEND"].iter().any(|f| c.args.contains(f));
                if writing {
                    if p == "/dev/null" || p.starts_with("/proc/self/") || sc.own.iter().any(|o| *o == p) {
                        continue;
                    }
                    let kind = if c.args.contains("O_APPEND") { "a" } else { "c" };
                    match sc.tag(&p) {
                        Some(tag) if ["U", "S"].contains(&tag.as_str()) || tag.starts_with("F:") || (tag == "FD" && failed) => {
                            // `FD` itself: file_dict_name of the root path is empty; creating the
                            // directory as a file fails — a write attempt the model also predicts
                            t.effects.insert(format!("{}:{}", kind, tag));
                        }
                        _ => t.bad.push(format!("write outside the configured files: {}({}) = {}", c.name, c.args, c.ret)),
                    }
                } else if sc.under_home(&p) || doc_reads.iter().any(|d| *d == p) {
                    match sc.tag(&p) {
                        Some(tag) => {
                            t.effects.insert(format!("r:{}", tag));
                        }
                        None => {
                            if !c.args.contains("O_DIRECTORY") {
                                t.effects.insert(format!("r:D:{}", cps(&p)));
                            }
                        }
                    }
                }
            }
            "mkdir" | "mkdirat" => {
                let Some(path) = quoted(&c.args).into_iter().next() else { continue };
                let p = norm(&path);
                let parent = |x: &str| Path::new(x).parent().map(|y| y.to_path_buf()).unwrap_or_default();
                let targets = [parent(&sc.user), PathBuf::from(&sc.fdir), parent(&sc.stats)];
                let anc_ok = sc.under_home(&p) && targets.iter().any(|t| t.starts_with(&p));
                if !anc_ok {
                    t.bad.push(format!("mkdir outside the configured directories: {}({}) = {}", c.name, c.args, c.ret));
                } else if let Some(tag) = sc.tag(&p) {
                    if ["UD", "DD", "FD"].contains(&tag.as_str()) {
                        t.effects.insert(format!("m:{}", tag));
                    }
                }
            }
            "rename" | "renameat" | "renameat2" | "unlink" | "unlinkat" | "rmdir" | "link" | "linkat" | "symlink" | "symlinkat" | "truncate" | "chmod" | "fchmodat" => {
                let paths: Vec<String> = quoted(&c.args).iter().map(|p| norm(p)).collect();
                if paths.iter().all(|p| sc.own.iter().any(|o| o == p)) {
                    continue;
                }
                t.bad.push(format!("file-modifying call the model does not have: {}({}) = {}", c.name, c.args, c.ret));
            }
            _ => {}
        }
    }
    t
}

// ------------------------------------------------------------------------------------------
// lookups (labelled as such)
// ------------------------------------------------------------------------------------------

const NETWORK_CRATES: [&str; 40] = [
    "reqwest", "hyper", "hyper-util", "hyper-tls", "hyper-rustls", "ureq", "curl", "curl-sys", "isahc", "surf", "attohttpc", "native-tls", "rustls",
    "tokio-rustls", "tokio-native-tls", "openssl", "openssl-sys", "tungstenite", "tokio-tungstenite", "h2", "h3", "quinn", "trust-dns-resolver",
    "trust-dns-proto", "hickory-resolver", "hickory-proto", "dns-lookup", "socket2", "mio", "async-std", "smol", "async-io", "tonic", "lettre",
    "ssh2", "libp2p", "websocket", "ws", "sentry", "opentelemetry-otlp",
];

fn dependency_closure() -> Value {
    let Ok(lock) = std::fs::read_to_string("/repo/Cargo.lock") else { return json!({"error": "cannot read /repo/Cargo.lock"}) };
    let mut deps: BTreeMap<String, Vec<String>> = BTreeMap::new();
    let mut cur: Option<String> = None;
    let mut in_deps = false;
    for line in lock.lines() {
        let l = line.trim();
        if l == "[[package]]" {
            cur = None;
            in_deps = false;
        } else if let Some(n) = l.strip_prefix("name = ") {
            let n = n.trim_matches('"').to_string();
            deps.entry(n.clone()).or_default();
            cur = Some(n);
        } else if l.starts_with("dependencies = [") {
            in_deps = true;
        } else if l == "]" {
            in_deps = false;
        } else if in_deps {
            if let Some(c) = &cur {
                let d = l.trim_matches(|ch| ch == '"' || ch == ',').split_whitespace().next().unwrap_or("").to_string();
                if !d.is_empty() {
                    deps.get_mut(c).unwrap().push(d);
                }
            }
        }
    }
    let mut out = serde_json::Map::new();
    for root in ["harper-ls", "harper-cli", "harper-wasm", "harper-core"] {
        let mut seen: BTreeSet<String> = BTreeSet::new();
        let mut q: VecDeque<String> = VecDeque::from([root.to_string()]);
        while let Some(x) = q.pop_front() {
            if !seen.insert(x.clone()) {
                continue;
            }
            for d in deps.get(&x).cloned().unwrap_or_default() {
                q.push_back(d);
            }
        }
        let hits: Vec<&String> = seen.iter().filter(|n| NETWORK_CRATES.contains(&n.as_str())).collect();
        out.insert(
            root.to_string(),
            json!({"crates_in_closure": seen.len(), "network_capable_crates_found": hits,
                   "note": "Cargo.lock closure ignores features and targets: a crate listed here may not be compiled in (mio/socket2 come with tokio's `net` feature, used by harper-ls for its loopback listener only)"}),
        );
    }
    Value::Object(out)
}

fn source_scan() -> Value {
    let pats = ["TcpListener", "TcpStream", "UdpSocket", "UnixStream", "UnixListener", "std::net", "tokio::net", "ToSocketAddrs", "reqwest", "ureq", "hyper::", "http://", "https://"];
    let mut hits: Vec<String> = vec![];
    let mut stack = vec![PathBuf::from("/repo")];
    let mut files = 0;
    while let Some(d) = stack.pop() {
        let Ok(rd) = std::fs::read_dir(&d) else { continue };
        for e in rd.flatten() {
            let p = e.path();
            let name = p.file_name().map(|x| x.to_string_lossy().to_string()).unwrap_or_default();
            if p.is_dir() {
                if ["target", "node_modules", ".git", "packages", "demo"].contains(&name.as_str()) {
                    continue;
                }
                stack.push(p);
            } else if name.ends_with(".rs") && p.to_string_lossy().contains("/src/") {
                files += 1;
                let Ok(s) = std::fs::read_to_string(&p) else { continue };
                for (ln, line) in s.lines().enumerate() {
                    let code = line.trim_start();
                    if code.starts_with("//") {
                        continue;
                    }
                    for pat in pats.iter().take(11) {
                        if line.contains(pat) {
                            hits.push(format!("{}:{}: {}", p.to_string_lossy().trim_start_matches("/repo/"), ln + 1, trunc(code, 120)));
                            break;
                        }
                    }
                }
            }
        }
    }
    hits.sort();
    // main.rs: the one listener binds the loopback address
    let main = std::fs::read_to_string("/repo/harper-ls/src/main.rs").unwrap_or_default();
    let addr = main.lines().find(|l| l.contains("DEFAULT_ADDRESS") && l.contains("static")).map(|l| l.trim().to_string()).unwrap_or_default();
    let binds: Vec<String> = main.lines().filter(|l| l.contains("bind(")).map(|l| l.trim().to_string()).collect();
    let loopback = addr.contains("\"127.0.0.1:4000\"") && binds.len() == 1 && binds[0].contains("TcpListener::bind(DEFAULT_ADDRESS)");
    json!({"rust_source_files_scanned": files, "socket_api_mentions": hits, "harper_ls_main_address_line": addr, "harper_ls_main_bind_lines": binds,
           "listener_is_loopback_4000": loopback, "kind": "lookup (text search), not a proof"})
}

// ------------------------------------------------------------------------------------------
// file_dict_name vs the model
// ------------------------------------------------------------------------------------------

fn fdn_case(sess: &mut Session, url_text: &str, origin: &str) {
    sess.count(&format!("fdn-origin:{}", origin));
    let Ok(url) = Url::parse(url_text) else {
        sess.count("fdn:url-does-not-parse");
        return;
    };
    let Ok(path) = url.to_file_path() else {
        sess.count("fdn:not-a-local-file-url");
        let real = guarded(|| file_dict_name(&url));
        if !matches!(real, Ok(Err(_))) {
            sess.fail("fdn-accepts-non-file-url", format!("file_dict_name accepted {}", url_text), json!({"url": url_text}), None);
        }
        return;
    };
    let lossy = path.to_string_lossy().to_string();
    let op = format!("fdn {}", lossy.chars().map(|c| (c as u32).to_string()).collect::<Vec<_>>().join(" "));
    let real = guarded(|| file_dict_name(&url));
    let (imp, name) = match &real {
        Ok(Ok(n)) => {
            let s = n.to_string_lossy().to_string();
            (format!("ok {}", s.chars().map(|c| (c as u32).to_string()).collect::<Vec<_>>().join(" ")).trim_end().to_string(), Some(s))
        }
        Ok(Err(_)) => ("err".to_string(), None),
        Err(_) => ("panic".to_string(), None),
    };
    let case = sess.k(&op, &imp);
    sess.monitor("Url::to_file_path yields an absolute path", path.is_absolute());
    let Some(name) = name else {
        sess.fail("fdn-failed", format!("file_dict_name failed on {}", url_text), json!({"url": url_text}), Some(case));
        return;
    };
    if name.len() > 1 {
        sess.nontrivial(&name);
    }
    // the property on the real output: one path component, the join stays inside the directory
    let dir = Path::new("/x/file_dictionaries");
    let joined = dir.join(&name);
    let comps: Vec<Component> = joined.components().collect();
    let inside = joined.starts_with(dir)
        && comps.len() <= dir.components().count() + 1
        && !comps.iter().any(|c| matches!(c, Component::ParentDir))
        && !name.contains('/')
        && name != ".."
        && name != ".";
    // the name is ONE NORMAL component, or empty — and empty exactly for the root path (w24)
    let n_normal = path.components().filter(|c| !matches!(c, Component::RootDir)).count();
    if name.is_empty() {
        sess.count("fdn:empty-name");
    }
    if !(name.is_empty() || name.ends_with('%')) || name.is_empty() != (n_normal == 0) {
        sess.fail(
            "fdn-not-a-normal-component",
            format!("file_dict_name({}) = {:?}: neither empty-for-the-root-path nor a name ending in %", url_text, name),
            json!({"url": url_text}),
            Some(case),
        );
    }
    if !inside {
        sess.fail("fdn-escapes", format!("file_dict_name({}) = {:?}: the join leaves the dictionary directory ({:?})", url_text, name, joined), json!({"url": url_text}), Some(case));
    }
    if name.len() > 255 {
        sess.count("fdn:name-longer-than-NAME_MAX");
    }
}

fn hostile_urls() -> Vec<String> {
    let mut v: Vec<String> = [
        "file:///", "file:///a", "file:///a/b/c.txt", "file:///a/../../etc/passwd", "file:///a/..%2F..%2Fetc%2Fpasswd", "file:///..%2F..%2F..%2Fetc/shadow",
        "file:///%2E%2E/%2E%2E/x", "file:///a/%2e%2e/b", "file:///a/./b/./c", "file:///a//b///c", "file:///a/b/", "file:///%2Fetc%2Fpasswd", "file:///a%2F%2F%2Fb",
        "file:///a%00b", "file:///a%FFb", "file:///a%C3%28b", "file:///%F0%9F%98%80/%C3%BC.md", "file:///a%25b%25", "file:///a%20b/c%20d.txt", "file:///.", "file:///..",
        "file:///.hidden/..double/...triple", "file:///a/..", "file:///a/%2E", "file:///a/..%2F", "file:///C:/Users/x/y.txt", "file://localhost/etc/passwd", "file://evil.example.com/etc/passwd",
        "file:///a%5Cb%5C..%5C..%5Cc", "file:///~/.ssh/id_rsa", "file:///a%0Ab%0Dc", "file:///%2E%2E%2F%2E%2E%2Fx", "untitled:Untitled-1", "https://example.com/a/b", "file:///a?query=../../x#frag/../y",
    ]
    .iter()
    .map(|s| s.to_string())
    .collect();
    v.push(format!("file:///{}", "a/".repeat(300)));
    v.push(format!("file:///{}", "x".repeat(5000)));
    v.push(format!("file:///{}", "..%2F".repeat(200)));
    v.push(format!("file:///{}/b", "%F0%9F%98%80".repeat(100)));
    v
}

// ------------------------------------------------------------------------------------------
// the real `harper-ls` executable (main.rs included), when it has been built
// ------------------------------------------------------------------------------------------

fn ls_binary_path() -> PathBuf {
    PathBuf::from(env!("CARGO_MANIFEST_DIR")).join("target").join("lsbin").join("debug").join("harper-ls")
}

/// `cargo build -p harper-ls` from /repo's workspace into the harness's own target directory
/// (`--locked`: nothing under /repo is written). Returns an error text when it cannot be built.
fn build_ls_binary(timeout_s: u64) -> Result<(), String> {
    let target = PathBuf::from(env!("CARGO_MANIFEST_DIR")).join("target").join("lsbin");
    let mut child = std::process::Command::new("cargo")
        .args(["build", "--offline", "--locked", "-p", "harper-ls", "--manifest-path", "/repo/Cargo.toml", "--target-dir"])
        .arg(&target)
        .env("CARGO_NET_OFFLINE", "true")
        .stdout(std::process::Stdio::null())
        .stderr(std::process::Stdio::null())
        .spawn()
        .map_err(|e| e.to_string())?;
    let t0 = std::time::Instant::now();
    loop {
        match child.try_wait() {
            Ok(Some(st)) => return if st.success() { Ok(()) } else { Err(format!("cargo build -p harper-ls failed ({})", st)) },
            Ok(None) => {
                if t0.elapsed().as_secs() > timeout_s {
                    let _ = child.kill();
                    return Err(format!("cargo build -p harper-ls did not finish in {} s", timeout_s));
                }
                std::thread::sleep(std::time::Duration::from_millis(200));
            }
            Err(e) => return Err(e.to_string()),
        }
    }
}

/// a small blocking LSP client for a child process (pipes or a TCP stream)
struct BinClient {
    w: Box<dyn std::io::Write + Send>,
    rx: std::sync::mpsc::Receiver<Value>,
    next_id: i64,
    pubs: usize,
    responses: HashMap<i64, Value>,
    registered: bool,
    cfg: Value,
}

fn spawn_reader(mut r: impl std::io::Read + Send + 'static) -> std::sync::mpsc::Receiver<Value> {
    let (tx, rx) = std::sync::mpsc::channel();
    std::thread::spawn(move || {
        let mut buf: Vec<u8> = vec![];
        let mut chunk = [0u8; 8192];
        loop {
            loop {
                let Some(h) = buf.windows(4).position(|w| w == b"\r\n\r\n") else { break };
                let hdr = String::from_utf8_lossy(&buf[..h]).to_string();
                let len = hdr.split("\r\n").find_map(|l| l.strip_prefix("Content-Length:").and_then(|v| v.trim().parse::<usize>().ok()));
                let Some(len) = len else { return };
                if buf.len() < h + 4 + len {
                    break;
                }
                let body = buf[h + 4..h + 4 + len].to_vec();
                buf.drain(..h + 4 + len);
                if let Ok(v) = serde_json::from_slice::<Value>(&body) {
                    if tx.send(v).is_err() {
                        return;
                    }
                }
            }
            match r.read(&mut chunk) {
                Ok(0) | Err(_) => return,
                Ok(n) => buf.extend_from_slice(&chunk[..n]),
            }
        }
    });
    rx
}

impl BinClient {
    fn send(&mut self, v: &Value) -> bool {
        let body = serde_json::to_vec(v).unwrap();
        self.w.write_all(format!("Content-Length: {}\r\n\r\n", body.len()).as_bytes()).is_ok() && self.w.write_all(&body).is_ok() && self.w.flush().is_ok()
    }
    fn notify(&mut self, method: &str, params: Value) -> bool {
        self.send(&json!({"jsonrpc": "2.0", "method": method, "params": params}))
    }
    fn request(&mut self, method: &str, params: Value) -> i64 {
        let id = self.next_id;
        self.next_id += 1;
        let msg = if params.is_null() { json!({"jsonrpc": "2.0", "id": id, "method": method}) } else { json!({"jsonrpc": "2.0", "id": id, "method": method, "params": params}) };
        self.send(&msg);
        id
    }
    /// handle inbound messages (answering every server→client request) until `done` or the deadline
    fn pump(&mut self, secs: u64, done: impl Fn(&BinClient) -> bool) -> bool {
        let t0 = std::time::Instant::now();
        while !done(self) {
            let left = std::time::Duration::from_secs(secs).saturating_sub(t0.elapsed());
            if left.is_zero() {
                return false;
            }
            let Ok(m) = self.rx.recv_timeout(left) else { return false };
            let method = m.get("method").and_then(|x| x.as_str()).map(|x| x.to_string());
            match (method, m.get("id").cloned()) {
                (Some(me), Some(id)) => {
                    let result = if me == "workspace/configuration" { json!([self.cfg]) } else { Value::Null };
                    if me == "client/registerCapability" {
                        self.registered = true;
                    }
                    self.send(&json!({"jsonrpc": "2.0", "id": id, "result": result}));
                }
                (Some(me), None) => {
                    if me == "textDocument/publishDiagnostics" {
                        self.pubs += 1;
                    }
                }
                (None, Some(id)) => {
                    if let Some(i) = id.as_i64() {
                        self.responses.insert(i, m);
                    }
                }
                _ => {}
            }
        }
        true
    }
    /// initialize … shutdown; returns what was reached
    fn session(&mut self, doc_uri: &str) -> Result<(), String> {
        let id = self.request("initialize", json!({"processId": null, "rootUri": null, "capabilities": {}}));
        if !self.pump(30, |c| c.responses.contains_key(&id)) {
            return Err("no initialize response".into());
        }
        self.notify("initialized", json!({}));
        if !self.pump(30, |c| c.registered) {
            return Err("initialized: no registerCapability".into());
        }
        self.notify("textDocument/didOpen", did_open(doc_uri, "plaintext", "This is an test of teh checker, zqprivateword."));
        if !self.pump(60, |c| c.pubs >= 1) {
            return Err("didOpen: no publication".into());
        }
        let id = self.request("workspace/executeCommand", json!({"command": "HarperAddToUserDict", "arguments": ["zqprivateword", doc_uri]}));
        if !self.pump(60, |c| c.responses.contains_key(&id)) {
            return Err("HarperAddToUserDict: no response".into());
        }
        let id = self.request("workspace/executeCommand", json!({"command": "HarperAddToFileDict", "arguments": ["teh", doc_uri]}));
        if !self.pump(60, |c| c.responses.contains_key(&id)) {
            return Err("HarperAddToFileDict: no response".into());
        }
        let id = self.request("shutdown", Value::Null);
        if !self.pump(30, |c| c.responses.contains_key(&id)) {
            return Err("shutdown: no response".into());
        }
        self.send(&json!({"jsonrpc": "2.0", "method": "exit"}));
        Ok(())
    }
}

/// network-family calls of the TCP-mode server: exactly one IPv4 stream socket bound to
/// 127.0.0.1:4000, listened on, one accepted connection, and `sendto(conn, …, NULL, 0)` on it.
/// Returns (effect tags, violations).
fn tcp_allowance(calls: &[Sys]) -> (BTreeSet<String>, Vec<String>, Vec<Sys>) {
    let mut eff = BTreeSet::new();
    let mut bad = vec![];
    let mut rest = vec![];
    let mut lfd: Option<String> = None;
    let mut conn: Option<String> = None;
    for c in calls {
        let first_arg = c.args.split(',').next().unwrap_or("").trim().to_string();
        match c.name.as_str() {
            "socket" if c.args.starts_with("AF_INET, SOCK_STREAM") && lfd.is_none() => {
                lfd = Some(c.ret.split_whitespace().next().unwrap_or("").to_string());
            }
            "bind" if Some(&first_arg) == lfd.as_ref() => {
                if c.args.contains("sin_port=htons(4000)") && c.args.contains("inet_addr(\"127.0.0.1\")") {
                    if !c.ret.starts_with("-1") {
                        eff.insert("listen:127.0.0.1:4000".to_string());
                    } else {
                        eff.insert(format!("bind-failed:{}", c.ret));
                    }
                } else {
                    bad.push(format!("network: listener bound to another address: bind({})", c.args));
                }
            }
            "listen" if Some(&first_arg) == lfd.as_ref() => {}
            "accept" | "accept4" if Some(&first_arg) == lfd.as_ref() => {
                if !c.ret.starts_with("-1") {
                    if c.args.contains("inet_addr(\"127.0.0.1\")") {
                        eff.insert("accept".to_string());
                        conn = Some(c.ret.split_whitespace().next().unwrap_or("").to_string());
                    } else {
                        bad.push(format!("network: accepted a non-loopback peer: {}({})", c.name, c.args));
                    }
                }
            }
            "sendto" if Some(&first_arg) == conn.as_ref() && c.args.trim_end().ends_with("NULL, 0") => {}
            _ => rest.push(c.clone()),
        }
    }
    (eff, bad, rest)
}

fn binary_scenarios(sess: &mut Session, out_abs: &Path) -> Value {
    let bin = ls_binary_path();
    let mut rep = serde_json::Map::new();
    for mode in ["stdio", "tcp", "tcp-taken"] {
        // `tcp-taken`: 127.0.0.1:4000 belongs to someone else (this process, or whoever made our own
        // bind fail) when the server starts: it must not fall back to any other address
        let _port_guard = if mode == "tcp-taken" { std::net::TcpListener::bind("127.0.0.1:4000").ok() } else { None };
        let tmp = out_abs.join(format!("c10-bin-{}", mode));
        let _ = std::fs::remove_dir_all(&tmp);
        let home = tmp.join("home");
        std::fs::create_dir_all(&home).unwrap();
        std::fs::create_dir_all(tmp.join("docs")).unwrap();
        let doc = tmp.join("docs").join("a b.txt");
        std::fs::write(&doc, "This is an test of teh checker, zqprivateword.").unwrap();
        let trace_file = out_abs.join(format!("c10-bin-{}.strace", mode));
        let _ = std::fs::remove_file(&trace_file);
        let mut cmd = std::process::Command::new("strace");
        cmd.args(["-f", "-qq", "-e", &format!("trace={}", TRACE_SET), "-s", "256", "-o"]).arg(&trace_file).arg(&bin);
        if mode == "stdio" {
            cmd.arg("--stdio");
        }
        cmd.env("HOME", &home)
            .env("XDG_CONFIG_HOME", home.join("config"))
            .env("XDG_DATA_HOME", home.join("data"))
            .env_remove("XDG_CACHE_HOME")
            .stdin(std::process::Stdio::piped())
            .stdout(std::process::Stdio::piped())
            .stderr(std::process::Stdio::null());
        let Ok(mut child) = cmd.spawn() else {
            rep.insert(mode.into(), json!({"error": "cannot spawn strace"}));
            continue;
        };
        let stdin = child.stdin.take().unwrap();
        let mut stdout = child.stdout.take().unwrap();
        let mk = |w: Box<dyn std::io::Write + Send>, rx| BinClient { w, rx, next_id: 1, pubs: 0, responses: HashMap::new(), registered: false, cfg: json!({"harper-ls": {}}) };
        let uri = file_url(&doc);
        let result: Result<(), String> = if mode == "stdio" {
            let mut c = mk(Box::new(stdin), spawn_reader(stdout));
            c.session(&uri)
        } else if mode == "tcp-taken" {
            // the first line of stdout, or the end of the process (the pinned code panics on the
            // failed bind), whichever comes first; the reader thread owns the pipe
            use std::io::Read;
            let (tx, rx) = std::sync::mpsc::channel::<String>();
            std::thread::spawn(move || {
                let mut line = Vec::new();
                let mut b = [0u8; 1];
                while let Ok(1) = stdout.read(&mut b) {
                    line.push(b[0]);
                    if b[0] == b'\n' {
                        break;
                    }
                }
                let _ = tx.send(String::from_utf8_lossy(&line).to_string());
            });
            let first = rx.recv_timeout(std::time::Duration::from_secs(20)).unwrap_or_default();
            drop(stdin);
            if first.contains("Listening on 127.0.0.1:4000") {
                Err("inconclusive: port 4000 was free after all (the other owner let go of it)".to_string())
            } else {
                // a server that is still alive here is listening somewhere else: end it (killing
                // strace alone would detach and leave it running)
                let _ = std::process::Command::new("pkill").args(["-KILL", "-f"]).arg(bin.to_string_lossy().to_string()).status();
                let _ = child.kill();
                Ok(())
            }
        } else {
            // wait for "Listening on …" (or the process dying: port 4000 already in use)
            use std::io::Read;
            let mut line = Vec::new();
            let mut b = [0u8; 1];
            let t0 = std::time::Instant::now();
            let mut listening = false;
            while t0.elapsed().as_secs() < 30 {
                match stdout.read(&mut b) {
                    Ok(1) => {
                        line.push(b[0]);
                        if b[0] == b'\n' {
                            listening = String::from_utf8_lossy(&line).contains("Listening on");
                            break;
                        }
                    }
                    _ => break,
                }
            }
            if !listening {
                Err("inconclusive: the server did not start listening (port 4000 in use by another process?)".to_string())
            } else {
                match std::net::TcpStream::connect("127.0.0.1:4000") {
                    Ok(s) => {
                        let r = s.try_clone().unwrap();
                        let mut c = mk(Box::new(s), spawn_reader(r));
                        c.session(&uri)
                    }
                    Err(e) => Err(format!("inconclusive: cannot connect to 127.0.0.1:4000: {}", e)),
                }
            }
        };
        // let it exit; kill if it lingers
        let t0 = std::time::Instant::now();
        loop {
            match child.try_wait() {
                Ok(Some(_)) => break,
                Ok(None) if t0.elapsed().as_secs() < 5 => std::thread::sleep(std::time::Duration::from_millis(50)),
                _ => {
                    let _ = child.kill();
                    let _ = child.wait();
                    break;
                }
            }
        }
        let text = std::fs::read_to_string(&trace_file).unwrap_or_default();
        if let Err(e) = &result {
            let inconclusive = e.starts_with("inconclusive");
            if !inconclusive {
                sess.monitor("the real harper-ls executable completed the traced session", false);
            }
            sess.count(&format!("binary-{}:{}", mode, if inconclusive { "inconclusive" } else { "failed" }));
            rep.insert(mode.into(), json!({"error": e, "trace_lines": text.lines().count()}));
            continue;
        }
        sess.monitor("the real harper-ls executable completed the traced session", true);
        let calls = parse_trace(&text);
        let (mut eff, mut bad, calls) = if mode != "stdio" { tcp_allowance(&calls) } else { (BTreeSet::new(), vec![], calls) };
        if mode == "tcp-taken" {
            // the failed bind to the loopback address is the expected (and only allowed) network call
            let failed = eff.iter().any(|e| e.starts_with("bind-failed:"));
            sess.monitor("tcp-taken: the bind to 127.0.0.1:4000 failed (the scenario is what it claims to be)", failed);
            eff.retain(|e| !e.starts_with("bind-failed:"));
            if eff.contains("listen:127.0.0.1:4000") {
                eff.clear();
                sess.count("binary-tcp-taken:port-was-free");
                continue;
            }
        }
        let sc = Scope {
            home: tmp.to_string_lossy().to_string(),
            user: home.join("config/harper-ls/dictionary.txt").to_string_lossy().to_string(),
            fdir: home.join("data/harper-ls/file_dictionaries").to_string_lossy().to_string(),
            stats: home.join("data/harper-ls/stats.txt").to_string_lossy().to_string(),
            own: vec![],
        };
        let docs = vec![doc.to_string_lossy().to_string()];
        let t = classify(&calls, &sc, &docs);
        eff.extend(t.effects.iter().cloned());
        bad.extend(t.bad.iter().cloned());
        let d = docs[0].chars().map(|c| (c as u32).to_string()).collect::<Vec<_>>().join(" ");
        let op = if mode == "tcp-taken" { "eff tcp-taken".to_string() } else { format!("eff {} | upd 0 {d} | addu 1 0 {d} | addf 1 0 {d} | shutdown", mode, d = d) };
        let imp = format!("ok {}", eff.iter().cloned().collect::<Vec<_>>().join(" ")).trim_end().to_string();
        let case = sess.k(&op, &imp);
        sess.nontrivial(&op);
        sess.o();
        for b in &bad {
            let class = if b.starts_with("network") { "c10-network-syscall" } else { "c10-write-outside" };
            sess.fail(class, format!("real harper-ls ({}): {}", mode, b), json!({"scenario": format!("binary-{}", mode)}), Some(case));
        }
        rep.insert(mode.into(), json!({"syscalls_traced": t.n_calls, "effects_observed": eff, "network_family_calls_beyond_the_listener": t.network, "af_unix_sockets": t.unix_sockets, "violations": bad}));
    }
    Value::Object(rep)
}

// ------------------------------------------------------------------------------------------
// run
// ------------------------------------------------------------------------------------------

// ------------------------------------------------------------------------------------------
// configured path strings → the paths that are written
// ------------------------------------------------------------------------------------------

const PATH_SCENARIOS: [&str; 5] = ["paths-tilde", "paths-tilde-stats", "paths-relative", "paths-absolute", "paths-deep"];

/// the three path keys a client answers `workspace/configuration` with, per scenario
fn paths_config(scenario: &str, tmp: &Path) -> Value {
    let abs = |x: &str| tmp.join("abs").join(x).to_string_lossy().to_string();
    match scenario {
        "paths-tilde" => json!({"userDictPath": "~/t/my dictionary.txt", "fileDictPath": "~/t/fd"}),
        // the `statsPath` key sets the file-dictionary directory and overrides `fileDictPath`
        "paths-tilde-stats" => json!({"userDictPath": "~/t2/d.txt", "fileDictPath": "~/t2/fd-overridden", "statsPath": "~//t2/./sp"}),
        "paths-relative" => json!({"userDictPath": "rel/ud.txt", "fileDictPath": "./rel/fd", "statsPath": "../cwd-sibling/sp"}),
        // w24: several MISSING ancestors above each configured location (`create_dir_all` makes them all)
        "paths-deep" => json!({"userDictPath": "~/deep/u1/u2/ud.txt", "fileDictPath": "deep2/./f1//f2/fd"}),
        _ => json!({"userDictPath": abs("u.txt"), "fileDictPath": abs("fd-overridden"), "statsPath": abs("sp")}),
    }
}

/// components of a path the way `Path::components` normalises them (no `.`; `..` kept), joined
fn show_components(p: &Path) -> String {
    let mut parts: Vec<String> = vec![];
    for c in p.components() {
        match c {
            Component::Normal(s) => parts.push(s.to_string_lossy().to_string()),
            Component::ParentDir => parts.push("..".into()),
            _ => {}
        }
    }
    if parts.is_empty() { "/".into() } else { format!("/{}", parts.join("/")) }
}

/// The harness's OWN resolver (not the resolve-path crate): absolute → unchanged; first component
/// `~` → below `home`; otherwise below `cwd`.
fn mirror_resolve(home: &str, cwd: &str, s: &str) -> String {
    let p = if s.starts_with('/') {
        PathBuf::from(s)
    } else if s == "~" || s.starts_with("~/") {
        PathBuf::from(home).join(s[1..].trim_start_matches('/'))
    } else {
        PathBuf::from(cwd).join(s)
    };
    show_components(&p)
}

fn key_group(v: &Option<Value>) -> String {
    match v {
        None => "-".into(),
        Some(Value::String(x)) => format!("s {}", x.chars().map(|c| (c as u32).to_string()).collect::<Vec<_>>().join(" ")).trim_end().to_string(),
        Some(_) => "n".into(),
    }
}

fn str_group(v: &Option<String>) -> String {
    match v {
        None => "-".into(),
        Some(x) => format!("s {}", x.chars().map(|c| (c as u32).to_string()).collect::<Vec<_>>().join(" ")).trim_end().to_string(),
    }
}

fn cps_sp(s: &str) -> String {
    s.chars().map(|c| (c as u32).to_string()).collect::<Vec<_>>().join(" ")
}

/// the seven leading groups of a `cfgp` / `effc` op line
fn cfg_groups(home: &str, cwd: &str, xc: &Option<String>, xd: &Option<String>, u: &Option<Value>, f: &Option<Value>, st: &Option<Value>) -> String {
    format!("{} | {} | {} | {} | {} | {} | {}", cps_sp(home), cps_sp(cwd), str_group(xc), str_group(xd), key_group(u), key_group(f), key_group(st))
}

/// one `Config::from_lsp_config` case in the CURRENT process environment (HOME, XDG_*, cwd as set by the caller)
fn cfgp_case(sess: &mut Session, home: &str, cwd: &str, xc: &Option<String>, xd: &Option<String>, u: &Option<Value>, f: &Option<Value>, st: &Option<Value>) {
    let mut obj = serde_json::Map::new();
    if let Some(v) = u {
        obj.insert("userDictPath".into(), v.clone());
    }
    if let Some(v) = f {
        obj.insert("fileDictPath".into(), v.clone());
    }
    if let Some(v) = st {
        obj.insert("statsPath".into(), v.clone());
    }
    let settings = json!({"harper-ls": Value::Object(obj)});
    let op = format!("cfgp {}", cfg_groups(home, cwd, xc, xd, u, f, st));
    let real = guarded(|| crate::config::Config::from_lsp_config(settings.clone()));
    let input = json!({"cfgp": {"settings": settings, "XDG_CONFIG_HOME": xc, "XDG_DATA_HOME": xd}});
    let imp = match &real {
        Ok(Ok(c)) => format!("ok U:{} F:{} S:{}", cps(&show_components(&c.user_dict_path)), cps(&show_components(&c.file_dict_path)), cps(&show_components(&c.stats_path))),
        Ok(Err(_)) => "rejected".to_string(),
        Err(_) => "panic".to_string(),
    };
    let case = sess.k(&op, &imp);
    sess.count("cfgp-cases");
    if let Ok(Ok(c)) = &real {
        // O: a configured, non-empty path string is written where a user means it to be
        let mut check = |key: &str, val: &Option<Value>, got: &Path, empty_keeps_default: bool| {
            if let Some(Value::String(x)) = val {
                if x.is_empty() && empty_keeps_default {
                    return;
                }
                let want = mirror_resolve(home, cwd, x);
                let got = show_components(got);
                if got != want {
                    sess.fail(
                        "c10-config-path-unresolved",
                        format!("{} = {:?} (HOME {}, cwd {}) is used as {} — a user means {}", key, x, home, cwd, got, want),
                        input.clone(),
                        Some(case),
                    );
                }
            }
        };
        check("userDictPath", u, &c.user_dict_path, true);
        if st.is_none() {
            check("fileDictPath", f, &c.file_dict_path, true);
        }
        check("statsPath (sets the file-dictionary directory)", st, &c.file_dict_path, false);
        if u.is_some() || f.is_some() || st.is_some() {
            sess.nontrivial(&op);
        }
    }
}

/// `Config::from_lsp_config` on a grid of path strings × keys, with HOME and the current directory
/// set to two different temp dirs, and `Config::default()` under XDG variations
fn cfgp_grid(sess: &mut Session, out_abs: &Path, only: Option<&Value>) {
    let home = out_abs.join("c10-cfg").join("home dir");
    let cwd = out_abs.join("c10-cfg").join("cwd");
    std::fs::create_dir_all(&home).unwrap();
    std::fs::create_dir_all(&cwd).unwrap();
    let old_cwd = std::env::current_dir().ok();
    let saved: Vec<(&str, Option<std::ffi::OsString>)> = ["HOME", "XDG_CONFIG_HOME", "XDG_DATA_HOME"].iter().map(|k| (*k, std::env::var_os(k))).collect();
    // SAFETY: the harness is single-threaded at this point (no session, no child yet)
    unsafe { std::env::set_var("HOME", &home) };
    let _ = std::env::set_current_dir(&cwd);
    let (home_s, cwd_s) = (home.to_string_lossy().to_string(), cwd.to_string_lossy().to_string());
    let set_xdg = |xc: &Option<String>, xd: &Option<String>| unsafe {
        match xc {
            Some(v) => std::env::set_var("XDG_CONFIG_HOME", v),
            None => std::env::remove_var("XDG_CONFIG_HOME"),
        }
        match xd {
            Some(v) => std::env::set_var("XDG_DATA_HOME", v),
            None => std::env::remove_var("XDG_DATA_HOME"),
        }
    };
    if let Some(v) = only {
        let g = |k: &str| v["settings"]["harper-ls"].get(k).cloned();
        let xc = v["XDG_CONFIG_HOME"].as_str().map(|x| x.to_string());
        let xd = v["XDG_DATA_HOME"].as_str().map(|x| x.to_string());
        set_xdg(&xc, &xd);
        cfgp_case(sess, &home_s, &cwd_s, &xc, &xd, &g("userDictPath"), &g("fileDictPath"), &g("statsPath"));
    } else {
        let strings = ["~", "~/x", "~/", "~//x/./y", "~/../z", "~user/x", "~x", "x/y", "./x", "../x", "a/~/b", "./~/x", "/abs/p", "/abs/../q/", "", " ", "é/ü.txt"];
        let mut vals: Vec<Option<Value>> = vec![None, Some(json!(5)), Some(Value::Null)];
        vals.extend(strings.iter().map(|x| Some(json!(x))));
        let envs: Vec<(Option<String>, Option<String>)> = vec![
            (None, None),
            (Some("/xdg/c".into()), Some("/xdg/d".into())),
            (Some("relative/c".into()), Some("".into())),
            (Some("~/c".into()), None),
        ];
        for (ei, (xc, xd)) in envs.iter().enumerate() {
            set_xdg(xc, xd);
            for (i, u) in vals.iter().enumerate() {
                for (j, f) in vals.iter().enumerate() {
                    for (k, st) in vals.iter().enumerate() {
                        // the full grid under the first environment; the diagonal and single keys under the others
                        let single = [i, j, k].iter().filter(|x| **x != 0).count() <= 1;
                        if ei == 0 || single || (i == j && j == k) {
                            cfgp_case(sess, &home_s, &cwd_s, xc, xd, u, f, st);
                        }
                    }
                }
            }
        }
    }
    unsafe {
        for (k, v) in saved {
            match v {
                Some(x) => std::env::set_var(k, x),
                None => std::env::remove_var(k),
            }
        }
    }
    if let Some(d) = old_cwd {
        let _ = std::env::set_current_dir(d);
    }
}

/// One traced server session whose configuration answers carry tilde / relative / absolute paths.
/// HOME = <tmp>/home, current directory = <tmp>/cwd. The traced write set is compared with the
/// set predicted from the harness's own resolver (O: `c10-write-outside`, `c10-write-missing`) and
/// with the Lean model's (`effc`, K).
fn path_scenario(sess: &mut Session, out_abs: &Path, scenario: &str) -> Value {
    let tmp = out_abs.join(format!("c10-{}", scenario));
    let _ = std::fs::remove_dir_all(&tmp);
    let cwd = tmp.join("cwd");
    std::fs::create_dir_all(&cwd).unwrap();
    let trace_file = out_abs.join(format!("c10-{}.strace", scenario));
    let _ = std::fs::remove_file(&trace_file);
    let exe = std::env::current_exe().unwrap();
    let output = std::process::Command::new("strace")
        .args(["-f", "-qq", "-e", &format!("trace={}", TRACE_SET), "-s", "4096", "-o"])
        .arg(&trace_file)
        .arg(&exe)
        .args(["C10-child", scenario])
        .arg(&tmp)
        .current_dir(&cwd)
        .output();
    let (ok, stdout) = match &output {
        Ok(o) => (o.status.success(), String::from_utf8_lossy(&o.stdout).to_string()),
        Err(_) => (false, String::new()),
    };
    let child: Value = stdout.lines().find_map(|l| l.strip_prefix("C10-CHILD ")).and_then(|j| serde_json::from_str(j).ok()).unwrap_or(json!({}));
    let text = std::fs::read_to_string(&trace_file).unwrap_or_default();
    let traced_ok = ok && !text.is_empty() && child.get("error").is_none() && child.get("scenario").is_some();
    sess.monitor("strace could trace the child process and the scenario ran to its end", traced_ok);
    if !traced_ok {
        return json!({"error": "child did not run under strace", "child": child});
    }
    let home_s = tmp.join("home").to_string_lossy().to_string();
    let cwd_s = cwd.to_string_lossy().to_string();
    let tmp_s = tmp.to_string_lossy().to_string();
    let cfg = paths_config(scenario, &tmp);
    let get = |k: &str| cfg.get(k).cloned();
    let (u, f, st) = (get("userDictPath"), get("fileDictPath"), get("statsPath"));
    let doc = child["docs"][0].as_str().unwrap_or("").to_string();
    // ---- expected, from the harness's own resolver
    let as_str = |v: &Option<Value>| v.as_ref().and_then(|x| x.as_str().map(|y| y.to_string()));
    let user = as_str(&u).filter(|x| !x.is_empty()).map(|x| mirror_resolve(&home_s, &cwd_s, &x)).unwrap_or(child["user_dict"].as_str().unwrap_or("").to_string());
    let fdir = match (as_str(&st), as_str(&f).filter(|x| !x.is_empty())) {
        (Some(x), _) => mirror_resolve(&home_s, &cwd_s, &x),
        (None, Some(x)) => mirror_resolve(&home_s, &cwd_s, &x),
        _ => child["file_dict_dir"].as_str().unwrap_or("").to_string(),
    };
    let (user, fdir) = (norm(&user), norm(&fdir));
    let stats = norm(child["stats"].as_str().unwrap_or(""));
    let name = Url::parse(&file_url(Path::new(&doc))).ok().and_then(|x| file_dict_name(&x).ok()).map(|x| x.to_string_lossy().to_string()).unwrap_or_default();
    let fdict = format!("{}/{}", fdir, name);
    let parent = |x: &str| Path::new(x).parent().map(|y| y.to_string_lossy().to_string()).unwrap_or_default();
    let want_files: BTreeSet<String> = [format!("c:{}", user), format!("c:{}", fdict), format!("a:{}", stats)].into_iter().collect();
    let want_dirs: Vec<String> = vec![parent(&user), fdir.clone(), parent(&stats)];
    // ---- observed
    let own: Vec<String> = vec![norm(&doc), parent(&norm(&doc)), norm(&home_s)];
    let mut eff: BTreeSet<String> = BTreeSet::new();
    let mut made: BTreeSet<String> = BTreeSet::new(); // directories really created (mkdir = 0), ancestors included
    let mut bad: Vec<(String, String)> = vec![];
    let calls = parse_trace(&text);
    let absolutize = |p: &str| if p.starts_with('/') { norm(p) } else { norm(&format!("{}/{}", cwd_s, p)) };
    for c in &calls {
        match c.name.as_str() {
            "socket" | "socketpair" | "connect" | "bind" | "listen" | "accept" | "accept4" | "sendto" | "sendmsg" | "sendmmsg" => {
                bad.push(("c10-network-syscall".into(), format!("network: {}({}) = {}", c.name, c.args, c.ret)));
            }
            "openat" | "open" | "creat" => {
                let Some(path) = quoted(&c.args).into_iter().next() else { continue };
                let p = absolutize(&path);
                let writing = c.name == "creat" || ["O_WRONLY", "O_RDWR", "O_CREAT", "O_TRUNC", "O_APPEND"].iter().any(|fl| c.args.contains(fl));
                if writing {
                    if p == "/dev/null" || p.starts_with("/proc/self/") || own.contains(&p) {
                        continue;
                    }
                    let tag = format!("{}:{}", if c.args.contains("O_APPEND") { "a" } else { "c" }, p);
                    if !want_files.contains(&tag) {
                        bad.push(("c10-write-outside".into(), format!("write outside the RESOLVED configured paths: {}({}) = {} (allowed: {:?})", c.name, c.args, c.ret, want_files)));
                    }
                    eff.insert(tag);
                } else if (p.starts_with(&format!("{}/", tmp_s))) && !c.args.contains("O_DIRECTORY") {
                    eff.insert(format!("r:{}", p));
                }
            }
            "mkdir" | "mkdirat" => {
                let Some(path) = quoted(&c.args).into_iter().next() else { continue };
                let p = absolutize(&path);
                if own.contains(&p) {
                    continue;
                }
                if c.ret.trim() == "0" {
                    made.insert(p.clone());
                }
                if want_dirs.contains(&p) {
                    eff.insert(format!("m:{}", p));
                } else if !(p.starts_with(&tmp_s) && want_dirs.iter().any(|d| Path::new(d).starts_with(&p))) {
                    bad.push(("c10-write-outside".into(), format!("mkdir outside the RESOLVED configured directories: {}({}) = {} (allowed: {:?} and their ancestors)", c.name, c.args, c.ret, want_dirs)));
                    eff.insert(format!("m:{}", p));
                }
            }
            "rename" | "renameat" | "renameat2" | "unlink" | "unlinkat" | "rmdir" | "link" | "linkat" | "symlink" | "symlinkat" | "truncate" | "chmod" | "fchmodat" => {
                let paths: Vec<String> = quoted(&c.args).iter().map(|p| absolutize(p)).collect();
                if !paths.iter().all(|p| own.contains(p)) {
                    bad.push(("c10-write-outside".into(), format!("file-modifying call the model does not have: {}({}) = {}", c.name, c.args, c.ret)));
                }
            }
            _ => {}
        }
    }
    for w in want_files.iter().cloned().chain(want_dirs.iter().map(|d| format!("m:{}", d))) {
        if !eff.contains(&w) {
            bad.push(("c10-write-missing".into(), format!("the configured path is never written: expected {} (configuration {}, HOME {}, cwd {})", w, cfg, home_s, cwd_s)));
        }
    }
    // ---- K: the Lean model's prediction for the same configuration strings
    let xc = Some(format!("{}/config", home_s));
    let xd = Some(format!("{}/data", home_s));
    let d = cps_sp(&doc);
    let op = format!("effc {} | stdio | upd 0 {d} | addu 1 0 {d} | addf 1 0 {d} | shutdown", cfg_groups(&home_s, &cwd_s, &xc, &xd, &u, &f, &st), d = d);
    let show = |t: &String| format!("{}:{}", &t[..1], cps(&t[2..]));
    let imp = format!("ok {}", eff.iter().map(show).collect::<BTreeSet<_>>().into_iter().collect::<Vec<_>>().join(" "));
    let case = sess.k(&op, &imp);
    sess.nontrivial(&op);
    sess.o();
    // ---- K (w24): every directory the server really made (ancestors included) vs `dirsCreated`
    //      on a file system where HOME, the current directory and the document's directory exist
    let existing = [home_s.clone(), cwd_s.clone(), parent(&norm(&doc))].iter().map(|x| cps_sp(x)).collect::<Vec<_>>().join(" ; ");
    let op_mk = format!("effmk {} | {} | stdio | upd 0 {d} | addu 1 0 {d} | addf 1 0 {d} | shutdown", cfg_groups(&home_s, &cwd_s, &xc, &xd, &u, &f, &st), existing, d = d);
    let imp_mk = format!("ok {}", made.iter().map(|x| cps(x)).collect::<BTreeSet<_>>().into_iter().collect::<Vec<_>>().join(" ")).trim_end().to_string();
    sess.k(&op_mk, &imp_mk);
    sess.count("effmk-cases");
    sess.add("effmk-directories-created", made.len() as u64);
    sess.add("effmk-ancestors-created-outside-the-configured-directories", made.iter().filter(|m| !want_dirs.contains(m)).count() as u64);
    let input = json!({"scenario": scenario, "config": cfg, "home": home_s, "cwd": cwd_s});
    for (class, desc) in &bad {
        sess.fail(class, format!("scenario {}: {}", scenario, desc), input.clone(), Some(case));
    }
    json!({"config": cfg, "home": home_s, "cwd": cwd_s, "expected_writes": want_files, "expected_mkdirs": want_dirs, "effects_observed": eff, "directories_created": made,
           "violations": bad.iter().map(|b| b.1.clone()).collect::<Vec<_>>(), "syscalls_traced": calls.len()})
}

// ------------------------------------------------------------------------------------------
// w24: what `create_dir_all` creates — the real `save_dict` in a sandbox (`mkd`), `save_dict("/")`
// under strace (`sde`)
// ------------------------------------------------------------------------------------------

/// how far above its starting directory a relative target climbs (`..` beyond what it has descended)
fn max_climb(target: &str) -> usize {
    let (mut depth, mut min) = (0i64, 0i64);
    for c in target.split('/') {
        match c {
            "" | "." => {}
            ".." => {
                depth -= 1;
                min = min.min(depth);
            }
            _ => depth += 1,
        }
    }
    (-min) as usize
}

fn list_tree(root: &Path) -> (BTreeSet<String>, BTreeSet<String>) {
    let (mut dirs, mut files) = (BTreeSet::new(), BTreeSet::new());
    let mut stack = vec![root.to_path_buf()];
    while let Some(d) = stack.pop() {
        let Ok(rd) = std::fs::read_dir(&d) else { continue };
        for e in rd.flatten() {
            let p = e.path();
            if p.is_dir() {
                dirs.insert(p.to_string_lossy().to_string());
                stack.push(p);
            } else {
                files.insert(p.to_string_lossy().to_string());
            }
        }
    }
    (dirs, files)
}

/// One `save_dict(R/<target>, dict)` on a fresh sandbox directory `R` (as many levels below the case
/// directory as the target climbs with `..`, so that nothing can leave the case directory) in which
/// exactly the directories `pre` (relative to `R`) exist. (No per-case clean-up: `rmdir` is the slow
/// operation on the work file system; the whole sandbox is removed once, in the background.) Observed: the
/// directories that exist afterwards and did not before. K: `mkd`. O: every new entry is a prefix
/// of the target's directory (a directory) or the target itself (the file).
fn mkd_case(sess: &mut Session, rt: &tokio::runtime::Runtime, base: &Path, n: usize, pre: &[String], target: &str, origin: &str) {
    sess.count(&format!("mkd-origin:{}", origin));
    let case_dir = base.join(format!("{}", n));
    let mut r = case_dir.clone();
    for i in 0..max_climb(target) {
        r = r.join(format!("u{}", i));
    }
    std::fs::create_dir_all(&r).unwrap();
    for p in pre {
        std::fs::create_dir_all(r.join(p)).unwrap();
    }
    let r_s = r.to_string_lossy().to_string();
    let full = format!("{}/{}", r_s, target);
    let (dirs0, files0) = list_tree(&case_dir);
    let mut dict = harper_core::MutableDictionary::new();
    dict.append_word_str("zqword", harper_core::WordMetadata::default());
    let res = guarded(|| rt.block_on(crate::dictionary_io::save_dict(&full, dict)));
    let (dirs1, files1) = list_tree(&case_dir);
    let new_dirs: BTreeSet<String> = dirs1.difference(&dirs0).cloned().collect();
    let new_files: BTreeSet<String> = files1.difference(&files0).cloned().collect();
    let existing: Vec<String> = std::iter::once(r_s.clone()).chain(pre.iter().map(|p| format!("{}/{}", r_s, p))).map(|x| cps_sp(&x)).collect();
    let op = format!("mkd {} | {}", existing.join(" ; "), cps_sp(&full));
    let imp = match &res {
        Err(_) => "panic".to_string(),
        Ok(_) => format!("ok {}", new_dirs.iter().map(|x| cps(x)).collect::<BTreeSet<_>>().into_iter().collect::<Vec<_>>().join(" ")).trim_end().to_string(),
    };
    let case = sess.k(&op, &imp);
    if !new_dirs.is_empty() {
        sess.nontrivial(&op);
    }
    sess.add("mkd-directories-created", new_dirs.len() as u64);
    match &res {
        Ok(Ok(())) => sess.count("mkd:saved"),
        Ok(Err(_)) => sess.count("mkd:save_dict-returned-an-error"),
        Err(_) => sess.count("mkd:panic"),
    }
    // O: nothing appears anywhere but on the way down to the target
    let tgt = norm(&full);
    let tgt_dir = Path::new(&full).parent().map(|x| norm(&x.to_string_lossy())).unwrap_or_default();
    let input = json!({"mkd": {"pre": pre, "target": target}});
    for d in &new_dirs {
        // the un-normalised prefixes of the target's directory, each `..`-resolved
        let mut ok = false;
        let mut acc = PathBuf::from("/");
        for c in Path::new(&full).parent().unwrap_or(Path::new("/")).components() {
            acc.push(c.as_os_str());
            if norm(&acc.to_string_lossy()) == *d {
                ok = true;
            }
        }
        if !ok {
            sess.fail("c10-write-outside", format!("save_dict({:?}) made the directory {} — not on the way to {}", full, d, tgt_dir), input.clone(), Some(case));
        }
    }
    for f in &new_files {
        if *f != tgt {
            sess.fail("c10-write-outside", format!("save_dict({:?}) created the file {} — not the target {}", full, f, tgt), input.clone(), Some(case));
        }
    }
    sess.o();
}

/// returns the thread that removes the sandbox (join it before the run ends)
fn mkd_streams(sess: &mut Session, rng: &mut Rng, out_abs: &Path, thorough: bool) -> std::thread::JoinHandle<()> {
    let base = out_abs.join("c10-mk");
    let _ = std::fs::remove_dir_all(&base);
    std::fs::create_dir_all(&base).unwrap();
    let rt = tokio::runtime::Builder::new_current_thread().enable_all().build().unwrap();
    let mut n = 0usize;
    let mut one = |sess: &mut Session, pre: &[&str], target: &str, origin: &str| {
        n += 1;
        let pre: Vec<String> = pre.iter().map(|x| x.to_string()).collect();
        mkd_case(sess, &rt, &base, n, &pre, target, origin);
    };
    // corpus: the shapes the theorems name
    for (pre, t) in [
        (vec![], "d.txt"),
        (vec![], "a/d.txt"),
        (vec![], "a/b/c/d.txt"),
        (vec!["a"], "a/b/c/d.txt"),
        (vec!["a/b/c"], "a/b/c/d.txt"),
        (vec![], "a/../b/d.txt"),       // `a` is made although the file ends up in `b`
        (vec![], "a/b/../../c/d.txt"),
        (vec![], "../x/d.txt"),
        (vec![], "a/./b//c/d.txt"),
        (vec![], "fd/"),                // `dir.join("")`: the name of the root document; parent is R, nothing made, create fails
        (vec![], "a/fd/"),
        (vec!["a/fd"], "a/fd/"),
        (vec![], "a/b/."),
        (vec![], "a/b/.."),
        (vec![], ""),
        (vec![], "é ü/😀/d.txt"),
    ] {
        one(sess, &pre, t, "corpus");
    }
    // exhaustive small scope: targets of 0..=3 (thorough: 0..=4) components over {a, b, .., .} × four initial file systems
    let alpha = ["a", "b", "..", "."];
    let pres: [Vec<&str>; 4] = [vec![], vec!["a"], vec!["a/b"], vec!["b/a"]];
    for len in 0..=(if thorough { 4usize } else { 3usize }) {
        let total = alpha.len().pow(len as u32);
        for code in 0..total {
            let mut c = code;
            let mut parts = vec![];
            for _ in 0..len {
                parts.push(alpha[c % alpha.len()]);
                c /= alpha.len();
            }
            let t = parts.join("/");
            for pre in &pres {
                one(sess, pre, &t, "exhaustive");
            }
        }
    }
    // structured random: longer targets, empty components, trailing slashes, non-ASCII names, random initial directories
    let frags = ["a", "b", "c", "..", ".", "", "x.txt", "ü", "a b"];
    let nrand = if thorough { 3000 } else { 300 };
    for _ in 0..nrand {
        let k = rng.range(1, 7);
        let mut parts: Vec<&str> = (0..k).map(|_| frags[rng.below(frags.len())]).collect();
        if rng.chance(1, 8) {
            parts.push("");
        }
        let t = parts.join("/");
        let mut pre: Vec<String> = vec![];
        for _ in 0..rng.below(3) {
            let d = rng.range(1, 4);
            pre.push((0..d).map(|_| ["a", "b", "c", "ü"][rng.below(4)]).collect::<Vec<_>>().join("/"));
        }
        let pre_refs: Vec<&str> = pre.iter().map(|x| x.as_str()).collect();
        one(sess, &pre_refs, &t, "random");
    }
    std::thread::spawn(move || {
        let _ = std::fs::remove_dir_all(&base);
    })
}

/// `save_dict("/")` and `save_dict(<HOME>/sub/x.txt)` in a traced child: the mkdir ATTEMPTS and the
/// files opened for writing, per target, vs `sde` (the root path has no parent: no mkdir at all).
fn savedict_scenario(sess: &mut Session, out_abs: &Path) -> Value {
    let tmp = out_abs.join("c10-savedict");
    let _ = std::fs::remove_dir_all(&tmp);
    std::fs::create_dir_all(&tmp).unwrap();
    let trace_file = out_abs.join("c10-savedict.strace");
    let _ = std::fs::remove_file(&trace_file);
    let exe = std::env::current_exe().unwrap();
    let output = std::process::Command::new("strace")
        .args(["-f", "-qq", "-e", &format!("trace={}", TRACE_SET), "-s", "4096", "-o"])
        .arg(&trace_file)
        .arg(&exe)
        .args(["C10-child", "savedict"])
        .arg(&tmp)
        .output();
    let (ok, stdout) = match &output {
        Ok(o) => (o.status.success(), String::from_utf8_lossy(&o.stdout).to_string()),
        Err(_) => (false, String::new()),
    };
    let child: Value = stdout.lines().find_map(|l| l.strip_prefix("C10-CHILD ")).and_then(|j| serde_json::from_str(j).ok()).unwrap_or(json!({}));
    let text = std::fs::read_to_string(&trace_file).unwrap_or_default();
    let traced_ok = ok && !text.is_empty() && child.get("error").is_none() && child.get("scenario").is_some();
    sess.monitor("strace could trace the child process and the scenario ran to its end", traced_ok);
    if !traced_ok {
        return json!({"error": "child did not run under strace", "child": child});
    }
    sess.monitor("save_dict(\"/\") fails (the root is a directory) and save_dict(<HOME>/sub/x.txt) succeeds", child["root_is_err"] == json!(true) && child["sub_is_ok"] == json!(true));
    let home = norm(&tmp.join("home").to_string_lossy());
    let sub = norm(&tmp.join("home").join("sub").join("x.txt").to_string_lossy());
    let calls = parse_trace(&text);
    let mut root_eff: BTreeSet<String> = BTreeSet::new();
    let mut sub_eff: BTreeSet<String> = BTreeSet::new();
    let mut bad: Vec<String> = vec![];
    for c in &calls {
        match c.name.as_str() {
            "openat" | "open" | "creat" => {
                let Some(path) = quoted(&c.args).into_iter().next() else { continue };
                let p = norm(&path);
                let writing = c.name == "creat" || ["O_WRONLY", "O_RDWR", "O_CREAT", "O_TRUNC", "O_APPEND"].iter().any(|f| c.args.contains(f));
                if !writing || p == "/dev/null" || p.starts_with("/proc/self/") {
                    continue;
                }
                if p == "/" {
                    root_eff.insert(format!("c:{}", cps(&p)));
                } else if p == sub {
                    sub_eff.insert(format!("c:{}", cps(&p)));
                } else {
                    bad.push(format!("write outside the target: {}({}) = {}", c.name, c.args, c.ret));
                }
            }
            "mkdir" | "mkdirat" => {
                let Some(path) = quoted(&c.args).into_iter().next() else { continue };
                let p = norm(&path);
                if p == home {
                    continue; // set_home, the harness's own
                }
                if p == "/" {
                    root_eff.insert(format!("m:{}", cps(&p)));
                } else if Path::new(&sub).starts_with(&p) {
                    sub_eff.insert(format!("m:{}", cps(&p)));
                } else {
                    bad.push(format!("mkdir outside the target's directory: {}({}) = {}", c.name, c.args, c.ret));
                }
            }
            "rename" | "renameat" | "renameat2" | "unlink" | "unlinkat" | "rmdir" | "link" | "linkat" | "symlink" | "symlinkat" | "truncate" | "chmod" | "fchmodat" => {
                bad.push(format!("file-modifying call the model does not have: {}({}) = {}", c.name, c.args, c.ret));
            }
            _ => {}
        }
    }
    let show = |e: &BTreeSet<String>| format!("ok {}", e.iter().cloned().collect::<Vec<_>>().join(" ")).trim_end().to_string();
    let case = sess.k("sde 47", &show(&root_eff));
    sess.k(&format!("sde {}", cps_sp(&sub)), &show(&sub_eff));
    sess.count("sde-cases");
    sess.count("sde-cases");
    sess.nontrivial("sde-root");
    sess.o();
    for b in &bad {
        sess.fail("c10-write-outside", format!("scenario savedict: {}", b), json!({"scenario": "savedict"}), Some(case));
    }
    json!({"root_path_effects": root_eff, "one_level_effects": sub_eff, "violations": bad, "syscalls_traced": calls.len(), "child": child})
}

fn strace_available() -> bool {
    std::process::Command::new("strace").arg("-V").output().map(|o| o.status.success()).unwrap_or(false)
}

pub fn run(ctx: &Ctx) {
    if ctx.prop == "C10-child" {
        // `hv C10-child <scenario> <tmpdir>`: the traced child process
        let args: Vec<String> = std::env::args().collect();
        child(&args[2..]);
        return;
    }
    let mut sess = Session::new(ctx);
    let mut rng = Rng::new(ctx.seed);
    let mut extra = serde_json::Map::new();
    std::fs::create_dir_all(&ctx.out).unwrap();
    let out_abs = std::fs::canonicalize(&ctx.out).unwrap();
    if let Some(v) = replay_input(ctx) {
        if let Some(u) = v["url"].as_str() {
            fdn_case(&mut sess, u, "replay");
        } else if v.get("cfgp").is_some() {
            cfgp_grid(&mut sess, &out_abs, Some(&v["cfgp"]));
        } else if v.get("mkd").is_some() {
            let base = out_abs.join("c10-mk-replay");
            let rt = tokio::runtime::Builder::new_current_thread().enable_all().build().unwrap();
            let pre: Vec<String> = v["mkd"]["pre"].as_array().map(|a| a.iter().filter_map(|x| x.as_str().map(|y| y.to_string())).collect()).unwrap_or_default();
            let _ = std::fs::remove_dir_all(&base);
            mkd_case(&mut sess, &rt, &base, 0, &pre, v["mkd"]["target"].as_str().unwrap_or(""), "replay");
            let _ = std::fs::remove_dir_all(&base);
        } else if let Some(sc) = v["scenario"].as_str() {
            if PATH_SCENARIOS.contains(&sc) && strace_available() {
                extra.insert(sc.to_string(), path_scenario(&mut sess, &out_abs, sc));
            } else if sc == "savedict" && strace_available() {
                extra.insert(sc.to_string(), savedict_scenario(&mut sess, &out_abs));
            } else if sc == "lib-wide" && strace_available() {
                extra.insert(sc.to_string(), w25_traced_child(&mut sess, &out_abs, "lib-wide", "eff lib"));
            } else if sc == "wasm-wide" && strace_available() {
                extra.insert(sc.to_string(), w25_traced_child(&mut sess, &out_abs, "wasm-wide", "eff wasm"));
            } else if sc == "server-wide" && strace_available() {
                extra.insert(sc.to_string(), w25_traced_child_opt(&mut sess, &out_abs, "server-wide", None));
            } else if sc.starts_with("cli-") && strace_available() {
                extra.insert("harper_cli_executable".into(), w25_cli_scenarios(&mut sess, &out_abs, ctx.tier == Tier::Thorough));
            }
        }
        sess.nontrivial("replay-a");
        sess.finish("replay of one recorded input", false, Value::Object(extra));
        return;
    }

    // ---- 0. traced sessions with tilde / relative / absolute configured paths (first, so that a
    //         failing SCENARIO is the replay the verdict driver names) -----------------------------
    let mut path_reports: Vec<(String, Value)> = vec![];
    if strace_available() {
        let t_ps = std::time::Instant::now();
        for sc in PATH_SCENARIOS {
            path_reports.push((sc.to_string(), path_scenario(&mut sess, &out_abs, sc)));
        }
        extra.insert("path_scenarios_seconds".into(), json!((t_ps.elapsed().as_secs_f64() * 100.0).round() / 100.0));
    }

    // ---- 1. file_dict_name vs the model ----------------------------------------------------------
    for u in hostile_urls() {
        fdn_case(&mut sess, &u, "corpus");
    }
    let frags = ["a", "b", ".", "..", "/", "//", "%2F", "%2f", "%2E", "%2e%2e", "%25", "%", "%00", "%FF", "%C3%BC", "ü", "😀", " ", "%20", "\\", "%5C", "~", "-", ":", "é", "x.txt", ".git", "..."];
    let nrand = if ctx.tier == Tier::Thorough { 60000 } else { 6000 };
    for _ in 0..nrand {
        let k = rng.range(1, 9);
        let mut s = String::from("file:///");
        for _ in 0..k {
            s.push_str(frags[rng.below(frags.len())]);
            if rng.chance(1, 2) {
                s.push('/');
            }
        }
        fdn_case(&mut sess, &s, "random");
    }

    // ---- 1b. configured path strings vs the model ------------------------------------------------
    cfgp_grid(&mut sess, &out_abs, None);

    // ---- 1c. what create_dir_all creates: the real save_dict in a sandbox vs the model (w24) ----------
    let t_mk = std::time::Instant::now();
    let mk_cleanup = mkd_streams(&mut sess, &mut rng, &out_abs, ctx.tier == Tier::Thorough);
    extra.insert("mkd_seconds".into(), json!((t_mk.elapsed().as_secs_f64() * 100.0).round() / 100.0));
    if strace_available() {
        let t_sd = std::time::Instant::now();
        path_reports.push(("savedict".to_string(), savedict_scenario(&mut sess, &out_abs)));
        extra.insert("savedict_seconds".into(), json!((t_sd.elapsed().as_secs_f64() * 100.0).round() / 100.0));
    }

    // ---- 2. lookups ------------------------------------------------------------------------------
    extra.insert("dependency_closure_lookup".into(), dependency_closure());
    w25_dependency_monitor(&mut sess, &dependency_closure());
    let scan = source_scan();
    sess.monitor("harper-ls main.rs binds exactly one listener, on 127.0.0.1:4000 (text search)", scan["listener_is_loopback_4000"] == json!(true));
    extra.insert("source_scan_lookup".into(), scan);

    // ---- 3. the three scenarios under strace -------------------------------------------------------
    if !strace_available() {
        extra.insert("trace".into(), json!("trace unavailable: `strace -V` does not run on this machine; the syscall comparison was skipped, only file_dict_name and the lookups were checked"));
        sess.count("trace-unavailable");
        let _ = mk_cleanup.join();
        sess.finish(
            "file_dict_name vs the model on hostile and random file URLs; syscall tracing UNAVAILABLE (strace missing)",
            false,
            Value::Object(extra),
        );
        return;
    }
    let exe = std::env::current_exe().unwrap();
    let mut scen_report = serde_json::Map::new();
    for scenario in ["lib", "wasm", "server"] {
        let tmp = out_abs.join(format!("c10-{}", scenario));
        let _ = std::fs::remove_dir_all(&tmp);
        std::fs::create_dir_all(&tmp).unwrap();
        let trace_file = out_abs.join(format!("c10-{}.strace", scenario));
        let _ = std::fs::remove_file(&trace_file);
        let t0 = std::time::Instant::now();
        let output = std::process::Command::new("strace")
            .args(["-f", "-qq", "-e", &format!("trace={}", TRACE_SET), "-s", "4096", "-o"])
            .arg(&trace_file)
            .arg(&exe)
            .args(["C10-child", scenario])
            .arg(&tmp)
            .output();
        let secs = t0.elapsed().as_secs_f64();
        let (ok, stdout, stderr) = match &output {
            Ok(o) => (o.status.success(), String::from_utf8_lossy(&o.stdout).to_string(), String::from_utf8_lossy(&o.stderr).to_string()),
            Err(e) => (false, String::new(), e.to_string()),
        };
        let child: Value = stdout.lines().find_map(|l| l.strip_prefix("C10-CHILD ")).and_then(|j| serde_json::from_str(j).ok()).unwrap_or(json!({}));
        let text = std::fs::read_to_string(&trace_file).unwrap_or_default();
        let traced_ok = ok && !text.is_empty() && child.get("error").is_none() && child.get("scenario").is_some();
        sess.monitor("strace could trace the child process and the scenario ran to its end", traced_ok);
        if !traced_ok {
            scen_report.insert(scenario.into(), json!({"error": "child did not run under strace", "stderr": trunc(&stderr, 400), "child": child}));
            continue;
        }
        let calls = parse_trace(&text);
        let home = tmp.join("home").to_string_lossy().to_string();
        let sc = Scope {
            home: tmp.to_string_lossy().to_string(),
            user: child["user_dict"].as_str().unwrap_or("").to_string(),
            fdir: child["file_dict_dir"].as_str().unwrap_or("").trim_end_matches('/').to_string(),
            stats: child["stats"].as_str().unwrap_or("").to_string(),
            own: vec![],
        };
        let _ = home;
        let docs: Vec<String> = child["docs"].as_array().map(|a| a.iter().filter_map(|x| x.as_str().map(|s| s.to_string())).collect()).unwrap_or_default();
        // the scenario as model entries
        let doc_cps = |p: &str| p.chars().map(|c| (c as u32).to_string()).collect::<Vec<_>>().join(" ");
        let op = match scenario {
            "lib" => "eff lib".to_string(),
            "wasm" => "eff wasm".to_string(),
            _ => {
                let (a, r, m) = (&docs[0], &docs[1], &docs[2]);
                format!(
                    "eff stdio | upd 0 {a} | upd 0 {a} | save 1 0 {a} | addu 1 0 {a} | addf 1 0 {a} | upd 1 {r} | addf 1 0 {r} | upd 0 {m} | action | record | ignore | cfg 1 0 {a} ; 1 0 {r} ; 0 0 {m} | deleted | close | shutdown",
                    a = doc_cps(a),
                    r = doc_cps(r),
                    m = doc_cps(m)
                )
            }
        };
        // the child itself writes the two document files (as the editor); those are the harness's own
        let mut sc = sc;
        sc.own = docs.clone();
        sc.own.push(norm(&tmp.join("docs").to_string_lossy()));
        sc.own.push(norm(&tmp.join("docs").join("src").to_string_lossy()));
        sc.own.push(norm(&tmp.join("home").to_string_lossy()));
        // set_home creates HOME; the scenario creates docs/: exempt these mkdirs explicitly
        let calls: Vec<Sys> = calls
            .into_iter()
            .filter(|c| {
                if c.name.starts_with("mkdir") {
                    let p = quoted(&c.args).into_iter().next().map(|p| norm(&p)).unwrap_or_default();
                    !(sc.own.contains(&p) || p == sc.home)
                } else {
                    true
                }
            })
            .collect();
        let t = classify(&calls, &sc, &docs);
        let imp = format!("ok {}", t.effects.iter().cloned().collect::<Vec<_>>().join(" ")).trim_end().to_string();
        let case = sess.k(&op, &imp);
        sess.nontrivial(&op);
        sess.o();
        for b in &t.bad {
            let class = if b.starts_with("network") { "c10-network-syscall" } else { "c10-write-outside" };
            sess.fail(class, format!("scenario {}: {}", scenario, b), json!({"scenario": scenario}), Some(case));
        }
        if !t.unix_sockets.is_empty() {
            sess.count("af-unix-sockets-seen");
        }
        for r in w25_resolver_reads(&calls) {
            sess.fail("c10-resolver-files-read", format!("scenario {}: the host-name resolver's files are read: {}", scenario, r), json!({"scenario": scenario}), Some(case));
        }
        scen_report.insert(
            scenario.into(),
            json!({
                "syscalls_traced": t.n_calls, "seconds": (secs * 100.0).round() / 100.0,
                "network_family_calls": t.network, "af_unix_sockets": t.unix_sockets,
                "effects_observed": t.effects, "violations": t.bad,
                "child": child,
            }),
        );
    }
    // (w25) a wider library scenario, and the command-line executable
    scen_report.insert("lib-wide".into(), w25_traced_child(&mut sess, &out_abs, "lib-wide", "eff lib"));
    scen_report.insert("wasm-wide".into(), w25_traced_child(&mut sess, &out_abs, "wasm-wide", "eff wasm"));
    scen_report.insert("server-wide".into(), w25_traced_child_opt(&mut sess, &out_abs, "server-wide", None));
    extra.insert("harper_cli_executable".into(), w25_cli_scenarios(&mut sess, &out_abs, ctx.tier == Tier::Thorough));
    for (k, v) in path_reports {
        scen_report.insert(k, v);
    }
    extra.insert("scenarios".into(), Value::Object(scen_report));
    // (re)built by the thorough tier, on request, and — incrementally — whenever it exists already, so
    // that it always reflects /repo's working tree
    if ctx.tier == Tier::Thorough || std::env::var("VERIF_C10_BUILD_LS").is_ok() || ls_binary_path().exists() {
        if let Err(e) = build_ls_binary(if ctx.tier == Tier::Thorough { 900 } else { 240 }) {
            let _ = std::fs::remove_file(ls_binary_path()); // never trace a stale executable
            extra.insert("harper_ls_executable_build".into(), json!(e));
        }
    }
    if ls_binary_path().exists() {
        extra.insert("harper_ls_executable".into(), binary_scenarios(&mut sess, &out_abs));
    } else {
        extra.insert("harper_ls_executable".into(), json!("not built yet (the thorough tier builds it into harness/target/lsbin); the in-process server scenario above is the trace that was compared"));
    }
    extra.insert("trace".into(), json!(format!("strace -f -qq -e trace={}", TRACE_SET)));
    let t_join = std::time::Instant::now();
    let _ = mk_cleanup.join();
    extra.insert("mkd_cleanup_wait_seconds".into(), json!((t_join.elapsed().as_secs_f64() * 100.0).round() / 100.0));
    sess.finish(
        "file_dict_name vs the model on a hostile-URL corpus (.., %2F, %2E, NUL, invalid UTF-8, astral, 5000-char, non-file URLs) and random URLs over 28 fragments; Config::from_lsp_config vs the model on the full grid of 20 values (absent, non-string, null, 17 path strings: ~, ~/x, ~/, ~//x/./y, ~/../z, ~user/x, relative, ./x, ../x, absolute, empty, …) for each of userDictPath × fileDictPath × statsPath with HOME and the current directory two different temp dirs, plus XDG_CONFIG_HOME / XDG_DATA_HOME variations; four traced server sessions whose configuration answers carry tilde / relative / absolute paths (add-to-user-dict, add-to-file-dict, shutdown) whose write set must equal the resolved configured paths, and whose successful mkdir calls — ancestors included — must equal the model's dirsCreated (a fifth session has three missing ancestors above each configured location); the real save_dict in a sandbox on every target of ≤ 3 (thorough: ≤ 4) components over {a, b, .., .} × four initial file systems, a corpus and random longer targets: the directories that exist afterwards vs the model, and nothing created off the way to the target; save_dict(\"/\") under strace (no mkdir at all); three scenarios (library pipeline over 11 languages, harper_wasm::Linter natively, in-process language server session ending in shutdown/save_stats) each in a child process under strace: traced write set + reads under the temp HOME vs the effect model's prediction, and no network-family syscall at all. Non-trivial = a file_dict_name result of ≥2 characters or a traced scenario.",
        false,
        Value::Object(extra),
    );
}

// ------------------------------------------------------------------------------------------
// w25 additions: the command-line component under strace, the resolver's files, the dependency
// closure as a monitor, a wider library scenario (oracle-only, or reusing the `eff lib` op)
// ------------------------------------------------------------------------------------------

/// The syscall-level footprint of `getaddrinfo` that needs no socket: the resolver's configuration
/// and host tables opened for reading ("resolves a host name" with a `files`-only resolver).
fn w25_resolver_reads(calls: &[Sys]) -> Vec<String> {
    const RESOLVER_FILES: [&str; 6] = ["/etc/resolv.conf", "/etc/hosts", "/etc/host.conf", "/etc/gai.conf", "/etc/hosts.allow", "/run/systemd/resolve/stub-resolv.conf"];
    let mut out = vec![];
    for c in calls {
        if matches!(c.name.as_str(), "openat" | "open") {
            if let Some(p) = quoted(&c.args).into_iter().next() {
                let p = norm(&p);
                if RESOLVER_FILES.contains(&p.as_str()) {
                    out.push(format!("{}({}) = {}", c.name, c.args, c.ret));
                }
            }
        }
    }
    out
}

fn w25_cli_binary_path() -> PathBuf {
    PathBuf::from(env!("CARGO_MANIFEST_DIR")).join("target").join("lsbin").join("debug").join("harper-cli")
}

/// `cargo build -p harper-cli` into the harness's own target directory (as C13 does; `--locked`).
fn w25_build_cli_binary(timeout_s: u64) -> Result<(), String> {
    let target = PathBuf::from(env!("CARGO_MANIFEST_DIR")).join("target").join("lsbin");
    let mut child = std::process::Command::new("cargo")
        .args(["build", "--offline", "--locked", "-p", "harper-cli", "--manifest-path", "/repo/Cargo.toml", "--target-dir"])
        .arg(&target)
        .env("CARGO_NET_OFFLINE", "true")
        .stdout(std::process::Stdio::null())
        .stderr(std::process::Stdio::null())
        .spawn()
        .map_err(|e| e.to_string())?;
    let t0 = std::time::Instant::now();
    loop {
        match child.try_wait() {
            Ok(Some(st)) => return if st.success() { Ok(()) } else { Err(format!("cargo build -p harper-cli failed ({})", st)) },
            Ok(None) => {
                if t0.elapsed().as_secs() > timeout_s {
                    let _ = child.kill();
                    return Err(format!("cargo build -p harper-cli did not finish in {} s", timeout_s));
                }
                std::thread::sleep(std::time::Duration::from_millis(100));
            }
            Err(e) => return Err(e.to_string()),
        }
    }
}

/// The COMMAND-LINE component: the real `harper-cli` executable, every sub-command that parses,
/// lints or summarises, each in its own process under strace, on Markdown / Rust / Typst / literate
/// Haskell documents (non-ASCII file name, CRLF, astral characters, an empty document), with
/// explicit and with default (HOME / XDG) dictionary paths, an existing user dictionary, and a
/// statistics log. O: no network-family syscall, no resolver file read, and no file created,
/// modified, renamed, removed or directory made other than the configured dictionary / statistics
/// files (harper-cli persists nothing, so in fact: no write at all).
fn w25_cli_scenarios(sess: &mut Session, out_abs: &Path, thorough: bool) -> Value {
    if let Err(e) = w25_build_cli_binary(if thorough { 900 } else { 240 }) {
        let _ = std::fs::remove_file(w25_cli_binary_path()); // never trace a stale executable
        sess.count("cli:not-built(stream skipped)");
        return json!({"error": e});
    }
    let bin = w25_cli_binary_path();
    let tmp = out_abs.join("c10-cli");
    let _ = std::fs::remove_dir_all(&tmp);
    let home = tmp.join("home");
    let docs = tmp.join("docs");
    let user = home.join("config").join("harper-ls").join("dictionary.txt");
    let fdir = home.join("data").join("harper-ls").join("file_dictionaries");
    let stats = home.join("data").join("harper-ls").join("stats.txt");
    std::fs::create_dir_all(user.parent().unwrap()).unwrap();
    std::fs::create_dir_all(&fdir).unwrap();
    std::fs::create_dir_all(&docs).unwrap();
    std::fs::write(&user, "zqprivateword\nzqsecond\n").unwrap();
    let md = docs.join("my notes ü.md");
    let rs = docs.join("lib.rs");
    let typ = docs.join("paper.typ");
    let lhs = docs.join("story.lhs");
    let empty = docs.join("empty.md");
    let long = docs.join("long.md");
    std::fs::write(&md, "# Private notes 😀\r\n\r\nThis is an test of the the checker. Teh end, zqprivateword.\r\nMy pasword is hunter2 , dont tell any one — see https://example.com/secret?token=abc and mail me@example.com.\r\n\r\n* ｆｕｌｌｗｉｄｔｈ and e\u{301} and 👩\u{200d}👩\u{200d}👧\r\n").unwrap();
    std::fs::write(&rs, "//! Teh crate docs, see <https://example.org/x>.\n/// An helper fucntion for zqident.\nfn zqident() {} // the the end\n").unwrap();
    std::fs::write(&typ, "= Teh title\n\nThis is an test of #emph[the the] checker. See #link(\"https://example.net\")[here].\n").unwrap();
    std::fs::write(&lhs, "Teh literate intro with an error.\n\n> main = putStrLn \"hi\"\n\nAnd teh the the end.\n").unwrap();
    std::fs::write(&empty, "").unwrap();
    std::fs::write(&long, "This is an test of teh checker with a verylongwordverylongwordverylongwordverylongwordverylongword inside. ".repeat(if thorough { 30 } else { 10 })).unwrap();
    {
        use harper_stats::{Record, RecordKind, Stats};
        let mk = |content: &str| {
            Record::now(RecordKind::Lint {
                kind: harper_core::linting::LintKind::Spelling,
                context: vec![harper_core::FatStringToken { content: content.to_string(), kind: harper_core::TokenKind::Word(None) }],
            })
        };
        let st = Stats { records: vec![mk("teh"), mk("pasword \"x\"\r\n😀"), mk("teh")] };
        if let Ok(mut f) = std::fs::File::create(&stats) {
            let _ = st.write(&mut f);
        }
    }
    // a file dictionary for the Markdown document, under the name harper-cli derives for it
    // (harper-cli's own, path-based naming: every component but the root, each followed by `%`)
    let fd_name: String = md.components().filter(|c| !matches!(c, Component::RootDir)).map(|c| format!("{}%", c.as_os_str().to_string_lossy())).collect();
    let _ = std::fs::write(fdir.join(&fd_name), "hunter2\n");
    let s = |p: &Path| p.to_string_lossy().to_string();
    let mut runs: Vec<(&str, Vec<String>, bool)> = vec![
        // (name, arguments, default paths from HOME/XDG instead of explicit ones)
        ("lint-md-explicit-paths", vec!["lint".into(), s(&md), "--user-dict-path".into(), s(&user), "--file-dict-path".into(), s(&fdir)], false),
        ("lint-rs-default-paths-british", vec!["lint".into(), s(&rs), "--dialect".into(), "British".into()], true),
        ("lint-typ-count-one-rule", vec!["lint".into(), s(&typ), "--count".into(), "--only-lint-with".into(), "SpellCheck".into()], true),
        ("spans-lhs", vec!["spans".into(), s(&lhs), "--include-newlines".into()], true),
        ("summarize-lint-record", vec!["summarize-lint-record".into(), s(&stats)], true),
    ];
    if thorough {
        runs.push(("lint-empty-md", vec!["lint".into(), s(&empty)], true));
        runs.push(("parse-md", vec!["parse".into(), s(&md)], true));
        runs.push(("mine-words-long-md", vec!["mine-words".into(), s(&long)], true));
        runs.push(("lint-long-md-australian", vec!["lint".into(), s(&long), "--dialect".into(), "Australian".into()], true));
        runs.push(("lint-lhs-canadian", vec!["lint".into(), s(&lhs), "--dialect".into(), "Canadian".into()], true));
        runs.push(("config", vec!["config".into()], true));
        runs.push(("metadata", vec!["metadata".into(), "teh".into()], true));
        runs.push(("forms", vec!["forms".into(), "walk/DGS".into()], true));
        runs.push(("words", vec!["words".into()], true));
        runs.push(("lint-missing-file", vec!["lint".into(), s(&docs.join("no such file.md"))], true));
    }
    let t0 = std::time::Instant::now();
    let results = par_map(runs.len(), 8, |i| {
        let (name, args, _) = &runs[i];
        let trace_file = out_abs.join(format!("c10-cli-{}.strace", name));
        let _ = std::fs::remove_file(&trace_file);
        let out = std::process::Command::new("strace")
            .args(["-f", "-qq", "-e", &format!("trace={}", TRACE_SET), "-s", "4096", "-o"])
            .arg(&trace_file)
            .arg(&bin)
            .args(args)
            .env("HOME", &home)
            .env("XDG_CONFIG_HOME", home.join("config"))
            .env("XDG_DATA_HOME", home.join("data"))
            .env_remove("XDG_CACHE_HOME")
            .current_dir(&docs)
            .stdin(std::process::Stdio::null())
            .stdout(std::process::Stdio::piped())
            .stderr(std::process::Stdio::piped())
            .output();
        let text = std::fs::read_to_string(&trace_file).unwrap_or_default();
        (out.ok().map(|o| (o.status.code(), o.stdout.len(), String::from_utf8_lossy(&o.stderr).to_string())), text)
    });
    let mut rep = serde_json::Map::new();
    rep.insert("seconds".into(), json!((t0.elapsed().as_secs_f64() * 100.0).round() / 100.0));
    let doc_reads: Vec<String> = [&md, &rs, &typ, &lhs, &empty, &long].iter().map(|p| s(p)).collect();
    for ((name, args, _), (out, text)) in runs.iter().zip(results.into_iter()) {
        // `lint` exits 1 when it reports lints; a missing file is an error exit — both are runs of the real code
        let ran = matches!(&out, Some((Some(c), _, _)) if *c == 0 || *c == 1) && !text.is_empty();
        sess.monitor("strace could trace harper-cli and the sub-command ran to its end", ran);
        if !ran {
            rep.insert(name.to_string(), json!({"error": "harper-cli did not run under strace", "detail": format!("{:?}", out.as_ref().map(|o| (o.0, trunc(&o.2, 300))))}));
            continue;
        }
        let calls = parse_trace(&text);
        let sc = Scope { home: s(&tmp), user: s(&user), fdir: s(&fdir), stats: s(&stats), own: vec![] };
        let t = classify(&calls, &sc, &doc_reads);
        let resolver = w25_resolver_reads(&calls);
        sess.o();
        sess.count(&format!("cli-scenario:{}", name));
        sess.nontrivial(&format!("cli|{}", name));
        let input = json!({"scenario": format!("cli-{}", name), "args": args});
        for b in &t.bad {
            let class = if b.starts_with("network") { "c10-cli-network-syscall" } else { "c10-cli-write-outside" };
            sess.fail(class, format!("real harper-cli ({}): {}", name, b), input.clone(), None);
        }
        for r in &resolver {
            sess.fail("c10-cli-resolver-files-read", format!("real harper-cli ({}): the host-name resolver's files are read: {}", name, r), input.clone(), None);
        }
        // what it read under the temp HOME: the dictionaries it was pointed at (reported)
        let writes: Vec<&String> = t.effects.iter().filter(|e| !e.starts_with("r:")).collect();
        if !writes.is_empty() {
            sess.count("cli-scenario:writes-to-configured-files");
        }
        rep.insert(
            name.to_string(),
            json!({"syscalls_traced": t.n_calls, "exit": out.as_ref().and_then(|o| o.0), "stdout_bytes": out.as_ref().map(|o| o.1), "effects_observed": t.effects,
                   "network_family_calls": t.network, "af_unix_sockets": t.unix_sockets, "resolver_files_read": resolver, "violations": t.bad}),
        );
    }
    Value::Object(rep)
}

/// The dependency closure as an assumption monitor: no network-capable crate in the `Cargo.lock`
/// closure of harper-core, harper-wasm and harper-cli; in harper-ls's only what tokio's `net`
/// feature (the loopback listener) brings in.
fn w25_dependency_monitor(sess: &mut Session, closure: &Value) {
    const LS_ALLOWED: [&str; 2] = ["mio", "socket2"];
    let mut unexpected: Vec<String> = vec![];
    for root in ["harper-ls", "harper-cli", "harper-wasm", "harper-core"] {
        let hits: Vec<String> = closure[root]["network_capable_crates_found"].as_array().map(|a| a.iter().filter_map(|x| x.as_str().map(|y| y.to_string())).collect()).unwrap_or_default();
        for h in hits {
            if !(root == "harper-ls" && LS_ALLOWED.contains(&h.as_str())) {
                unexpected.push(format!("{}→{}", root, h));
            }
        }
        sess.monitor("the Cargo.lock closure of the shipped crate could be computed", closure[root]["crates_in_closure"].as_u64().unwrap_or(0) > 1);
    }
    sess.monitor("no network-capable crate in the Cargo.lock closure of harper-core / harper-wasm / harper-cli; harper-ls: only tokio's mio + socket2 (lookup)", unexpected.is_empty());
    if !unexpected.is_empty() {
        sess.count(&format!("dependency-closure:unexpected:{}", unexpected.join(",")));
    }
}

/// child scenario `lib-wide` (same effect prediction as `lib`: the library touches nothing): every
/// `Document::new*` constructor × every dialect on empty / whitespace-only / CRLF / lone-CR / astral /
/// combining / fullwidth / very long texts, a merged dictionary with user words (case variants,
/// apostrophes), title-casing, and `Stats::write` / `Stats::read` in memory.
fn w25_child_lib_wide(out: &mut Value) {
    use harper_core::linting::{LintGroup, Linter};
    use harper_core::{Dialect, Document, FstDictionary, MergedDictionary, MutableDictionary, WordMetadata};
    let curated = FstDictionary::curated();
    let mut user = MutableDictionary::new();
    for w in ["zqprivateword", "Zqprivateword", "ZQPRIVATEWORD", "o'zq", "O’Zq", "naïveté"] {
        user.append_word_str(w, WordMetadata::default());
    }
    let mut merged = MergedDictionary::new();
    merged.add_dictionary(curated.clone());
    merged.add_dictionary(std::sync::Arc::new(user));
    let merged = std::sync::Arc::new(merged);
    let long_word = "verylongword".repeat(25);
    let long_doc = "This is an test of teh checker, zqprivateword. ".repeat(40);
    let texts: Vec<String> = vec![
        "".into(),
        " \t ".into(),
        "\r\n\r\n".into(),
        "Teh first line.\r\nThe the second line.\rA lone CR line.\n".into(),
        "Private 😀 notes: my pasword is hunter2 , dont tell any one. 👩\u{200d}👩\u{200d}👧 e\u{301}\u{301} ｆｕｌｌｗｉｄｔｈ ｔｅｈ.".into(),
        format!("An {} here.", long_word),
        long_doc,
        "Teh teh teh teh. An apple an apple an orange an orange. o'zq O’Zq ZQPRIVATEWORD naïveté.".into(),
        "# Teh title\n\n* an item , here\n* [a link](https://example.com/secret?token=abc) and `code`\n\n> quoted teh\n".into(),
    ];
    let mut n = 0usize;
    let mut docs = 0usize;
    for (di, dialect) in [Dialect::American, Dialect::British, Dialect::Australian, Dialect::Canadian].into_iter().enumerate() {
        for (ti, text) in texts.iter().enumerate() {
            // every constructor with every text, every dialect with every text; not the full cube
            for ctor in [(ti + di) % 4] {
                if (ti == 5 || ti == 6) && di > 1 {
                    continue; // the long texts: two dialects are enough (spell-checking them is slow under strace)
                }
                let r = guarded(|| {
                    let doc = match ctor {
                        0 => Document::new_plain_english(text, &*merged),
                        1 => Document::new_markdown_default(text, &*merged),
                        2 => Document::new_plain_english_curated(text),
                        _ => Document::new_markdown_default_curated(text),
                    };
                    let mut g = if ctor < 2 { LintGroup::new_curated(merged.clone(), dialect) } else { LintGroup::new_curated(curated.clone(), dialect) };
                    if ti % 2 == 0 {
                        g.config.fill_with_curated();
                    } else {
                        g.set_all_rules_to(Some(true));
                    }
                    // a long-lived group: lint twice
                    let a = g.lint(&doc).len();
                    let b = g.lint(&doc).len();
                    a + b
                });
                docs += 1;
                if let Ok(k) = r {
                    n += k;
                }
            }
        }
    }
    let _ = guarded(|| harper_core::make_title_case_str("a tale of teh two cities 😀", &harper_core::parsers::PlainEnglish, &*curated));
    // statistics through memory only
    let recs = {
        use harper_stats::{Record, RecordKind, Stats};
        let st = Stats { records: vec![Record::now(RecordKind::LintConfigUpdate(harper_core::linting::LintGroupConfig::default()))] };
        let mut buf = Vec::new();
        let _ = st.write(&mut buf);
        Stats::read(&mut std::io::Cursor::new(buf)).map(|s| s.records.len()).unwrap_or(0)
    };
    out["lints"] = json!(n);
    out["documents"] = json!(docs);
    out["stats_records"] = json!(recs);
}

/// Run one child scenario of this executable under strace and judge it like `run` judges `lib`.
fn w25_traced_child(sess: &mut Session, out_abs: &Path, scenario: &str, op: &str) -> Value {
    w25_traced_child_opt(sess, out_abs, scenario, Some(op))
}

/// `op = None`: oracle only (no model line: the scenario's script has no op in the Lean driver)
fn w25_traced_child_opt(sess: &mut Session, out_abs: &Path, scenario: &str, op: Option<&str>) -> Value {
    let exe = std::env::current_exe().unwrap();
    let tmp = out_abs.join(format!("c10-{}", scenario));
    let _ = std::fs::remove_dir_all(&tmp);
    std::fs::create_dir_all(&tmp).unwrap();
    let trace_file = out_abs.join(format!("c10-{}.strace", scenario));
    let _ = std::fs::remove_file(&trace_file);
    let t0 = std::time::Instant::now();
    let output = std::process::Command::new("strace")
        .args(["-f", "-qq", "-e", &format!("trace={}", TRACE_SET), "-s", "4096", "-o"])
        .arg(&trace_file)
        .arg(&exe)
        .args(["C10-child", scenario])
        .arg(&tmp)
        .output();
    let secs = t0.elapsed().as_secs_f64();
    let (ok, stdout, stderr) = match &output {
        Ok(o) => (o.status.success(), String::from_utf8_lossy(&o.stdout).to_string(), String::from_utf8_lossy(&o.stderr).to_string()),
        Err(e) => (false, String::new(), e.to_string()),
    };
    let child: Value = stdout.lines().find_map(|l| l.strip_prefix("C10-CHILD ")).and_then(|j| serde_json::from_str(j).ok()).unwrap_or(json!({}));
    let text = std::fs::read_to_string(&trace_file).unwrap_or_default();
    let traced_ok = ok && !text.is_empty() && child.get("error").is_none() && child.get("scenario").is_some();
    sess.monitor("strace could trace the child process and the scenario ran to its end", traced_ok);
    if !traced_ok {
        return json!({"error": "child did not run under strace", "stderr": trunc(&stderr, 400), "child": child});
    }
    let calls = parse_trace(&text);
    let own = vec![norm(&tmp.join("home").to_string_lossy())];
    let sc = Scope {
        home: tmp.to_string_lossy().to_string(),
        user: child["user_dict"].as_str().unwrap_or("").to_string(),
        fdir: child["file_dict_dir"].as_str().unwrap_or("").trim_end_matches('/').to_string(),
        stats: child["stats"].as_str().unwrap_or("").to_string(),
        own: own.clone(),
    };
    let calls: Vec<Sys> = calls
        .into_iter()
        .filter(|c| {
            if c.name.starts_with("mkdir") {
                let p = quoted(&c.args).into_iter().next().map(|p| norm(&p)).unwrap_or_default();
                !(own.contains(&p) || p == sc.home)
            } else {
                true
            }
        })
        .collect();
    let t = classify(&calls, &sc, &[]);
    let resolver = w25_resolver_reads(&calls);
    let imp = format!("ok {}", t.effects.iter().cloned().collect::<Vec<_>>().join(" ")).trim_end().to_string();
    let _ = &imp;
    let case = op.map(|op| sess.k(op, &imp));
    sess.nontrivial(&format!("{}|{}", op.unwrap_or("o-only"), scenario));
    sess.o();
    sess.count(&format!("traced-child:{}", scenario));
    for b in &t.bad {
        let class = if b.starts_with("network") { "c10-network-syscall" } else { "c10-write-outside" };
        sess.fail(class, format!("scenario {}: {}", scenario, b), json!({"scenario": scenario}), case);
    }
    for r in &resolver {
        sess.fail("c10-resolver-files-read", format!("scenario {}: the host-name resolver's files are read: {}", scenario, r), json!({"scenario": scenario}), case);
    }
    json!({"syscalls_traced": t.n_calls, "seconds": (secs * 100.0).round() / 100.0, "network_family_calls": t.network, "af_unix_sockets": t.unix_sockets,
           "effects_observed": t.effects, "resolver_files_read": resolver, "violations": t.bad, "child": child})
}

/// child scenario `wasm-wide` (same effect prediction as `wasm`: the JS-facing API touches nothing):
/// every dialect, Markdown and plain, hostile texts, a LONG-LIVED linter (configuration set from JSON
/// with null / unknown keys, words imported, lints ignored, suggestions applied, statistics and
/// ignore lists exported and imported into a NEW linter), every natively callable method.
fn w25_child_wasm_wide(out: &mut Value) {
    use harper_wasm::{Dialect as WDialect, Language, Linter as WLinter};
    let texts = [
        "".to_string(),
        "\r\n \t".to_string(),
        "This is an test of the the checker.\r\nTeh end, zqprivateword.\rA lone CR.".to_string(),
        "# Private 😀 notes\n\nmy pasword is hunter2 , dont tell any one. 👩\u{200d}👩\u{200d}👧 e\u{301} ｆｕｌｌｗｉｄｔｈ ｔｅｈ. See https://example.com/x?token=abc\n\n* teh item\n* teh item\n".to_string(),
        "Teh checker. ".repeat(60),
    ];
    let mut lints_n = 0usize;
    let mut applied = 0usize;
    let mut exports = vec![];
    for d in [WDialect::American, WDialect::British, WDialect::Australian, WDialect::Canadian] {
        let mut l = WLinter::new(d);
        let _ = l.get_dialect();
        let _ = l.set_lint_config_from_json(r#"{"SpellCheck": true, "LongSentences": null, "NoSuchRule": false}"#.to_string());
        l.import_words(vec!["zqprivateword".into(), "Zqprivateword".into(), "o'zq".into(), "naïveté".into()]);
        for t in &texts {
            for lang in [Language::Plain, Language::Markdown] {
                let Ok(ls) = guarded(|| l.lint(t.clone(), lang)) else { continue };
                lints_n += ls.len();
                if let Some(first) = ls.first() {
                    if let Some(sg) = first.suggestions().first() {
                        if guarded(|| l.apply_suggestion(t.clone(), first, sg)).is_ok() {
                            applied += 1;
                        }
                    }
                }
                if let Some(last) = ls.into_iter().last() {
                    let _ = guarded(|| l.ignore_lint(t.clone(), last));
                }
                let _ = guarded(|| l.lint(t.clone(), lang)); // again, on the long-lived instance
                let _ = guarded(|| l.is_likely_english(t.clone()));
                let _ = guarded(|| l.isolate_english(t.clone()));
            }
        }
        let stats = l.generate_stats_file();
        let ignored = l.export_ignored_lints();
        let words = l.export_words();
        let cfg = l.get_lint_config_as_json();
        let _ = l.get_lint_descriptions_as_json();
        // a NEW linter takes everything over
        let mut fresh = WLinter::new(d);
        let _ = fresh.import_stats_file(stats.clone());
        let _ = fresh.import_ignored_lints(ignored);
        fresh.import_words(words);
        let _ = fresh.set_lint_config_from_json(cfg);
        let _ = guarded(|| fresh.lint(texts[3].clone(), Language::Markdown));
        fresh.clear_ignored_lints();
        exports.push(stats.lines().count());
    }
    let _ = harper_wasm::get_default_lint_config_as_json();
    let _ = guarded(|| harper_wasm::to_title_case("a tale of teh two cities 😀\r\n".to_string()));
    out["lints"] = json!(lints_n);
    out["applied"] = json!(applied);
    out["stats_lines"] = json!(exports);
}

/// child scenario `server-wide`: the in-process server on every language family `update_document`
/// switches on (tree-sitter comments with an identifier dictionary, literate Haskell, Markdown, git
/// commit, HTML, mail / plain text, Typst, an unknown language id), hostile texts, two documents open
/// at once, the real code-action commands (ignore, record) executed with their embedded arguments,
/// words with apostrophes and case variants added to both dictionaries, configuration changes with
/// null and unknown keys, and a SECOND session on the same HOME (new instance on old files).
fn w25_child_server_wide(out: &mut Value, tmp: &Path) {
    let docs_dir = tmp.join("docs");
    let hostile = "This is an test of the the checker.\r\nTeh end 😀, zqprivateword and ｔｅｈ e\u{301}.\rMy pasword is hunter2 , see https://example.com/x?token=abc";
    let docs: Vec<(String, &str, String)> = vec![
        (file_url(&docs_dir.join("a ü.txt")), "plaintext", hostile.to_string()),
        (file_url(&docs_dir.join("b.md")), "markdown", format!("# Teh title\n\n{}\n\n* teh item\n* teh item\n", hostile)),
        (file_url(&docs_dir.join("c.py")), "python", "# Teh helper fucntion for zq_ident , see the the docs\ndef zq_ident():\n    pass  # an error\n".to_string()),
        (file_url(&docs_dir.join("d.lhs")), "literate haskell", "Teh literate intro with an error.\n\n> zqMain = putStrLn \"hi\"\n\nAnd teh the the end.\n".to_string()),
        (file_url(&docs_dir.join("COMMIT_EDITMSG")), "gitcommit", "Fix teh bug\n\nThis is an test.\n# Please enter the commit message\n".to_string()),
        (file_url(&docs_dir.join("e.html")), "html", "<html><body><p>This is an test of teh <b>the the</b> checker.</p><script>var teh = 1;</script></body></html>".to_string()),
        (file_url(&docs_dir.join("f.eml")), "mail", "Teh mail body with an error.\r\n".to_string()),
        (file_url(&docs_dir.join("g.typ")), "typst", "= Teh title\n\nThis is an test of #emph[the the] checker.\n".to_string()),
        (file_url(&docs_dir.join("h.xyz")), "no-such-language", "Teh text in an unknown language id.".to_string()),
        (file_url(&docs_dir.join("empty.md")), "markdown", "".to_string()),
        ("untitled:Untitled-1".to_string(), "plaintext", "Teh untitled buffer with an error.".to_string()),
    ];
    let cfg = json!({"harper-ls": {}});
    let cfg2 = json!({"harper-ls": {"diagnosticSeverity": "error", "dialect": "British", "linters": {"SpellCheck": true, "LongSentences": null, "NoSuchRule": false}, "codeActions": {"ForceStable": true}, "markdown": {"IgnoreLinkTitle": true}, "isolateEnglish": true, "unknownKey": null}});
    let res: Result<Value, LsError> = (|| {
        let mut executed = 0;
        let mut pubs = 0;
        for session in 0..2 {
            let c = if session == 0 { &cfg } else { &cfg2 };
            let mut ls = LsSession::start()?;
            ls.initialize(c)?;
            for (uri, lang, text) in &docs {
                ls.notify("textDocument/didOpen", did_open(uri, lang, text))?;
            }
            ls.quiesce(c)?;
            for (i, (uri, _, text)) in docs.iter().enumerate() {
                let diags: Vec<Value> = ls.last_publication(uri).and_then(|d| d.as_array().cloned()).unwrap_or_default();
                for d in diags.iter().take(2) {
                    let start = d["range"]["start"].clone();
                    let resp = ls.request_sync("textDocument/codeAction", json!({"textDocument": {"uri": uri}, "range": {"start": start, "end": start}, "context": {"diagnostics": []}}), c)?;
                    let mut cmds: Vec<(String, Value)> = vec![];
                    for a in resp["result"].as_array().cloned().unwrap_or_default() {
                        let cmd = if a["command"].is_object() { a["command"].clone() } else { a.clone() };
                        if let Some(name) = cmd["command"].as_str() {
                            // every embedded command but the user-initiated open-URL one
                            if name != "HarperOpen" && !cmds.iter().any(|x| x.0 == name) {
                                cmds.push((name.to_string(), cmd["arguments"].clone()));
                            }
                        }
                    }
                    for (name, args) in cmds {
                        ls.request_sync("workspace/executeCommand", json!({"command": name, "arguments": args}), c)?;
                        executed += 1;
                    }
                }
                let w = ["o'zq", "Zqprivateword", "zqprivateword", "naïveté", "ｔｅｈ"][i % 5];
                ls.request_sync("workspace/executeCommand", json!({"command": if i % 2 == 0 { "HarperAddToUserDict" } else { "HarperAddToFileDict" }, "arguments": [w, uri]}), c)?;
                ls.notify("textDocument/didChange", did_change(uri, 2, &format!("{}\n\nMore teh text.", text)))?;
            }
            ls.quiesce(c)?;
            ls.notify("workspace/didChangeConfiguration", json!({"settings": cfg2}))?;
            ls.quiesce(&cfg2)?;
            for (uri, _, _) in docs.iter().take(3) {
                ls.notify("textDocument/didClose", did_close(uri))?;
            }
            ls.quiesce(&cfg2)?;
            pubs += ls.all_publications().len();
            ls.shutdown(&cfg2)?;
        }
        Ok(json!({"publications": pubs, "embedded_commands_executed": executed}))
    })();
    match res {
        Ok(v) => out["result"] = v,
        Err(e) => out["error"] = json!(e.to_string()),
    }
}
