//! The four `merge_linters!` rules — HopHope, CompoundNouns, PronounContraction, LetsConfusion — and their nine children
//! against `lean/Harper/Model/MergeRules.lean` (called from c01.rs, c03.rs and c12.rs next to rules2.rs; `hv MRULES`).
//!
//! The merged structs are public; their children (`ToHop`, `ToHope`, `ShouldContract`, `AvoidContraction`, `LetUsRedundancy`,
//! `NoContractionWithVerb`, `GeneralCompoundNouns`, `ImpliedInstantiatedCompoundNouns`, `ImpliedOwnershipCompoundNouns`) live in
//! private modules of harper-core, so — as lexdirect.rs does for the three private lexers — their SOURCE FILES are compiled into
//! the harness unchanged (`#[path]`, module `kids`): a change to a child file changes both the merged struct of harper-core and the
//! child struct here. The files refer to `crate::{CharString, CharStringExt, Lint, Lrc, Token, TokenStringExt}`, `crate::linting`,
//! `crate::patterns` and the macro `crate::char_string::char_string`: main.rs provides these names (re-exports of harper-core; the
//! three-line macro is the only thing written again).
//!
//! K `mrule <Name>`: the real merged struct alone (its `lint`: children in order, `remove_overlaps`) vs `mergedRule`, lint for lint;
//! K `mchild <Child>`: the child alone (blanket `impl Linter for PatternLinter`) vs `PRule.rule`;
//! K `mrulem <Child>`: `child.pattern().matches(&tokens[i..], source)` on EVERY suffix vs the model's tree;
//! K `mmtl <Child>`: `child.match_to_lint(&tokens[i..i+n], source)` on the real matches and on arbitrary short slices (ShouldContract's
//!   `panic!` arm, the index expressions): `none` / lint / `panic`.
//! O: no panic, spans in the text, `Suggestion::apply` = independent splice, message / kind / priority are a child's, the output of a
//!   merged rule is sorted and pairwise disjoint, merged output ⊆ concatenation of the children's outputs,
//!   `lint(P+D) = lint(P) ++ shift(lint(D))` exactly and in order; monitors: the shipped `LintGroup` with only that rule on reports the
//!   same; ASCII letters lower-case to themselves + 32 (premise of `shouldContract_panic_unreachable`); `DictOK` (every word the
//!   dictionary knows has a canonical capitalisation: premise of the compound-noun totality theorems).
use crate::common::*;
use crate::corpus;
use crate::tokfmt::*;
use harper_core::linting::{CompoundNouns, HopHope, LetsConfusion, Lint, LintGroup, LintKind, Linter, PatternLinter, PronounContraction, SpellCheck, Suggestion};
use harper_core::spell::suggest_correct_spelling;
use harper_core::parsers::{Markdown, PlainEnglish};
use harper_core::{CharStringExt, Dialect, Dictionary, Document, FstDictionary, Span, Token, TokenKind};
use serde_json::{Value, json};
use std::cell::RefCell;
use std::collections::{BTreeMap, BTreeSet};
use std::collections::HashMap;
use std::sync::{Arc, Mutex, OnceLock};

/// the private child modules of harper-core, compiled from their real source files
pub mod kids {
    pub use harper_core::linting::{Lint, LintKind, PatternLinter, Suggestion};
    pub mod hop_hope {
        #[path = "/repo/harper-core/src/linting/hop_hope/to_hop.rs"]
        pub mod to_hop;
        #[path = "/repo/harper-core/src/linting/hop_hope/to_hope.rs"]
        pub mod to_hope;
    }
    pub mod pronoun_contraction {
        #[path = "/repo/harper-core/src/linting/pronoun_contraction/should_contract.rs"]
        pub mod should_contract;
        #[path = "/repo/harper-core/src/linting/pronoun_contraction/avoid_contraction.rs"]
        pub mod avoid_contraction;
    }
    pub mod lets_confusion {
        #[path = "/repo/harper-core/src/linting/lets_confusion/let_us_redundancy.rs"]
        pub mod let_us_redundancy;
        #[path = "/repo/harper-core/src/linting/lets_confusion/no_contraction_with_verb.rs"]
        pub mod no_contraction_with_verb;
    }
    pub mod compound_nouns {
        use super::{Lint, LintKind, Suggestion};
        #[path = "/repo/harper-core/src/linting/compound_nouns/general_compound_nouns.rs"]
        pub mod general_compound_nouns;
        #[path = "/repo/harper-core/src/linting/compound_nouns/implied_instantiated_compound_nouns.rs"]
        pub mod implied_instantiated_compound_nouns;
        #[path = "/repo/harper-core/src/linting/compound_nouns/implied_ownership_compound_nouns.rs"]
        pub mod implied_ownership_compound_nouns;
    }
}

/// (child struct, source file under linting/, message code, lint kind, priority, message with `{}` wildcards)
pub const CHILDREN: [(&str, &str, u32, LintKind, u8, &str); 9] = [
    ("ToHop", "hop_hope/to_hop.rs", 50, LintKind::WordChoice, 127, "Did you mean to use {} instead of {} in this context?"),
    ("ToHope", "hop_hope/to_hope.rs", 51, LintKind::WordChoice, 127, "Did you mean to use 'hope' instead of 'hop' in this context?"),
    ("ShouldContract", "pronoun_contraction/should_contract.rs", 52, LintKind::WordChoice, 31, "Use the contraction or separate the words instead."),
    ("AvoidContraction", "pronoun_contraction/avoid_contraction.rs", 53, LintKind::WordChoice, 63, "It appears you intended to use the possessive version of this word"),
    ("LetUsRedundancy", "lets_confusion/let_us_redundancy.rs", 54, LintKind::Repetition, 31, "`let's` stands for `let us`, so including another pronoun is redundant."),
    ("NoContractionWithVerb", "lets_confusion/no_contraction_with_verb.rs", 55, LintKind::WordChoice, 31, "It seems you forgot to include a subject here."),
    ("GeneralCompoundNouns", "compound_nouns/general_compound_nouns.rs", 56, LintKind::WordChoice, 63, "Did you mean the closed compound noun “{}”?"),
    (
        "ImpliedInstantiatedCompoundNouns",
        "compound_nouns/implied_instantiated_compound_nouns.rs",
        57,
        LintKind::WordChoice,
        63,
        "The auxiliary verb “{}” implies the existence of the closed compound noun “{}”.",
    ),
    ("ImpliedOwnershipCompoundNouns", "compound_nouns/implied_ownership_compound_nouns.rs", 58, LintKind::WordChoice, 63, "The possessive noun implies ownership of the closed compound noun “{}”."),
];

/// (merged rule, its mod.rs, indices of its children in declaration order)
pub const RULES: [(&str, &str, &[usize]); 4] =
    [("HopHope", "hop_hope/mod.rs", &[0, 1]), ("CompoundNouns", "compound_nouns/mod.rs", &[6, 7, 8]), ("PronounContraction", "pronoun_contraction/mod.rs", &[2, 3]), ("LetsConfusion", "lets_confusion/mod.rs", &[4, 5])];

fn dict() -> Arc<FstDictionary> {
    FstDictionary::curated()
}

fn make_child(ci: usize) -> Box<dyn PatternLinter> {
    use kids::*;
    match CHILDREN[ci].0 {
        "ToHop" => Box::new(hop_hope::to_hop::ToHop::default()),
        "ToHope" => Box::new(hop_hope::to_hope::ToHope::default()),
        "ShouldContract" => Box::new(pronoun_contraction::should_contract::ShouldContract::default()),
        "AvoidContraction" => Box::new(pronoun_contraction::avoid_contraction::AvoidContraction::default()),
        "LetUsRedundancy" => Box::new(lets_confusion::let_us_redundancy::LetUsRedundancy::default()),
        "NoContractionWithVerb" => Box::new(lets_confusion::no_contraction_with_verb::NoContractionWithVerb::default()),
        "GeneralCompoundNouns" => Box::new(compound_nouns::general_compound_nouns::GeneralCompoundNouns::default()),
        "ImpliedInstantiatedCompoundNouns" => Box::new(compound_nouns::implied_instantiated_compound_nouns::ImpliedInstantiatedCompoundNouns::default()),
        "ImpliedOwnershipCompoundNouns" => Box::new(compound_nouns::implied_ownership_compound_nouns::ImpliedOwnershipCompoundNouns::default()),
        n => panic!("unknown child {}", n),
    }
}

fn make_rule(ri: usize) -> Box<dyn Linter> {
    match RULES[ri].0 {
        "HopHope" => Box::new(HopHope::default()),
        "CompoundNouns" => Box::new(CompoundNouns::default()),
        "PronounContraction" => Box::new(PronounContraction::default()),
        "LetsConfusion" => Box::new(LetsConfusion::default()),
        n => panic!("unknown merged rule {}", n),
    }
}

thread_local! {
    static KIDS: RefCell<Vec<Option<Box<dyn PatternLinter>>>> = RefCell::new((0..CHILDREN.len()).map(|_| None).collect());
    static REAL: RefCell<Vec<Option<Box<dyn Linter>>>> = RefCell::new((0..RULES.len()).map(|_| None).collect());
    static GROUP: RefCell<Option<LintGroup>> = RefCell::new(None);
}

fn with_child<T>(ci: usize, f: impl FnOnce(&mut Box<dyn PatternLinter>) -> T) -> T {
    KIDS.with(|r| {
        let mut r = r.borrow_mut();
        if r[ci].is_none() {
            r[ci] = Some(make_child(ci));
        }
        f(r[ci].as_mut().unwrap())
    })
}

fn with_rule<T>(ri: usize, f: impl FnOnce(&mut Box<dyn Linter>) -> T) -> T {
    REAL.with(|r| {
        let mut r = r.borrow_mut();
        if r[ri].is_none() {
            r[ri] = Some(make_rule(ri));
        }
        f(r[ri].as_mut().unwrap())
    })
}

fn lint_only(name: &str, doc: &Document) -> Vec<Lint> {
    GROUP.with(|g| {
        let mut g = g.borrow_mut();
        if g.is_none() {
            *g = Some(LintGroup::new_curated(dict(), Dialect::American));
        }
        let g = g.as_mut().unwrap();
        g.set_all_rules_to(Some(false));
        g.config.set_rule_enabled(name, true);
        g.lint(doc)
    })
}

fn cps(cs: &[char]) -> String {
    if cs.is_empty() { "-".to_string() } else { cs.iter().map(|c| (*c as u32).to_string()).collect::<Vec<_>>().join(".") }
}

fn wild_match(pat: &str, s: &str) -> bool {
    let parts: Vec<&str> = pat.split("{}").collect();
    if parts.len() == 1 {
        return pat == s;
    }
    let mut rest = match s.strip_prefix(parts[0]) {
        Some(r) => r,
        None => return false,
    };
    for (i, p) in parts.iter().enumerate().skip(1) {
        if i + 1 == parts.len() {
            return rest.ends_with(p);
        }
        match rest.find(p) {
            Some(k) => rest = &rest[k + p.len()..],
            None => return false,
        }
    }
    true
}

/// message code of a lint among the given children (exact messages before wildcard ones); 0 = none of theirs
fn msg_code(children: &[usize], l: &Lint) -> u32 {
    let mut order: Vec<usize> = children.to_vec();
    order.sort_by_key(|c| CHILDREN[*c].5.contains("{}"));
    for ci in order {
        let (_, _, code, kind, prio, msg) = CHILDREN[ci];
        if l.lint_kind == kind && l.priority == prio && wild_match(msg, &l.message) {
            return code;
        }
    }
    0
}

fn show_lint(children: &[usize], l: &Lint) -> String {
    let sg = if l.suggestions.is_empty() {
        "-".to_string()
    } else {
        l.suggestions
            .iter()
            .map(|s| match s {
                Suggestion::ReplaceWith(cs) => format!("R{}", cps(cs)),
                Suggestion::Remove => "X".to_string(),
                Suggestion::InsertAfter(cs) => format!("I{}", cps(cs)),
            })
            .collect::<Vec<_>>()
            .join(",")
    };
    format!("{}:{}:{}:0:{}", l.span.start, l.span.end, msg_code(children, l), sg)
}

fn show_lints(children: &[usize], ls: &[Lint]) -> String {
    let mut s = String::from("ok");
    for l in ls {
        s.push(' ');
        s.push_str(&show_lint(children, l));
    }
    s
}

/// the 23 metadata bits of `Model/MergeRules.lean` (0–17 as in leaves.rs) of a Word kind over `text`
fn kind_flags(k: &TokenKind, text: &[char], d: &FstDictionary) -> u32 {
    let b = |x: bool, i: u32| (x as u32) << i;
    let mut f = b(k.is_preposition(), 0)
        | b(k.is_conjunction(), 1)
        | b(k.is_likely_homograph(), 2)
        | b(k.is_adjective(), 3)
        | b(k.is_determiner(), 4)
        | b(k.is_proper_noun(), 5)
        | b(k.is_nominal(), 6)
        | b(k.is_verb(), 7)
        | b(k.is_noun(), 8)
        | b(k.is_possessive_nominal(), 9)
        | b(k.is_plural_nominal(), 10)
        | b(k.is_linking_verb(), 11)
        | b(k.is_pronoun(), 12)
        | b(k.is_adverb(), 13)
        | b(k.is_not_plural_nominal(), 14)
        | b(matches!(k, TokenKind::Word(Some(_))), 15)
        | b(k.is_auxiliary_verb(), 22);
    if let TokenKind::Word(Some(md)) = k {
        let lower = text.to_lower();
        let merged = match d.get_word_metadata(&lower) {
            Some(ml) => md.clone().or(ml),
            None => md.clone(),
        };
        f |= b(merged.preposition, 16) | b(merged.determiner, 17);
        // the predicates the compound-noun rules hand to `SplitCompoundWord::new`
        f |= b(md.is_nominal() && !md.is_adjective(), 20) | b(md.is_noun() && !md.is_proper_noun(), 21);
    }
    f
}

/// the model's `Env` tables for one document: every word token, and every concatenation `text(i) ++ text(i + 2)` (what
/// `SplitCompoundWord::get_merged_word` looks up for the tokens a match hands it, whatever their kinds)
pub struct EnvM {
    nums: BTreeMap<Vec<char>, String>,
    words: BTreeMap<Vec<char>, (u32, Option<Vec<char>>)>,
    chars: BTreeSet<char>,
    pub functional: bool,
    /// a word the dictionary knows without a canonical capitalisation
    pub dict_ok: bool,
}

impl EnvM {
    pub fn new() -> Self {
        let mut chars = BTreeSet::new();
        chars.extend("YOURWEyourweHPINGDhpingd'".chars());
        EnvM { nums: BTreeMap::new(), words: BTreeMap::new(), chars, functional: true, dict_ok: true }
    }
    fn add_word_text(&mut self, text: Vec<char>, kind: &TokenKind) {
        let d = dict();
        let f = kind_flags(kind, &text, &d);
        if let Some(old) = self.words.get(&text) {
            if old.0 != f {
                self.functional = false;
            }
        } else {
            let canon = d.get_correct_capitalization_of(&text).map(|c| c.to_vec());
            if let Some(c) = &canon {
                self.chars.extend(c.iter().copied());
            }
            if f & (1 << 15) != 0 && canon.is_none() {
                self.dict_ok = false;
            }
            self.words.insert(text, (f, canon));
        }
    }
    pub fn add_doc(&mut self, doc: &Document) {
        let src = doc.get_source();
        self.chars.extend(src.iter().copied());
        let toks = doc.get_tokens();
        let text_at = |t: &Token| -> Option<Vec<char>> {
            let (s, e) = (t.span.start, t.span.end);
            if s <= e && e <= src.len() { Some(src[s..e].to_vec()) } else { None }
        };
        for (i, t) in toks.iter().enumerate() {
            let Some(text) = text_at(t) else { continue };
            match &t.kind {
                TokenKind::Number(n) => {
                    let disp: Vec<char> = n.to_string().chars().collect();
                    let v: f64 = n.value.into();
                    let val = if v < 0.0 || v - v.floor() > f64::EPSILON || v > u64::MAX as f64 || v.is_nan() { "x".to_string() } else { format!("i{}", v as u64) };
                    let entry = format!("{}/{}/{}", cps(&text), cps(&disp), val);
                    if let Some(old) = self.nums.get(&text) {
                        if *old != entry {
                            self.functional = false;
                        }
                    } else {
                        self.nums.insert(text.clone(), entry);
                    }
                }
                TokenKind::Word(_) => self.add_word_text(text.clone(), &t.kind),
                _ => {}
            }
            if i + 2 < toks.len() {
                if let Some(b) = text_at(&toks[i + 2]) {
                    let mut both = text.clone();
                    both.extend_from_slice(&b);
                    if !both.is_empty() && !self.words.contains_key(&both) {
                        let md = dict().get_word_metadata(&both).cloned();
                        self.add_word_text(both, &TokenKind::Word(md));
                    }
                }
            }
        }
    }
    pub fn fields(&self) -> String {
        let cf = self
            .chars
            .iter()
            .filter(|c| c.is_whitespace() || c.is_lowercase() || c.is_uppercase() || c.is_alphabetic() || c.is_alphanumeric() || c.to_lowercase().ne([**c]))
            .map(|c| {
                let mut f = String::new();
                if c.is_lowercase() {
                    f.push('l');
                }
                if c.is_uppercase() {
                    f.push('u');
                }
                if c.is_alphabetic() {
                    f.push('a');
                }
                if c.is_alphanumeric() {
                    f.push('n');
                }
                if c.is_whitespace() {
                    f.push('w');
                }
                if f.is_empty() {
                    f.push('-');
                }
                format!("{}/{}/{}", *c as u32, f, cps(&c.to_lowercase().collect::<Vec<_>>()))
            })
            .collect::<Vec<_>>()
            .join(" ");
        let wf = self
            .words
            .iter()
            .filter(|(_, f)| f.0 != 0 || f.1.is_some())
            .map(|(t, f)| match &f.1 {
                Some(c) => format!("{}/{}/{}", cps(t), f.0, cps(c)),
                None => format!("{}/{}", cps(t), f.0),
            })
            .collect::<Vec<_>>()
            .join(" ");
        format!("{} | {} | {}", self.nums.values().cloned().collect::<Vec<_>>().join(" "), wf, cf)
    }
}

pub struct Out {
    k: Vec<(String, String)>,
    fails: Vec<(String, String, Value)>,
    counts: Vec<String>,
    monitors: Vec<(String, bool)>,
    nontrivial: bool,
    matched_words: Vec<String>,
}

impl Out {
    fn new() -> Self {
        Out { k: vec![], fails: vec![], counts: vec![], monitors: vec![], nontrivial: false, matched_words: vec![] }
    }
}

fn merge(sess: &mut Session, o: Out, key: &str) {
    let mut case = None;
    for (op, imp) in &o.k {
        case = Some(sess.k(op, imp));
    }
    sess.o();
    for c in &o.counts {
        sess.count(c);
    }
    for (m, held) in &o.monitors {
        sess.monitor(m, *held);
    }
    if o.nontrivial {
        sess.nontrivial(key);
    }
    for (class, desc, input) in o.fails {
        sess.fail(&class, desc, input, case);
    }
}

const FUNCTIONAL: &str = "mrules: number display/value and word metadata are functions of the text (same text, same data within a document; a token's metadata = the dictionary's for its text)";
const GROUP_SAME: &str = "mrules: the shipped LintGroup with only this merged rule switched on reports exactly what the struct reports";
const DICT_OK: &str = "mrules: DictOK — every text the dictionary knows has a canonical capitalisation (premise of compoundNouns_total)";
const ASCII_LOWER: &str = "mrules: AsciiLowerOK — char::to_lowercase of an ASCII letter is the one ASCII lower-case letter (premise of shouldContract_panic_unreachable)";
const SUBSET: &str = "mrules: what a merged rule returns is a sub-multiset of its children's lints";

fn make_doc(text: &str, md: bool) -> Result<Document, String> {
    guarded(|| if md { Document::new(text, &Markdown::default(), &dict()) } else { Document::new(text, &PlainEnglish, &dict()) })
}

fn apply_ok(src: &[char], span: Span, s: &Suggestion) -> Result<bool, String> {
    let mut got = src.to_vec();
    guarded(|| s.apply(span, &mut got))?;
    let mut want: Vec<char> = src[..span.start].to_vec();
    match s {
        Suggestion::ReplaceWith(cs) => want.extend(cs.iter()),
        Suggestion::Remove => {}
        Suggestion::InsertAfter(cs) => {
            want.extend(src[span.start..span.end].iter());
            want.extend(cs.iter());
        }
    }
    want.extend(src[span.end..].iter());
    Ok(got == want)
}

fn same_lints(a: &[Lint], b: &[Lint]) -> bool {
    a.len() == b.len() && a.iter().zip(b.iter()).all(|(x, y)| x.span == y.span && x.suggestions == y.suggestions && x.message == y.message && x.priority == y.priority && x.lint_kind == y.lint_kind)
}

/// the oracles on the lints of one rule (merged or child)
fn check_lints(who: &str, children: &[usize], ls: &[Lint], src: &[char], input: &Value, out: &mut Out) {
    for l in ls {
        if !(l.span.start <= l.span.end && l.span.end <= src.len()) {
            out.fails.push((format!("mrule-span-out-of-range-{}", who), format!("{} alone reports span {}..{} on a text of {} characters", who, l.span.start, l.span.end, src.len()), input.clone()));
            continue;
        }
        if msg_code(children, l) == 0 {
            out.fails.push((format!("mrule-message-{}", who), format!("{} reports kind {:?} priority {} message {:?}: not one of its children's", who, l.lint_kind, l.priority, l.message), input.clone()));
        }
        for s in &l.suggestions {
            match apply_ok(src, l.span, s) {
                Ok(true) => {}
                Ok(false) => out.fails.push((format!("mrule-suggestion-not-local-{}", who), format!("{}: applying {:?} at {:?} is not the splice", who, s, l.span), input.clone())),
                Err(e) => out.fails.push((format!("mrule-suggestion-panics-{}", who), format!("{}: applying {:?} at {:?} panics: {}", who, s, l.span, e), input.clone())),
            }
            out.counts.push("mrules:suggestions-applied".into());
        }
    }
}

/// one document × one merged rule: its K lines, those of its children, and the oracles
fn eval_doc(ri: usize, text: &str, md: bool, slices: bool, out: &mut Out) {
    let (name, _, children) = RULES[ri];
    let Ok(doc) = make_doc(text, md) else {
        out.counts.push("mrules:document-panicked(C01's business)".into());
        return;
    };
    let src = doc.get_source();
    let toks = doc.get_tokens();
    let input = json!({"kind": "mrule", "rule": name, "text": text, "md": md});
    let mut env = EnvM::new();
    env.add_doc(&doc);
    out.monitors.push((FUNCTIONAL.into(), env.functional));
    out.monitors.push((DICT_OK.into(), env.dict_ok));
    for c in src.iter().filter(|c| c.is_ascii_alphabetic()) {
        out.monitors.push((ASCII_LOWER.into(), c.to_lowercase().collect::<Vec<char>>() == vec![c.to_ascii_lowercase()]));
    }
    let tail = format!("{} | {} | {}", chars_field(src), toks_show(toks), env.fields());
    if md && toks.iter().any(|t| t.span.start == t.span.end) {
        out.counts.push("mrules:markdown-with-zero-width-token".into());
    }
    // ---- the children: pattern on every suffix, the child alone, match_to_lint
    let mut all_child_lints: Vec<Lint> = vec![];
    let mut firing = 0;
    for &ci in children.iter() {
        let cname = CHILDREN[ci].0;
        let mut res = String::from("ok");
        let mut found: Vec<(usize, usize)> = vec![];
        for i in 0..=toks.len() {
            match guarded(|| with_child(ci, |r| r.pattern().matches(&toks[i..], src))) {
                Ok(n) => {
                    res.push_str(&format!(" {}", n));
                    if n > 0 {
                        out.nontrivial = true;
                        if n <= toks.len() - i {
                            found.push((i, n));
                        }
                    }
                    if n > toks.len() - i {
                        out.fails.push(("leaf-contract".into(), format!("{}'s pattern returns {} on a slice of {} tokens", cname, n, toks.len() - i), input.clone()));
                    }
                }
                Err(e) => {
                    res.push_str(" p");
                    out.nontrivial = true;
                    out.fails.push((format!("mrule-panic-{}", cname), format!("{}'s pattern panics on the suffix at token {}: {}", cname, i, e), input.clone()));
                }
            }
        }
        out.k.push((format!("mrulem {} | {}", cname, tail), res));
        for (i, n) in &found {
            for t in &toks[*i..*i + *n] {
                if t.kind.is_word() && t.span.end <= src.len() && t.span.start <= t.span.end {
                    out.matched_words.push(src[t.span.start..t.span.end].iter().collect());
                }
            }
        }
        match guarded(|| with_child(ci, |r| r.lint(&doc))) {
            Ok(ls) => {
                out.k.push((format!("mchild {} | {}", cname, tail), show_lints(&[ci], &ls)));
                if !ls.is_empty() {
                    firing += 1;
                    out.counts.push(format!("mrules:child-lints:{}", cname));
                }
                check_lints(cname, &[ci], &ls, src, &input, out);
                all_child_lints.extend(ls);
            }
            Err(e) => {
                out.k.push((format!("mchild {} | {}", cname, tail), "panic".to_string()));
                out.nontrivial = true;
                out.fails.push((format!("mrule-panic-{}", cname), format!("{} alone panics: {}", cname, e), input.clone()));
            }
        }
        if slices || !found.is_empty() {
            let mut sl: Vec<(usize, usize)> = found.clone();
            if slices {
                for i in 0..toks.len().min(5) {
                    for n in 0..=(toks.len() - i).min(6) {
                        sl.push((i, n));
                    }
                }
                sl.push((toks.len(), 0));
            }
            sl.sort();
            sl.dedup();
            let mut outs: Vec<String> = vec![];
            for (i, n) in &sl {
                let r = guarded(|| with_child(ci, |r| r.match_to_lint(&toks[*i..*i + *n], src)));
                outs.push(match r {
                    Ok(None) => "none".to_string(),
                    Ok(Some(l)) => show_lint(&[ci], &l),
                    Err(_) => "panic".to_string(),
                });
            }
            let mut line = String::from("ok");
            for (j, o) in outs.iter().enumerate() {
                if j > 0 {
                    line.push_str(" ;");
                }
                line.push(' ');
                line.push_str(o);
            }
            out.k.push((format!("mmtl {} | {} | {} | {} | {}", cname, chars_field(src), toks_show(toks), sl.iter().map(|(i, n)| format!("{}:{}", i, n)).collect::<Vec<_>>().join(" "), env.fields()), line));
        }
    }
    if firing >= 2 {
        out.counts.push(format!("mrules:two-children-fire:{}", name));
    }
    // ---- the merged rule alone
    match guarded(|| with_rule(ri, |r| r.lint(&doc))) {
        Ok(ls) => {
            out.k.push((format!("mrule {} | {}", name, tail), show_lints(children, &ls)));
            if !ls.is_empty() {
                out.nontrivial = true;
                out.counts.push(format!("mrules:lints:{}", name));
            }
            if ls.len() < all_child_lints.len() {
                out.counts.push(format!("mrules:remove_overlaps-dropped-a-lint:{}", name));
            }
            check_lints(name, children, &ls, src, &input, out);
            // sorted by start, pairwise disjoint
            for w in ls.windows(2) {
                if !(w[0].span.end <= w[1].span.start) {
                    out.fails.push((format!("mrule-output-overlaps-{}", name), format!("{}: consecutive lints {:?} and {:?} overlap or are out of order", name, w[0].span, w[1].span), input.clone()));
                }
            }
            // sub-multiset of the children's lints
            let mut pool: Vec<&Lint> = all_child_lints.iter().collect();
            let mut sub = true;
            for l in &ls {
                match pool.iter().position(|c| same_lints(std::slice::from_ref(*c), std::slice::from_ref(l))) {
                    Some(p) => {
                        pool.remove(p);
                    }
                    None => sub = false,
                }
            }
            out.monitors.push((SUBSET.into(), sub));
            let via_group = guarded(|| lint_only(name, &doc));
            out.monitors.push((GROUP_SAME.into(), matches!(&via_group, Ok(g) if same_lints(g, &ls))));
        }
        Err(e) => {
            out.k.push((format!("mrule {} | {}", name, tail), "panic".to_string()));
            out.nontrivial = true;
            out.fails.push((format!("mrule-panic-{}", name), format!("{} alone panics: {}", name, e), input.clone()));
        }
    }
}

type LKey = (usize, usize, String);

fn lkey(l: &Lint, by: usize) -> LKey {
    (l.span.start + by, l.span.end + by, format!("{:?}|{}|{:?}|{}", l.lint_kind, l.message, l.suggestions, l.priority))
}

/// paragraph locality of one merged rule on (P, D), exactly and in order
fn eval_pair(ri: usize, p: &str, d: &str, out: &mut Out) {
    let name = RULES[ri].0;
    let whole = format!("{}{}", p, d);
    let plen = p.chars().count();
    let (Ok(dp), Ok(dd), Ok(dw)) = (make_doc(p, false), make_doc(d, false), make_doc(&whole, false)) else { return };
    let run = |doc: &Document| guarded(|| with_rule(ri, |r| r.lint(doc)));
    let (Ok(lp), Ok(ld), Ok(lw)) = (run(&dp), run(&dd), run(&dw)) else {
        return; // reported by eval_doc
    };
    let want: Vec<LKey> = lp.iter().map(|l| lkey(l, 0)).chain(ld.iter().map(|l| lkey(l, plen))).collect();
    let got: Vec<LKey> = lw.iter().map(|l| lkey(l, 0)).collect();
    if !lp.is_empty() && !ld.is_empty() {
        out.counts.push(format!("mrules:pair-with-lints-in-both:{}", name));
        out.nontrivial = true;
    }
    if want != got {
        out.fails.push((
            format!("c12-mrule-{}", name),
            format!(
                "{} alone: lint(P+D) ≠ lint(P) ++ shift(lint(D)): got {:?}, want {:?}",
                name,
                got.iter().filter(|k| !want.contains(k)).take(3).collect::<Vec<_>>(),
                want.iter().filter(|k| !got.contains(k)).take(3).collect::<Vec<_>>()
            ),
            json!({"kind": "mrule-pair", "rule": name, "P": p, "D": d}),
        ));
    }
}

// ------------------------------------------------------------------------------------------------
// harvesting and streams
// ------------------------------------------------------------------------------------------------

struct Harvest {
    sentences: Vec<String>,
    phrases: Vec<String>,
}

fn harvest(files: &[&str]) -> Harvest {
    let (mut sentences, mut phrases) = (vec![], vec![]);
    for file in files {
        let src = std::fs::read_to_string(format!("/repo/harper-core/src/linting/{}", file)).unwrap_or_default();
        let (body, tests) = match src.find("#[cfg(test)]") {
            Some(i) => (&src[..i], &src[i..]),
            None => (&src[..], ""),
        };
        sentences.extend(corpus::string_literals(tests).into_iter().filter(|s| !s.trim().is_empty() && s.len() < 300 && !s.contains('{')));
        phrases.extend(corpus::string_literals(body).into_iter().filter(|s| !s.trim().is_empty() && s.split_whitespace().count() <= 5 && s.len() < 40 && !s.contains('{') && !s.contains('`')));
    }
    let mut seen = BTreeSet::new();
    sentences.retain(|s| seen.insert(s.clone()));
    let mut seen = BTreeSet::new();
    phrases.retain(|s| seen.insert(s.clone()));
    Harvest { sentences, phrases }
}

fn cap_first(s: &str) -> String {
    let mut cs = s.chars();
    match cs.next() {
        Some(c) => c.to_uppercase().collect::<String>() + cs.as_str(),
        None => String::new(),
    }
}

fn title(s: &str) -> String {
    s.split(' ').map(cap_first).collect::<Vec<_>>().join(" ")
}

fn swap_case(s: &str) -> String {
    s.chars().map(|c| if c.is_uppercase() { c.to_lowercase().next().unwrap_or(c) } else { c.to_uppercase().next().unwrap_or(c) }).collect()
}

fn replace_nth_space(s: &str, k: usize, with: &str) -> String {
    let idx: Vec<usize> = s.match_indices(' ').map(|(i, _)| i).collect();
    if idx.is_empty() {
        return s.to_string();
    }
    let i = idx[k % idx.len()];
    format!("{}{}{}", &s[..i], with, &s[i + 1..])
}

fn variants(t: &str, full: bool) -> Vec<(String, bool)> {
    let mut v = vec![(t.to_string(), false)];
    if full {
        v.extend([
            (t.to_uppercase(), false),
            (t.to_lowercase(), false),
            (title(t), false),
            (swap_case(t), false),
            (t.replace(' ', "  "), false),
            (replace_nth_space(t, 0, " \n"), false),
            (replace_nth_space(t, 1, "\n"), false),
            (replace_nth_space(t, 2, " \n"), false),
            (replace_nth_space(t, 3, "\n "), false),
            (replace_nth_space(t, 1, ", "), false),
            (format!("({})", t), false),
            (format!("Ünï {} İ", t), false),
            (format!("# {}\n\n- **{}** and *{}*\n", t, t, t), true),
            (format!("> so {}\n\n[{}](http://x.y) `{}` {}\n", t, t, t, replace_nth_space(t, 0, "\n")), true),
        ]);
    }
    v
}

/// hand-written texts: several children of one rule fire, some on overlapping tokens (so `remove_overlaps` sorts and drops)
const WITNESSES: [(usize, &str); 40] = [
    (0, "They hope on a bus and I hop we arrive."),
    (0, "I hop we win. She hoped on a plane. We hop they come and hoping on the train is fun."),
    (0, "He hopped it works, then hoped on the call; I hop you hope on a bus."),
    (0, "HOPING ON A TRAIN I HOP YOU CALL"),
    (0, "I hop hope on a bus"),
    (1, "The web cam and his note book were here."),
    (1, "A note book is on my key board."),
    (1, "The user's back pack is a back pack age."),
    (1, "His touch screen was a touch pad will."),
    (1, "the fire wall is the fire wall was"),
    (1, "My dash board can show a site map."),
    (1, "Let's check out this note book."),
    (1, "let's note book and Let's key board"),
    (1, "a back pack age is here"),
    (1, "her key board is his key board was my web cam has"),
    (1, "the device's firm ware will the device's firm ware"),
    (1, "a  note book and a note  book and the\nnote book"),
    (1, "John's every one is every one"),
    (1, "The cat's play ground was the play ground is"),
    (1, "a micro services are"),
    (2, "Your the best and you're car is black."),
    (2, "You're dog said were the best team."),
    (2, "were a good team but you're PR was your the man"),
    (2, "YOUR THE BEST, YOU'RE CAR"),
    (2, "your  the best your\nthe best"),
    (2, "you're cat your a good cat were the new cats you're dog"),
    (2, "Were the big fish? You're fish."),
    (3, "let's us do it and lets play"),
    (3, "let play, then let's me go; lets go and let's him walk"),
    (3, "LET'S US GO. LETS GO. LET GO."),
    (3, "Let's them and let them run; lets run"),
    (3, "lets  play and let's  us and let\nplay"),
    (3, "The crutch let's him walk so lets push them."),
    (3, "let's you let go lets go let's it"),
    (0, "hope on an airplane, hoped on the bus, hoping on that call."),
    (0, "We hopped he knew. The dog hop it."),
    (1, "my web socket was the finger print is"),
    (1, "This micro processor will fail. That bit stream has ended."),
    (2, "your an old friend and were the old friends"),
    (3, "let's we let's I let's they lets be let have"),
];

enum Job {
    Doc(usize, String, bool, bool),
    Pair(usize, String, String),
}

fn run_jobs(sess: &mut Session, jobs: Vec<Job>, origin: &str) -> Vec<Vec<String>> {
    let outs = par_map(jobs.len(), 16, |i| {
        let mut o = Out::new();
        match &jobs[i] {
            Job::Doc(r, text, md, slices) => eval_doc(*r, text, *md, *slices, &mut o),
            Job::Pair(r, p, d) => {
                eval_pair(*r, p, d, &mut o);
                eval_doc(*r, &format!("{}{}", p, d), false, false, &mut o);
            }
        }
        o
    });
    let mut words: Vec<Vec<String>> = (0..RULES.len()).map(|_| vec![]).collect();
    for (i, mut o) in outs.into_iter().enumerate() {
        sess.count(&format!("mrules:origin:{}", origin));
        let (ri, key) = match &jobs[i] {
            Job::Doc(r, t, md, _) => (*r, format!("mrule\u{0}{}\u{0}{}\u{0}{}", r, t, md)),
            Job::Pair(r, p, d) => (*r, format!("mrulepair\u{0}{}\u{0}{}\u{0}{}", r, p, d)),
        };
        words[ri].append(&mut o.matched_words);
        merge(sess, o, &key);
    }
    words
}


// ------------------------------------------------------------------------------------------------
// SpellCheck as a rule (model: Harper.SpellRule)
// ------------------------------------------------------------------------------------------------

const SPELL_FUNCTIONAL: &str = "spellr: what SpellCheck learns about a word (metadata present, dialect, the two contains_exact_word answers) is a function of the word's text";
const SUGGEST_OK: &str = "spellr: SuggestOK — the uncached search never panics (every fuzzy result is a word of the dictionary)";
const CACHE_TRANSPARENT: &str = "spellr: a long-lived SpellCheck instance reports on every document what a fresh instance reports (the word cache is transparent)";

/// the UNCACHED `cached_suggest_correct_spelling`, written again from the public API: back-off search `dist = 2, 3, 4` until
/// something is found, then the dialect filter (`None` = the `unwrap` on a fuzzy result panics). The model is GIVEN this as data.
fn uncached_suggest(word: &[char]) -> Option<Vec<Vec<char>>> {
    static MEMO: OnceLock<Mutex<HashMap<Vec<char>, Option<Vec<Vec<char>>>>>> = OnceLock::new();
    let memo = MEMO.get_or_init(|| Mutex::new(HashMap::new()));
    if let Some(hit) = memo.lock().unwrap().get(word) {
        return hit.clone();
    }
    let d = dict();
    let res = guarded(|| {
        let mut sugg: Vec<Vec<char>> = vec![];
        let mut dist = 2u8;
        while sugg.is_empty() && dist < 5 {
            sugg = suggest_correct_spelling(word, 100, dist, &d).into_iter().map(|v| v.to_vec()).collect();
            dist += 1;
        }
        let mut out = vec![];
        for v in sugg {
            match d.get_word_metadata(&v) {
                None => return None,
                Some(md) => {
                    if md.dialect.is_none_or(|x| x == Dialect::American) {
                        out.push(v)
                    }
                }
            }
        }
        Some(out)
    })
    .unwrap_or(None);
    memo.lock().unwrap().insert(word.to_vec(), res.clone());
    res
}

/// message code 60 + argument of the model (kind, priority and the message text are part of the code; 0 = not SpellCheck's)
fn spell_code(l: &Lint, src: &[char]) -> (u32, u32) {
    if l.lint_kind != LintKind::Spelling || l.priority != 63 || l.span.end > src.len() || l.span.start > l.span.end {
        return (0, 0);
    }
    let word: String = src[l.span.start..l.span.end].iter().collect();
    if l.suggestions.len() == 1 {
        if let Suggestion::ReplaceWith(cs) = &l.suggestions[0] {
            if l.message == format!("Did you mean “{}”?", cs.iter().collect::<String>()) {
                return (60, 1);
            }
        }
        (0, 0)
    } else if l.message == format!("Did you mean to spell “{}” this way?", word) {
        (60, 0)
    } else {
        (0, 0)
    }
}

fn show_spell(ls: &[Lint], src: &[char]) -> String {
    if ls.is_empty() {
        return "-".to_string();
    }
    ls.iter()
        .map(|l| {
            let (code, arg) = spell_code(l, src);
            let sg = if l.suggestions.is_empty() {
                "-".to_string()
            } else {
                l.suggestions
                    .iter()
                    .map(|s| match s {
                        Suggestion::ReplaceWith(cs) => format!("R{}", cps(cs)),
                        Suggestion::Remove => "X".to_string(),
                        Suggestion::InsertAfter(cs) => format!("I{}", cps(cs)),
                    })
                    .collect::<Vec<_>>()
                    .join(",")
            };
            format!("{}:{}:{}:{}:{}", l.span.start, l.span.end, code, arg, sg)
        })
        .collect::<Vec<_>>()
        .join(" ")
}

/// ONE `SpellCheck` instance linting `texts` in turn (K `spellr`), each text also by a fresh instance (transparency), and the
/// oracles on every lint; `pair` = texts are (P, D, P+D) in some order given by the indices (p, d, whole): C12 on them
fn eval_spell(texts: &[String], pair: Option<(usize, usize, usize)>, out: &mut Out) {
    let docs: Vec<Document> = match texts.iter().map(|t| make_doc(t, false)).collect::<Result<Vec<_>, _>>() {
        Ok(d) => d,
        Err(_) => {
            out.counts.push("spellr:document-panicked(C01's business)".into());
            return;
        }
    };
    let d = dict();
    let input = json!({"kind": "spellr", "texts": texts, "pair": pair.map(|p| vec![p.0, p.1, p.2])});
    // ---- per-word data and the character table
    let mut words: BTreeMap<Vec<char>, (bool, bool, bool, bool, Option<Vec<Vec<char>>>)> = BTreeMap::new();
    let mut chars: BTreeSet<char> = BTreeSet::new();
    let mut functional = true;
    for doc in &docs {
        let src = doc.get_source();
        for t in doc.get_tokens() {
            if !t.kind.is_word() || t.span.start > t.span.end || t.span.end > src.len() {
                continue;
            }
            let w: Vec<char> = src[t.span.start..t.span.end].to_vec();
            let (known, dialect_ok) = match t.kind.as_word().unwrap() {
                Some(md) => (true, md.dialect.is_none_or(|x| x == Dialect::American)),
                None => (false, false),
            };
            let exact = d.contains_exact_word(&w);
            let exact_lower = d.contains_exact_word(&w.to_lower());
            let accepted = known && dialect_ok && (exact || exact_lower);
            if let Some(old) = words.get(&w) {
                if (old.0, old.1, old.2, old.3) != (known, dialect_ok, exact, exact_lower) {
                    functional = false;
                }
                continue;
            }
            let sugg = if accepted { Some(vec![]) } else { uncached_suggest(&w) };
            if !accepted {
                out.monitors.push((SUGGEST_OK.into(), sugg.is_some()));
            }
            if let Some(c) = w.first() {
                chars.insert(*c);
            }
            if let Some(sg) = &sugg {
                for s in sg {
                    if let Some(c) = s.first() {
                        chars.insert(*c);
                    }
                }
            }
            words.insert(w, (known, dialect_ok, exact, exact_lower, sugg));
        }
    }
    out.monitors.push((SPELL_FUNCTIONAL.into(), functional));
    let b = |x: bool| if x { '1' } else { '0' };
    let wf = words
        .iter()
        .map(|(w, (k, dl, e, l, sg))| {
            let sgs = match sg {
                None => "!".to_string(),
                Some(v) if v.is_empty() => "-".to_string(),
                Some(v) => v.iter().map(|s| cps(s)).collect::<Vec<_>>().join(","),
            };
            format!("{}/{}{}{}{}/{}", cps(w), b(*k), b(*dl), b(*e), b(*l), sgs)
        })
        .collect::<Vec<_>>()
        .join(" ");
    let cf = chars.iter().map(|c| format!("{}/{}/{}", *c as u32, if c.is_uppercase() { "u" } else { "n" }, c.to_uppercase().next().unwrap_or(*c) as u32)).collect::<Vec<_>>().join(" ");
    let mut op = format!("spellr 10000 | {} | {}", wf, cf);
    for doc in &docs {
        op.push_str(&format!(" | {} | {}", chars_field(doc.get_source()), toks_show(doc.get_tokens())));
    }
    // ---- the long-lived instance, and a fresh one per document
    let mut sc = SpellCheck::new(dict(), Dialect::American);
    let mut shown: Vec<String> = vec![];
    let mut results: Vec<Option<Vec<Lint>>> = vec![];
    let mut fresh_results: Vec<Option<Vec<Lint>>> = vec![];
    for (i, doc) in docs.iter().enumerate() {
        let src = doc.get_source();
        match guarded(|| sc.lint(doc)) {
            Ok(ls) => {
                shown.push(show_spell(&ls, src));
                if !ls.is_empty() {
                    out.nontrivial = true;
                    out.counts.push("spellr:documents-with-lints".into());
                }
                let word_spans: BTreeSet<(usize, usize)> = doc.get_tokens().iter().filter(|t| t.kind.is_word()).map(|t| (t.span.start, t.span.end)).collect();
                for l in &ls {
                    if !(l.span.start <= l.span.end && l.span.end <= src.len()) {
                        out.fails.push(("spellr-span-out-of-range".into(), format!("SpellCheck reports span {}..{} on a text of {} characters", l.span.start, l.span.end, src.len()), input.clone()));
                        continue;
                    }
                    if !word_spans.contains(&(l.span.start, l.span.end)) {
                        out.fails.push(("spellr-span-not-a-word".into(), format!("SpellCheck reports span {}..{}: not the span of a word token", l.span.start, l.span.end), input.clone()));
                    }
                    if spell_code(l, src).0 == 0 {
                        out.fails.push(("spellr-message".into(), format!("SpellCheck reports kind {:?} priority {} message {:?} with {} suggestions", l.lint_kind, l.priority, l.message, l.suggestions.len()), input.clone()));
                    }
                    if l.suggestions.len() > 3 || l.suggestions.iter().any(|s| !matches!(s, Suggestion::ReplaceWith(_))) {
                        out.fails.push(("spellr-suggestions".into(), format!("SpellCheck offers {:?}: more than three, or not ReplaceWith", l.suggestions), input.clone()));
                    }
                    for sgn in &l.suggestions {
                        match apply_ok(src, l.span, sgn) {
                            Ok(true) => {}
                            Ok(false) => out.fails.push(("spellr-suggestion-not-local".into(), format!("SpellCheck: applying {:?} at {:?} is not the splice", sgn, l.span), input.clone())),
                            Err(e) => out.fails.push(("spellr-suggestion-panics".into(), format!("SpellCheck: applying {:?} at {:?} panics: {}", sgn, l.span, e), input.clone())),
                        }
                        out.counts.push("spellr:suggestions-applied".into());
                    }
                }
                // transparency: a fresh instance on the same document
                let fresh = guarded(|| SpellCheck::new(dict(), Dialect::American).lint(doc));
                let same = matches!(&fresh, Ok(f) if same_lints(f, &ls));
                fresh_results.push(fresh.as_ref().ok().cloned());
                out.monitors.push((CACHE_TRANSPARENT.into(), same));
                if !same && i > 0 {
                    out.fails.push((
                        "spellr-cache-not-transparent".into(),
                        format!("document {} of the session: the long-lived instance reports {:?}, a fresh one {:?}", i, ls.iter().map(|l| (l.span, &l.suggestions)).collect::<Vec<_>>(), fresh.as_ref().map(|f| f.iter().map(|l| (l.span, &l.suggestions)).collect::<Vec<_>>())),
                        input.clone(),
                    ));
                }
                results.push(Some(ls));
            }
            Err(e) => {
                shown.push("panic".into());
                out.nontrivial = true;
                out.fails.push(("spellr-panic".into(), format!("SpellCheck panics on document {}: {}", i, e), input.clone()));
                results.push(None);
                fresh_results.push(None);
            }
        }
    }
    if docs.len() > 1 {
        out.counts.push("spellr:sessions-of-several-documents".into());
    }
    out.k.push((op, format!("ok {}", shown.join(" ; "))));
    // ---- C12 on (P, D, P+D): with the long-lived instance's own results, and with a fresh instance per text
    for (which, res) in [("one instance, documents in the order given", &results), ("a fresh instance per text", &fresh_results)] {
        let Some((pi, di, wi)) = pair else { break };
        if let (Some(Some(lp)), Some(Some(ld)), Some(Some(lw))) = (res.get(pi), res.get(di), res.get(wi)) {
            let plen = texts[pi].chars().count();
            let want: Vec<LKey> = lp.iter().map(|l| lkey(l, 0)).chain(ld.iter().map(|l| lkey(l, plen))).collect();
            let got: Vec<LKey> = lw.iter().map(|l| lkey(l, 0)).collect();
            if !lp.is_empty() && !ld.is_empty() {
                out.counts.push("spellr:pair-with-lints-in-both".into());
            }
            if want != got {
                out.fails.push((
                    "c12-spellcheck".into(),
                    format!(
                        "SpellCheck ({}): lint(P+D) ≠ lint(P) ++ shift(lint(D)): got {:?}, want {:?}",
                        which,
                        got.iter().filter(|k| !want.contains(k)).take(3).collect::<Vec<_>>(),
                        want.iter().filter(|k| !got.contains(k)).take(3).collect::<Vec<_>>()
                    ),
                    input.clone(),
                ));
            }
        }
    }
}

/// misspellings (and a few words that are fine, dialect words, capitalised forms, non-ASCII first letters)
const TYPOS: [&str; 34] = [
    "teh", "recieve", "adress", "wich", "definately", "seperate", "occured", "untill", "becuase", "thier", "speling", "mispelled", "harper", "markdown", "automattic", "colour", "organise",
    "xqzvyk", "dont", "wont", "youre", "alot", "tommorow", "wierd", "goverment", "enviroment", "ärger", "élan", "naive", "Ǆungla", "ßtreet", "i", "hte", "cant",
];

fn swap_two(w: &str, k: usize) -> String {
    let mut cs: Vec<char> = w.chars().collect();
    if cs.len() >= 4 {
        let i = 1 + k % (cs.len() - 2);
        cs.swap(i, i + 1);
    }
    cs.into_iter().collect()
}

fn spell_streams(sess: &mut Session, ctx: &Ctx, rng: &mut Rng) {
    let thorough = ctx.tier == Tier::Thorough;
    let deep = ctx.prop == "C12" || ctx.prop == "MRULES" || thorough;
    let mut jobs: Vec<(Vec<String>, Option<(usize, usize, usize)>)> = vec![];
    // 1. every typo alone (fresh instance), and in its three cases by ONE instance
    for t in TYPOS.iter() {
        jobs.push((vec![t.to_string()], None));
        jobs.push((vec![t.to_string(), cap_first(t), t.to_uppercase(), format!("{} {} {}", cap_first(t), t, t.to_uppercase())], None));
    }
    // 2. the unit tests of spell_check.rs, and rule-test sentences with one word damaged
    let h = harvest(&["spell_check.rs"]);
    for s in &h.sentences {
        jobs.push((vec![s.clone()], None));
    }
    let sents = corpus::sentences();
    let n_s = if thorough { 160 } else if deep { 36 } else { 16 };
    for k in 0..n_s {
        let s = rng.pick(sents).clone();
        let ws: Vec<&str> = s.split(' ').collect();
        let i = rng.below(ws.len().max(1));
        let damaged: Vec<String> = ws.iter().enumerate().map(|(j, w)| if j == i { swap_two(w, k) } else { w.to_string() }).collect();
        let t = damaged.join(" ");
        jobs.push((vec![t.clone()], None));
        if k % 3 == 0 {
            jobs.push((vec![s.clone(), t.clone(), t.to_lowercase(), t], None));
        }
    }
    // 3. (P, D) pairs: the same typo in both paragraphs, in different cases; every order of linting the three texts by one instance
    let seps = ["\n\n", "\n\n\n", " \n\n"];
    let n_p = if thorough { TYPOS.len() } else if deep { 14 } else { 6 };
    for k in 0..n_p {
        let a = TYPOS[(k * 5) % TYPOS.len()];
        let b = TYPOS[(k * 7 + 3) % TYPOS.len()];
        let p = format!("I saw {} and {} there.{}", a, b, seps[k % seps.len()]);
        let d = match k % 3 {
            0 => format!("{} is what {} said.", cap_first(a), cap_first(b)),
            1 => format!("{} {} {}", a.to_uppercase(), b, cap_first(a)),
            _ => format!("so {} was {}", b, a),
        };
        let w = format!("{}{}", p, d);
        match k % 3 {
            0 => jobs.push((vec![p.clone(), d.clone(), w.clone()], Some((0, 1, 2)))),
            1 => jobs.push((vec![w.clone(), d.clone(), p.clone()], Some((2, 1, 0)))),
            _ => jobs.push((vec![d.clone(), w.clone(), p.clone()], Some((2, 0, 1)))),
        }
        jobs.push((vec![w], None));
    }
    // 4. small scope: all ordered pairs of six typos × two cases, each pair as a two-document session
    let small = ["teh", "Teh", "wich", "Wich", "colour", "Colour", "alot", "Alot"];
    let lim = if deep { small.len() } else { 4 };
    for a in &small[..lim] {
        for b in &small[..lim] {
            jobs.push((vec![format!("{} {}", a, b), format!("{} {}", b, a)], None));
        }
    }
    let outs = par_map(jobs.len(), 16, |i| {
        let mut o = Out::new();
        eval_spell(&jobs[i].0, jobs[i].1, &mut o);
        o
    });
    for (i, o) in outs.into_iter().enumerate() {
        sess.count("mrules:origin:spellcheck");
        let key = format!("spellr\u{0}{}", jobs[i].0.join("\u{1}"));
        merge(sess, o, &key);
    }
}

pub const RULE: &str = "merge_linters! RULES (model: Harper.MergeRules): HopHope = ToHop + ToHope, CompoundNouns = GeneralCompoundNouns + ImpliedInstantiatedCompoundNouns + ImpliedOwnershipCompoundNouns, PronounContraction = ShouldContract + AvoidContraction, LetsConfusion = LetUsRedundancy + NoContractionWithVerb — the REAL merged struct alone (mrule), each child struct (compiled from its real source file) alone (mchild), its pattern().matches on every suffix (mrulem), its match_to_lint on the real matches and on arbitrary slices of ≤6 tokens (mmtl) vs the model's trees, Specs and collect ++ remove_overlaps; streams: the rules' own unit-test sentences and the short literals of their sources (harvested at run time) plain, upper / lower / title / swapped case, blanks doubled, blank+newline, newline, comma inserted, bracketed, next to non-ASCII, in two Markdown templates; 40 hand-written texts where several children fire (CompoundNouns: on overlapping tokens); (P, D) pairs with a trigger in both paragraphs; EXHAUSTIVE: all w₁ s w₂ and w₁ w₂ w₃ (and, for CompoundNouns, d w₁ w₂ v) over each rule's trigger words. O: no panic, spans in the text, Suggestion::apply = splice, message / kind / priority are a child's, merged output sorted and pairwise disjoint and a sub-multiset of the children's lints, lint(P+D) = lint(P) ++ shift(lint(D)) exactly and in order; monitors: the LintGroup with only that rule on reports the same, DictOK, AsciiLowerOK. || SpellCheck AS A RULE (model: Harper.SpellRule): K spellr = ONE real SpellCheck instance (American) linting 1–4 documents in turn vs the model threaded through the same session, the dictionary answers per word text (metadata present, dialect, contains_exact_word ×2, the uncached back-off search + dialect filter recomputed from the public API) as data; streams: 34 misspellings alone and in three cases by one instance, the unit tests of spell_check.rs, rule-test sentences with one word damaged, (P, D, P+D) in three orders with the same typo in both paragraphs in different cases, all ordered pairs of eight typos as two-document sessions. O: no panic, span = a word token's span inside the text, ≤ 3 suggestions all ReplaceWith, apply = splice, message / kind / priority, the long-lived instance reports what a fresh one reports (cache transparency), lint(P+D) = lint(P) ++ shift(lint(D)) by one instance in any order; monitors: SuggestOK, functional word data.";

pub fn replay(sess: &mut Session, v: &Value) -> bool {
    let kind = v["kind"].as_str().unwrap_or("");
    if kind == "spellr" {
        let texts: Vec<String> = v["texts"].as_array().map(|a| a.iter().filter_map(|x| x.as_str().map(String::from)).collect()).unwrap_or_default();
        let pair = v["pair"].as_array().and_then(|a| if a.len() == 3 { Some((a[0].as_u64()? as usize, a[1].as_u64()? as usize, a[2].as_u64()? as usize)) } else { None });
        let mut o = Out::new();
        eval_spell(&texts, pair, &mut o);
        merge(sess, o, "replay-spellr");
        return true;
    }
    let name = v["rule"].as_str().unwrap_or("");
    let Some(ri) = RULES.iter().position(|r| r.0 == name) else { return false };
    match kind {
        "mrule" => {
            run_jobs(sess, vec![Job::Doc(ri, v["text"].as_str().unwrap_or("").to_string(), v["md"].as_bool().unwrap_or(false), true)], "replay");
            true
        }
        "mrule-pair" => {
            run_jobs(sess, vec![Job::Pair(ri, v["P"].as_str().unwrap_or("").to_string(), v["D"].as_str().unwrap_or("").to_string())], "replay");
            true
        }
        _ => false,
    }
}

/// split compounds found in the dictionary itself: words `a ++ b` (both parts words of 3–6 letters that the exceptions pattern of
/// GeneralCompoundNouns lets through) whose merged form is a noun AND something else the three `SplitCompoundWord` predicates
/// distinguish (adjective, proper noun) — deterministic: dictionary order, the first few of each class
fn dictionary_compounds() -> &'static Vec<(String, String)> {
    static S: OnceLock<Vec<(String, String)>> = OnceLock::new();
    S.get_or_init(|| {
        let d = dict();
        let ok_part = |w: &[char]| match d.get_word_metadata(w) {
            Some(md) => !md.determiner && !md.preposition && !md.is_adverb() && w.iter().all(|c| c.is_ascii_lowercase()),
            None => false,
        };
        let mut words: Vec<Vec<char>> = d.words_iter().filter(|w| w.len() >= 6 && w.len() <= 11 && w.iter().all(|c| c.is_ascii_lowercase())).map(|w| w.to_vec()).collect();
        words.sort();
        let (mut adj, mut plain, mut out) = (0, 0, vec![]);
        for w in &words {
            let Some(md) = d.get_word_metadata(w) else { continue };
            if !md.is_nominal() {
                continue;
            }
            let is_adj = md.is_adjective();
            if (is_adj && adj >= 10) || (!is_adj && plain >= 4) {
                continue;
            }
            for k in 3..=w.len() - 3 {
                let (a, b) = w.split_at(k);
                if ok_part(a) && ok_part(b) {
                    out.push((a.iter().collect::<String>(), b.iter().collect::<String>()));
                    if is_adj {
                        adj += 1
                    } else {
                        plain += 1
                    }
                    break;
                }
            }
            if adj >= 10 && plain >= 4 {
                break;
            }
        }
        out
    })
}

fn words_of(s: &str) -> Vec<String> {
    s.split(|c: char| c.is_whitespace()).filter(|w| !w.is_empty()).map(String::from).collect()
}

pub fn run_into(sess: &mut Session, ctx: &Ctx, rng: &mut Rng) {
    let thorough = ctx.tier == Tier::Thorough;
    let deep = ctx.prop == "C01" || ctx.prop == "MRULES" || thorough;
    {
        let g = LintGroup::new_curated(dict(), Dialect::American);
        let keys: BTreeSet<String> = g.iter_keys().map(String::from).collect();
        for r in RULES.iter() {
            sess.monitor("mrules: every modelled merged rule is a rule of the shipped LintGroup", keys.contains(r.0));
        }
    }
    let hv: Vec<Harvest> = RULES
        .iter()
        .map(|r| {
            let mut files: Vec<&str> = vec![r.1];
            files.extend(r.2.iter().map(|c| CHILDREN[*c].1));
            harvest(&files)
        })
        .collect();
    sess.add("mrules:test-sentences-harvested", hv.iter().map(|h| h.sentences.len() as u64).sum());
    sess.add("mrules:source-literals-harvested", hv.iter().map(|h| h.phrases.len() as u64).sum());
    // ---- 1. witnesses, the rules' own test sentences and source literals, in variants ------------
    let mut jobs = vec![];
    for (ri, t) in WITNESSES.iter() {
        for (j, (v, md)) in variants(t, true).into_iter().enumerate() {
            jobs.push(Job::Doc(*ri, v, md, j == 0));
        }
    }
    for (ri, h) in hv.iter().enumerate() {
        let nfull = if thorough { h.sentences.len() } else if deep { 6 } else { 3 };
        for (k, t) in h.sentences.iter().enumerate() {
            for (j, (v, md)) in variants(t, k < nfull).into_iter().enumerate() {
                jobs.push(Job::Doc(ri, v, md, j == 0 && k < 4));
            }
        }
        for (k, t) in h.phrases.iter().enumerate() {
            jobs.push(Job::Doc(ri, t.clone(), false, k < 4));
            jobs.push(Job::Doc(ri, format!("We {} now.", t), false, false));
            if deep {
                jobs.push(Job::Doc(ri, format!("{} it", cap_first(t)), false, false));
                jobs.push(Job::Doc(ri, t.to_uppercase(), false, false));
            }
        }
        for t in ["", " ", "a", "the the", "your", "were the", "let's", "hope on", "a b c d e f"] {
            jobs.push(Job::Doc(ri, t.to_string(), false, true));
        }
    }
    let words = run_jobs(sess, std::mem::take(&mut jobs), "sentences");
    // ---- 2. (P, D) pairs: a trigger in both paragraphs --------------------------------------------
    let seps = ["\n\n", "\n\n\n", " \n\n", "\t\n\n"];
    let reps = if thorough { 40 } else if ctx.prop == "C12" || ctx.prop == "MRULES" { 14 } else { 4 };
    for (ri, h) in hv.iter().enumerate() {
        let mut pool: Vec<String> = h.sentences.clone();
        pool.extend(WITNESSES.iter().filter(|w| w.0 == ri).map(|w| w.1.to_string()));
        if pool.is_empty() {
            continue;
        }
        for k in 0..reps {
            let a = rng.pick(&pool).clone();
            let b = rng.pick(&pool).clone();
            let a = a.trim_end().to_string();
            let p = if a.ends_with(['.', '!', '?']) { format!("{}{}", a, seps[rng.below(seps.len())]) } else { format!("{}.{}", a, seps[rng.below(seps.len())]) };
            if p.contains('"') {
                continue;
            }
            let d = match k % 4 {
                0 => b.clone(),
                1 => format!("{} {}", b, a),
                2 => replace_nth_space(&b, k, " \n"),
                _ => format!("so {}", b.to_lowercase()),
            };
            jobs.push(Job::Pair(ri, p, d));
        }
    }
    run_jobs(sess, std::mem::take(&mut jobs), "pairs");
    // ---- 3. exhaustive small scope over each rule's trigger words ----------------------------------
    let seps2 = ["  ", " \n", "-", ", "];
    for (ri, h) in hv.iter().enumerate() {
        let mut v: Vec<String> = vec![];
        for p in &h.phrases {
            for w in words_of(p) {
                if !v.contains(&w) {
                    v.push(w);
                }
            }
        }
        v.truncate(if thorough { 30 } else { 16 });
        let mut ctxw: Vec<(usize, String)> = vec![];
        for w in &words[ri] {
            if v.iter().any(|x| x.eq_ignore_ascii_case(w)) {
                continue;
            }
            match ctxw.iter_mut().find(|(_, x)| x == w) {
                Some(e) => e.0 += 1,
                None => ctxw.push((1, w.clone())),
            }
        }
        ctxw.sort_by(|a, b| b.0.cmp(&a.0).then(a.1.cmp(&b.1)));
        let mut small: Vec<String> = v.iter().take(if thorough { 10 } else { 7 }).cloned().collect();
        for (_, w) in ctxw.iter().take(if thorough { 6 } else { 4 }) {
            small.push(w.clone());
            v.push(w.clone());
        }
        for g in ["the", "I"] {
            small.push(g.to_string());
            v.push(g.to_string());
        }
        sess.add("mrules:small-scope-vocabulary", v.len() as u64);
        let mut texts: Vec<String> = vec![];
        for a in &v {
            texts.push(a.clone());
            for b in &v {
                texts.push(format!("{} {}", a, b));
            }
        }
        for a in &small {
            for b in &small {
                for s in seps2 {
                    texts.push(format!("{}{}{}", a, s, b));
                }
                for c in &small {
                    texts.push(format!("{} {} {}", a, b, c));
                }
            }
        }
        if RULES[ri].0 == "CompoundNouns" {
            // determiner / possessive × split compound × auxiliary verb: up to three children on the same tokens
            let heads = ["a", "the", "his", "my", "user's", "big", "Let's", "ran"];
            let parts = [("note", "book"), ("web", "cam"), ("back", "pack"), ("key", "board"), ("every", "one"), ("pack", "age"), ("in", "to"), ("any", "one")];
            let tails = ["", " is", " was", " will", " can", " age", " book"];
            let found = dictionary_compounds();
            sess.add("mrules:compounds-found-in-the-dictionary", found.len() as u64);
            let mut parts: Vec<(&str, &str)> = parts.to_vec();
            parts.extend(found.iter().map(|(a, b)| (a.as_str(), b.as_str())));
            for h in heads {
                for (a, b) in parts.iter().copied() {
                    for t in tails {
                        texts.push(format!("{} {} {}{}", h, a, b, t));
                        if thorough {
                            texts.push(format!("{} {}  {}{}", h, a, b, t));
                            texts.push(format!("{}  {} {}{}", h, a, b, t));
                        }
                    }
                }
            }
        }
        if RULES[ri].0 == "HopHope" {
            for a in ["I", "We", "dogs", "hope", "the"] {
                for b in ["hop", "hopped", "hope", "hoped", "hoping"] {
                    for c in ["we", "on a bus", "on the call", "on a", "it", "hope on a bus"] {
                        texts.push(format!("{} {} {}", a, b, c));
                    }
                }
            }
        }
        texts.sort();
        texts.dedup();
        for t in texts {
            jobs.push(Job::Doc(ri, t, false, false));
        }
    }
    run_jobs(sess, std::mem::take(&mut jobs), "small-scope");
    // ---- 4. SpellCheck as a rule ---------------------------------------------------------------------
    spell_streams(sess, ctx, rng);
}

/// stand-alone entry (`hv MRULES`): the streams of this module only
pub fn run(ctx: &Ctx) {
    let mut sess = Session::new(ctx);
    let mut rng = Rng::new(ctx.seed);
    if let Some(v) = replay_input(ctx) {
        replay(&mut sess, &v);
        sess.nontrivial("replay-a");
        sess.nontrivial("replay-b");
        sess.finish("replay of one recorded merged-rule input", false, json!({}));
        return;
    }
    run_into(&mut sess, ctx, &mut rng);
    sess.finish(RULE, true, json!({}));
}
