//! C02 / C01 — the Typst translator's own logic (and the HTML `Space` clamp), K streams.
//!
//! `typst`: the REAL `typst_syntax::Source` of a text is serialised by calling exactly the accessors
//! `harper-typst/src/typst_translator.rs` calls (per `Expr` / `Pattern` / `Arg` / `Param` /
//! `ArrayItem` / `DictItem` / `DestructuringItem` variant, in the order the translator calls them;
//! every accessor result is a subtree of its own, so an accessor that falls back to the same child
//! as another one shows up as a duplicated subtree) and handed to the Lean model
//! (`Harper.Model.Typst.typstParse`) as data together with the text; the model computes the tokens
//! of `harper_typst::Typst.parse`, which are compared with the real ones. The hypotheses of the
//! theorems of `Props/C02e.lean` about the tree (`TreeOK`, `NoAlias`, `InOrder`) are evaluated as
//! monitors on every tree by a Rust mirror, and the mirror itself is tied to the model's
//! definitions by op `typok`. `htmlclamp`: the `Space(n)` clamp of `HtmlParser::parse`.
//! `htmlparse` (w24): the WHOLE `HtmlParser::parse` against `Typst.htmlParse` — the text and the mask
//! the real `TreeSitterMasker` (tree-sitter-html `text` nodes) computes for it are handed over, the
//! model runs `maskParse` with its own model of `PlainEnglish` as the inner parser, then the clamp.
//! `RangesSolid` (w24): the fourth assumption predicate (every range the translator turns into a
//! non-structural `def_token!` token covers at least one character) — mirror, monitor, fourth field
//! of `typok`.
use crate::c02::{Out, check_tokens, merge};
use crate::common::*;
use crate::textgen;
use crate::tokfmt::*;
use harper_core::parsers::{Parser, PlainEnglish};
use harper_core::{Token, TokenKind};
use serde_json::{Value, json};
use typst_syntax::Source;
use typst_syntax::ast::{Arg, ArrayItem, AstNode, DestructuringItem, DictItem, Expr, LetBindingKind, Markup, Param, Pattern};

fn new_out() -> Out {
    Out { k: vec![], fails: vec![], counts: vec![], monitors: vec![], nontrivial: None }
}

/// the byte range `doc.range(span)` gives the translator for a node (None: detached / synthesised)
pub type R = Option<(usize, usize)>;

/// what the translator sees of one syntax node, per `match` arm of `parse_expr` / `parse_pattern`
#[derive(Clone, Debug)]
pub enum N {
    /// `Expr::Text`: `text.get()`
    Text(R, Vec<char>),
    /// `Expr::Space`
    Space(R),
    /// the `token!` arms: lb Linebreak, pb Parbreak, qd / qs SmartQuote (double / single), ln Link,
    /// ot every variant without an arm of its own
    Leaf(&'static str, R),
    /// `iter_recurse(body().exprs())`: st Strong, em Emph, hd Heading, li List, en Enum,
    /// tm Term (`term().exprs().chain(description().exprs())`), co Content, cd Code
    Body(&'static str, R, Vec<N>),
    /// `Expr::Str`: `text.to_untyped().text()`
    Str(R, Vec<char>),
    /// `recurse!(x)`: pa Parenthesized.expr(), da DestructAssign.value(), cx Contextual.body()
    Rec1(&'static str, R, Box<N>),
    /// `recurse!(a, b)` / `merge![…]` of recursions: wh While, fo For, if Conditional, sh Show
    Rec(&'static str, R, Vec<N>),
    Array(R, Vec<I>),
    Dict(R, Vec<I>),
    /// `field_access.target()`, range of `field_access.field()`
    Field(R, Box<N>, R),
    /// `let_binding.kind()` (pattern view, or `LetClosure`), `let_binding.init()`
    Let(R, Box<N>, Vec<N>),
    /// `LetBindingKind::Closure(ident)`
    LetClosure(R),
    /// `set_rule.target()`, `.condition()`, `.args().items()`
    Set(R, Box<N>, Vec<N>, Vec<I>),
    /// `closure.name()`, `.params().children()`, `.body()`
    Closure(R, Vec<N>, Vec<I>, Box<N>),
    /// range of `func.callee()`, `func.args().items()`
    Call(R, R, Vec<I>),
    /// `Pattern::Placeholder`
    PatPlaceholder(R),
    /// `Pattern::Parenthesized`: `.expr()`, `.pattern()`
    PatParen(R, Box<N>, Box<N>),
    /// `Pattern::Destructuring`: `.items()`
    PatDestruct(R, Vec<I>),
}

#[derive(Clone, Debug)]
pub enum I {
    /// `Arg::Pos(expr)` / `ArrayItem::Pos(expr)` / `Param::Pos(pattern)` / `DestructuringItem::Pattern(pattern)`
    Pos(N),
    /// `Arg | Param | DictItem ::Named`: item range, `name()` as `Expr::Ident`, `name().as_str()`, `expr()`
    Named(R, N, Vec<char>, N),
    /// `DestructuringItem::Named`: item range, range of `name()`, `pattern()`
    DNamed(R, R, N),
    /// `DictItem::Keyed`: `key()`, `expr()`
    Keyed(R, N, N),
    /// `Spread`: `[expr()]` for args / params / dict items, `sink_expr()` (0 or 1) for a
    /// destructuring item, nothing for an array item (the translator calls no accessor there)
    Spread(R, Vec<N>),
}

pub struct Ser<'a> {
    pub doc: &'a Source,
}

impl<'a> Ser<'a> {
    fn rng(&self, span: typst_syntax::Span) -> R {
        self.doc.range(span).map(|r| (r.start, r.end))
    }
    fn exprs(&self, it: &mut dyn Iterator<Item = Expr<'a>>) -> Vec<N> {
        it.map(|e| self.expr(e)).collect()
    }
    fn chars(s: &str) -> Vec<char> {
        s.chars().collect()
    }
    fn named(&self, n: typst_syntax::ast::Named<'a>) -> I {
        I::Named(self.rng(n.span()), self.expr(Expr::Ident(n.name())), Self::chars(n.name().as_str()), self.expr(n.expr()))
    }
    fn args(&self, it: &mut dyn Iterator<Item = Arg<'a>>) -> Vec<I> {
        it.map(|a| match a {
            Arg::Pos(e) => I::Pos(self.expr(e)),
            Arg::Named(n) => self.named(n),
            Arg::Spread(s) => I::Spread(self.rng(s.span()), vec![self.expr(s.expr())]),
        })
        .collect()
    }
    fn params(&self, it: &mut dyn Iterator<Item = Param<'a>>) -> Vec<I> {
        it.map(|p| match p {
            Param::Pos(p) => I::Pos(self.pat(p)),
            Param::Named(n) => self.named(n),
            Param::Spread(s) => I::Spread(self.rng(s.span()), vec![self.expr(s.expr())]),
        })
        .collect()
    }
    pub fn pat(&self, p: Pattern<'a>) -> N {
        match p {
            Pattern::Normal(e) => self.expr(e),
            Pattern::Placeholder(u) => N::PatPlaceholder(self.rng(u.span())),
            Pattern::Parenthesized(p) => N::PatParen(self.rng(p.span()), Box::new(self.expr(p.expr())), Box::new(self.pat(p.pattern()))),
            Pattern::Destructuring(d) => N::PatDestruct(
                self.rng(d.span()),
                d.items()
                    .map(|i| match i {
                        DestructuringItem::Pattern(p) => I::Pos(self.pat(p)),
                        DestructuringItem::Named(n) => I::DNamed(self.rng(n.span()), self.rng(n.name().span()), self.pat(n.pattern())),
                        DestructuringItem::Spread(s) => I::Spread(self.rng(s.span()), s.sink_expr().map(|e| self.expr(e)).into_iter().collect()),
                    })
                    .collect(),
            ),
        }
    }
    /// one `match` arm per arm of `parse_expr`
    pub fn expr(&self, e: Expr<'a>) -> N {
        let r = self.rng(e.span());
        match e {
            Expr::Text(t) => N::Text(r, Self::chars(t.get())),
            Expr::Space(_) => N::Space(r),
            Expr::Linebreak(_) => N::Leaf("lb", r),
            Expr::Parbreak(_) => N::Leaf("pb", r),
            Expr::SmartQuote(q) => N::Leaf(if q.double() { "qd" } else { "qs" }, r),
            Expr::Strong(s) => N::Body("st", r, self.exprs(&mut s.body().exprs())),
            Expr::Emph(s) => N::Body("em", r, self.exprs(&mut s.body().exprs())),
            Expr::Link(_) => N::Leaf("ln", r),
            Expr::Heading(s) => N::Body("hd", r, self.exprs(&mut s.body().exprs())),
            Expr::List(s) => N::Body("li", r, self.exprs(&mut s.body().exprs())),
            Expr::Enum(s) => N::Body("en", r, self.exprs(&mut s.body().exprs())),
            Expr::Term(t) => N::Body("tm", r, self.exprs(&mut t.term().exprs().chain(t.description().exprs()))),
            Expr::Str(s) => N::Str(r, Self::chars(s.to_untyped().text())),
            Expr::Content(c) => N::Body("co", r, self.exprs(&mut c.body().exprs())),
            Expr::Parenthesized(p) => N::Rec1("pa", r, Box::new(self.expr(p.expr()))),
            Expr::Array(a) => N::Array(
                r,
                a.items()
                    .map(|i| match i {
                        ArrayItem::Pos(e) => I::Pos(self.expr(e)),
                        ArrayItem::Spread(s) => I::Spread(self.rng(s.span()), vec![]),
                    })
                    .collect(),
            ),
            Expr::Dict(d) => N::Dict(
                r,
                d.items()
                    .map(|i| match i {
                        DictItem::Named(n) => self.named(n),
                        DictItem::Keyed(k) => I::Keyed(self.rng(k.span()), self.expr(k.key()), self.expr(k.expr())),
                        DictItem::Spread(s) => I::Spread(self.rng(s.span()), vec![self.expr(s.expr())]),
                    })
                    .collect(),
            ),
            Expr::FieldAccess(f) => N::Field(r, Box::new(self.expr(f.target())), self.rng(f.field().span())),
            Expr::Let(l) => N::Let(
                r,
                Box::new(match l.kind() {
                    LetBindingKind::Normal(p) => self.pat(p),
                    LetBindingKind::Closure(id) => N::LetClosure(self.rng(id.span())),
                }),
                l.init().map(|e| self.expr(e)).into_iter().collect(),
            ),
            Expr::DestructAssign(d) => N::Rec1("da", r, Box::new(self.expr(d.value()))),
            Expr::Set(s) => N::Set(r, Box::new(self.expr(s.target())), s.condition().map(|e| self.expr(e)).into_iter().collect(), self.args(&mut s.args().items())),
            Expr::Show(s) => {
                let mut v = vec![self.expr(s.transform())];
                v.extend(s.selector().map(|e| self.expr(e)));
                N::Rec("sh", r, v)
            }
            Expr::Contextual(c) => N::Rec1("cx", r, Box::new(self.expr(c.body()))),
            Expr::Conditional(c) => {
                let mut v = vec![self.expr(c.condition()), self.expr(c.if_body())];
                v.extend(c.else_body().map(|e| self.expr(e)));
                N::Rec("if", r, v)
            }
            Expr::While(w) => N::Rec("wh", r, vec![self.expr(w.condition()), self.expr(w.body())]),
            Expr::For(f) => N::Rec("fo", r, vec![self.expr(f.iterable()), self.expr(f.body())]),
            Expr::Code(c) => N::Body("cd", r, self.exprs(&mut c.body().exprs())),
            Expr::Closure(c) => N::Closure(r, c.name().map(|i| self.expr(Expr::Ident(i))).into_iter().collect(), self.params(&mut c.params().children()), Box::new(self.expr(c.body()))),
            Expr::FuncCall(f) => N::Call(r, self.rng(f.callee().span()), self.args(&mut f.args().items())),
            _ => N::Leaf("ot", r),
        }
    }
}

/// the top-level expressions of a text, as `Typst::parse` obtains them
pub fn tree_of(doc: &Source) -> Option<Vec<N>> {
    let m = Markup::from_untyped(doc.root())?;
    let s = Ser { doc };
    Some(m.exprs().map(|e| s.expr(e)).collect())
}

// ---------------------------------------------------------------------------------------------
// serialisation (prefix notation, explicit counts; see Driver/Typst.lean)
// ---------------------------------------------------------------------------------------------

fn w_r(out: &mut String, r: &R) {
    match r {
        Some((s, e)) => out.push_str(&format!(" {}:{}", s, e)),
        None => out.push_str(" -"),
    }
}
fn w_txt(out: &mut String, t: &[char], flags: bool) {
    out.push_str(&format!(" {}", t.len()));
    if !t.is_empty() {
        out.push(' ');
        out.push_str(&if flags { text_field(t) } else { chars_field(t) });
    }
}
fn w_ns(out: &mut String, ns: &[N]) {
    out.push_str(&format!(" {}", ns.len()));
    for n in ns {
        w_n(out, n);
    }
}
fn w_is(out: &mut String, is: &[I]) {
    out.push_str(&format!(" {}", is.len()));
    for i in is {
        w_i(out, i);
    }
}
fn w_n(out: &mut String, n: &N) {
    match n {
        N::Text(r, t) => {
            out.push_str(" T");
            w_r(out, r);
            w_txt(out, t, true);
        }
        N::Space(r) => {
            out.push_str(" S");
            w_r(out, r);
        }
        N::Leaf(k, r) => {
            out.push_str(&format!(" L{}", k));
            w_r(out, r);
        }
        N::Body(k, r, ns) => {
            out.push_str(&format!(" B{}", k));
            w_r(out, r);
            w_ns(out, ns);
        }
        N::Str(r, t) => {
            out.push_str(" Q");
            w_r(out, r);
            w_txt(out, t, true);
        }
        N::Rec1(k, r, n) => {
            out.push_str(&format!(" O{}", k));
            w_r(out, r);
            w_n(out, n);
        }
        N::Rec(k, r, ns) => {
            out.push_str(&format!(" R{}", k));
            w_r(out, r);
            w_ns(out, ns);
        }
        N::Array(r, is) => {
            out.push_str(" A");
            w_r(out, r);
            w_is(out, is);
        }
        N::Dict(r, is) => {
            out.push_str(" D");
            w_r(out, r);
            w_is(out, is);
        }
        N::Field(r, t, f) => {
            out.push_str(" F");
            w_r(out, r);
            w_n(out, t);
            w_r(out, f);
        }
        N::Let(r, k, init) => {
            out.push_str(" E");
            w_r(out, r);
            w_n(out, k);
            w_ns(out, init);
        }
        N::LetClosure(r) => {
            out.push_str(" C");
            w_r(out, r);
        }
        N::Set(r, t, c, a) => {
            out.push_str(" Z");
            w_r(out, r);
            w_n(out, t);
            w_ns(out, c);
            w_is(out, a);
        }
        N::Closure(r, nm, ps, b) => {
            out.push_str(" U");
            w_r(out, r);
            w_ns(out, nm);
            w_is(out, ps);
            w_n(out, b);
        }
        N::Call(r, c, a) => {
            out.push_str(" K");
            w_r(out, r);
            w_r(out, c);
            w_is(out, a);
        }
        N::PatPlaceholder(r) => {
            out.push_str(" P_");
            w_r(out, r);
        }
        N::PatParen(r, e, p) => {
            out.push_str(" P(");
            w_r(out, r);
            w_n(out, e);
            w_n(out, p);
        }
        N::PatDestruct(r, is) => {
            out.push_str(" PD");
            w_r(out, r);
            w_is(out, is);
        }
    }
}
fn w_i(out: &mut String, i: &I) {
    match i {
        I::Pos(n) => {
            out.push_str(" ip");
            w_n(out, n);
        }
        I::Named(r, nm, t, v) => {
            out.push_str(" in");
            w_r(out, r);
            w_n(out, nm);
            w_txt(out, t, false);
            w_n(out, v);
        }
        I::DNamed(r, nr, p) => {
            out.push_str(" id");
            w_r(out, r);
            w_r(out, nr);
            w_n(out, p);
        }
        I::Keyed(r, k, v) => {
            out.push_str(" ik");
            w_r(out, r);
            w_n(out, k);
            w_n(out, v);
        }
        I::Spread(r, ns) => {
            out.push_str(" is");
            w_r(out, r);
            w_ns(out, ns);
        }
    }
}

pub fn tree_words(top: &[N]) -> String {
    let mut s = String::new();
    w_ns(&mut s, top);
    s.trim_start().to_string()
}

// ---------------------------------------------------------------------------------------------
// monitors: a Rust mirror of `treeOK` / `noAlias` / `inOrder` of Model/Typst.lean (op `typok`
// compares the mirror with the model's own definitions on every tree)
// ---------------------------------------------------------------------------------------------

pub struct Mon<'a> {
    pub text: &'a str,
    pub src: &'a [char],
}

fn n_range(n: &N) -> R {
    match n {
        N::Text(r, _) | N::Space(r) | N::Leaf(_, r) | N::Body(_, r, _) | N::Str(r, _) | N::Rec1(_, r, _) | N::Rec(_, r, _) | N::Array(r, _) | N::Dict(r, _) | N::Field(r, _, _) | N::Let(r, _, _) | N::LetClosure(r) | N::Set(r, _, _, _) | N::Closure(r, _, _, _) | N::Call(r, _, _) | N::PatPlaceholder(r) | N::PatParen(r, _, _) | N::PatDestruct(r, _) => *r,
    }
}
fn i_range(i: &I) -> R {
    match i {
        I::Pos(n) => n_range(n),
        I::Named(r, _, _, _) | I::DNamed(r, _, _) | I::Keyed(r, _, _) | I::Spread(r, _) => *r,
    }
}

/// `parse_args_ignored(ignore_pos, ignore_nameds)` is chosen by the callee's text
pub fn ignore_spec(callee: &str) -> Option<(bool, &'static [&'static str])> {
    match callee {
        "std.rgb" | "color.rgb" | "rgb" => Some((true, &[])),
        "std.plugin" | "plugin" => Some((true, &[])),
        "std.bibliography" | "bibliography" => Some((true, &["style"])),
        "std.cite" | "cite" => Some((true, &["style"])),
        "std.raw" | "raw" => Some((false, &["syntaxes", "theme"])),
        "std.image" | "image" => Some((true, &[])),
        "std.regex" | "regex" => Some((true, &[])),
        _ if callee.ends_with(".display") => Some((true, &[])),
        _ => None,
    }
}

impl<'a> Mon<'a> {
    fn range_ok(&self, lo: usize, hi: usize, r: &R) -> bool {
        match r {
            None => true,
            Some((s, e)) => lo <= *s && s <= e && *e <= hi && *e <= self.text.len() && self.text.is_char_boundary(*s) && self.text.is_char_boundary(*e),
        }
    }
    fn nchars(&self, s: usize, e: usize) -> usize {
        self.text.get(s..e).map(|x| x.chars().count()).unwrap_or(0)
    }
    fn fits(&self, r: &R, n: usize) -> bool {
        match r {
            Some((s, e)) => n <= self.nchars(*s, *e),
            None => n == 0,
        }
    }
    fn sub(lo: usize, hi: usize, r: &R) -> (usize, usize) {
        r.unwrap_or((lo, hi))
    }
    pub fn tree_ok(&self, lo: usize, hi: usize, n: &N) -> bool {
        let r = n_range(n);
        if !self.range_ok(lo, hi, &r) {
            return false;
        }
        let (l2, h2) = Self::sub(lo, hi, &r);
        match n {
            N::Text(_, t) => self.fits(&r, t.len()),
            N::Space(_) => matches!(r, Some((s, e)) if self.nchars(s, e) >= 1),
            N::Leaf(..) | N::LetClosure(_) | N::PatPlaceholder(_) => true,
            N::Body(_, _, ns) | N::Rec(_, _, ns) => ns.iter().all(|k| self.tree_ok(l2, h2, k)),
            N::Str(_, t) => t.len() >= 2 && t[0].is_ascii() && t[t.len() - 1].is_ascii() && self.fits(&r, t.len()),
            N::Rec1(_, _, k) => self.tree_ok(l2, h2, k),
            N::Array(_, is) | N::Dict(_, is) | N::PatDestruct(_, is) => is.iter().all(|i| self.item_ok(l2, h2, i)),
            N::Field(_, t, f) => self.tree_ok(l2, h2, t) && self.range_ok(l2, h2, f),
            N::Let(_, k, init) => self.tree_ok(l2, h2, k) && init.iter().all(|k| self.tree_ok(l2, h2, k)),
            N::Set(_, t, c, a) => self.tree_ok(l2, h2, t) && c.iter().all(|k| self.tree_ok(l2, h2, k)) && a.iter().all(|i| self.item_ok(l2, h2, i)),
            N::Closure(_, nm, ps, b) => nm.iter().all(|k| self.tree_ok(l2, h2, k)) && ps.iter().all(|i| self.item_ok(l2, h2, i)) && self.tree_ok(l2, h2, b),
            N::Call(_, c, a) => self.range_ok(l2, h2, c) && a.iter().all(|i| self.item_ok(l2, h2, i)),
            N::PatParen(_, e, p) => self.tree_ok(l2, h2, e) && self.tree_ok(l2, h2, p),
        }
    }
    fn item_ok(&self, lo: usize, hi: usize, i: &I) -> bool {
        match i {
            I::Pos(n) => self.tree_ok(lo, hi, n),
            _ => {
                let r = i_range(i);
                if !self.range_ok(lo, hi, &r) {
                    return false;
                }
                let (l2, h2) = Self::sub(lo, hi, &r);
                match i {
                    I::Pos(_) => true,
                    I::Named(_, nm, _, v) => self.tree_ok(l2, h2, nm) && self.tree_ok(l2, h2, v),
                    I::DNamed(_, nr, p) => self.range_ok(l2, h2, nr) && self.tree_ok(l2, h2, p),
                    I::Keyed(_, k, v) => self.tree_ok(l2, h2, k) && self.tree_ok(l2, h2, v),
                    I::Spread(_, ns) => ns.iter().all(|k| self.tree_ok(l2, h2, k)),
                }
            }
        }
    }

    // --- RangesSolid: every range `def_token!` turns into a NON-structural token covers a character ---
    /// `charCount ((bs.drop s).take (e - s))` of the model: the bytes of `[s, e)` (clipped to the
    /// text like `List.drop` / `List.take`) that start a character
    fn nchars_raw(&self, s: usize, e: usize) -> usize {
        let b = self.text.as_bytes();
        let lo = s.min(b.len());
        let hi = (lo + e.saturating_sub(s)).min(b.len());
        b[lo..hi].iter().filter(|x| (**x & 0xC0) != 0x80).count()
    }
    /// `solidR`: detached, or at least one character
    pub fn solid(&self, r: &R) -> bool {
        match r {
            None => true,
            Some((s, e)) => self.nchars_raw(*s, *e) >= 1,
        }
    }
    /// `solidN` of Model/Typst.lean
    pub fn ranges_solid(&self, n: &N) -> bool {
        match n {
            N::Text(..) | N::Space(_) | N::Str(..) | N::LetClosure(_) => true,
            N::Leaf(k, r) => *k == "lb" || *k == "pb" || self.solid(r),
            N::PatPlaceholder(r) => self.solid(r),
            N::Body(_, _, ns) | N::Rec(_, _, ns) => ns.iter().all(|k| self.ranges_solid(k)),
            N::Rec1(_, _, k) => self.ranges_solid(k),
            N::Array(_, is) | N::Dict(_, is) | N::PatDestruct(_, is) => is.iter().all(|i| self.item_solid(i)),
            N::Field(_, t, f) => self.ranges_solid(t) && self.solid(f),
            N::Let(_, k, init) => self.ranges_solid(k) && init.iter().all(|k| self.ranges_solid(k)),
            N::Set(_, t, c, a) => self.ranges_solid(t) && c.iter().all(|k| self.ranges_solid(k)) && a.iter().all(|i| self.item_solid(i)),
            N::Closure(_, nm, ps, b) => nm.iter().all(|k| self.ranges_solid(k)) && ps.iter().all(|i| self.item_solid(i)) && self.ranges_solid(b),
            // the callee and (possibly ignored: one `Unlintable` over the whole argument) every argument
            N::Call(_, c, a) => self.solid(c) && a.iter().all(|i| self.solid(&i_range(i)) && self.item_solid(i)),
            N::PatParen(_, e, p) => self.ranges_solid(e) && self.ranges_solid(p),
        }
    }
    fn item_solid(&self, i: &I) -> bool {
        match i {
            I::Pos(n) => self.ranges_solid(n),
            I::Named(_, nm, _, v) => self.ranges_solid(nm) && self.ranges_solid(v),
            I::DNamed(_, nr, p) => self.solid(nr) && self.ranges_solid(p),
            I::Keyed(_, k, v) => self.ranges_solid(k) && self.ranges_solid(v),
            I::Spread(_, ns) => ns.iter().all(|k| self.ranges_solid(k)),
        }
    }

    // --- NoAlias: the direct accessor results of one node are pairwise different children ------
    fn nodup(rs: &[R]) -> bool {
        let v: Vec<(usize, usize)> = rs.iter().filter_map(|r| *r).filter(|(s, e)| s < e).collect();
        for i in 0..v.len() {
            for j in 0..i {
                if v[i] == v[j] {
                    return false;
                }
            }
        }
        true
    }
    pub fn no_alias(&self, n: &N) -> bool {
        let kids: Vec<R> = match n {
            N::Body(_, _, ns) | N::Rec(_, _, ns) => ns.iter().map(n_range).collect(),
            N::Array(_, is) | N::Dict(_, is) | N::PatDestruct(_, is) => is.iter().map(i_range).collect(),
            N::Field(_, t, f) => vec![n_range(t), *f],
            N::Let(_, k, init) => std::iter::once(n_range(k)).chain(init.iter().map(n_range)).collect(),
            N::Set(_, t, c, a) => std::iter::once(n_range(t)).chain(c.iter().map(n_range)).chain(a.iter().map(i_range)).collect(),
            N::Closure(_, nm, ps, b) => nm.iter().map(n_range).chain(ps.iter().map(i_range)).chain(std::iter::once(n_range(b))).collect(),
            N::Call(_, c, a) => std::iter::once(*c).chain(a.iter().map(i_range)).collect(),
            N::PatParen(_, e, p) => vec![n_range(e), n_range(p)],
            _ => vec![],
        };
        if !Self::nodup(&kids) {
            return false;
        }
        match n {
            N::Body(_, _, ns) | N::Rec(_, _, ns) => ns.iter().all(|k| self.no_alias(k)),
            N::Rec1(_, _, k) => self.no_alias(k),
            N::Array(_, is) | N::Dict(_, is) | N::PatDestruct(_, is) => is.iter().all(|i| self.item_no_alias(i)),
            N::Field(_, t, _) => self.no_alias(t),
            N::Let(_, k, init) => self.no_alias(k) && init.iter().all(|k| self.no_alias(k)),
            N::Set(_, t, c, a) => self.no_alias(t) && c.iter().all(|k| self.no_alias(k)) && a.iter().all(|i| self.item_no_alias(i)),
            N::Closure(_, nm, ps, b) => nm.iter().all(|k| self.no_alias(k)) && ps.iter().all(|i| self.item_no_alias(i)) && self.no_alias(b),
            N::Call(_, _, a) => a.iter().all(|i| self.item_no_alias(i)),
            N::PatParen(_, e, p) => self.no_alias(e) && self.no_alias(p),
            _ => true,
        }
    }
    fn item_no_alias(&self, i: &I) -> bool {
        match i {
            I::Pos(n) => self.no_alias(n),
            I::Named(_, nm, _, v) => Self::nodup(&[n_range(nm), n_range(v)]) && self.no_alias(nm) && self.no_alias(v),
            I::DNamed(_, nr, p) => Self::nodup(&[*nr, n_range(p)]) && self.no_alias(p),
            I::Keyed(_, k, v) => Self::nodup(&[n_range(k), n_range(v)]) && self.no_alias(k) && self.no_alias(v),
            I::Spread(_, ns) => ns.iter().all(|k| self.no_alias(k)),
        }
    }

    // --- InOrder: the translator visits the source left to right --------------------------------
    fn leaf_order(cur: usize, r: &R) -> Option<usize> {
        match r {
            None => Some(cur),
            Some((s, e)) => if cur <= *s { Some(*e) } else { None },
        }
    }
    /// enter a node with range `r`: the bound from which its children are threaded
    fn enter(cur: usize, r: &R) -> Option<usize> {
        match r {
            None => Some(cur),
            Some((s, _)) => if cur <= *s { Some(*s) } else { None },
        }
    }
    fn leave(inner: usize, r: &R) -> usize {
        match r {
            None => inner,
            Some((_, e)) => *e,
        }
    }
    fn seq_order(&self, mut cur: usize, ns: &[N]) -> Option<usize> {
        for n in ns {
            cur = self.in_order(cur, n)?;
        }
        Some(cur)
    }
    fn items_order(&self, mut cur: usize, is: &[&I]) -> Option<usize> {
        for i in is {
            cur = self.item_order(cur, i)?;
        }
        Some(cur)
    }
    fn callee_text(&self, c: &R) -> Option<String> {
        let (s, e) = (*c)?;
        self.text.get(s..e).map(|x| x.to_string())
    }
    pub fn is_dead(spec: (bool, &[&str]), i: &I) -> bool {
        match i {
            I::Pos(_) => spec.0,
            I::Named(_, _, t, _) => spec.1.contains(&t.iter().collect::<String>().as_str()),
            _ => false,
        }
    }
    pub fn in_order(&self, cur: usize, n: &N) -> Option<usize> {
        let r = n_range(n);
        match n {
            N::Text(..) | N::Space(_) | N::Leaf(..) | N::Str(..) | N::PatPlaceholder(_) => Self::leaf_order(cur, &r),
            N::LetClosure(_) => Some(cur),
            _ => {
                let c0 = Self::enter(cur, &r)?;
                let c1 = match n {
                    N::Body(_, _, ns) | N::Rec(_, _, ns) => self.seq_order(c0, ns)?,
                    N::Rec1(_, _, k) => self.in_order(c0, k)?,
                    N::Array(_, is) | N::Dict(_, is) | N::PatDestruct(_, is) => self.items_order(c0, &is.iter().collect::<Vec<_>>())?,
                    N::Field(_, t, f) => Self::leaf_order(self.in_order(c0, t)?, f)?,
                    N::Let(_, k, init) => self.seq_order(self.in_order(c0, k)?, init)?,
                    N::Set(_, t, c, a) => self.items_order(self.seq_order(self.in_order(c0, t)?, c)?, &a.iter().collect::<Vec<_>>())?,
                    N::Closure(_, nm, ps, b) => self.in_order(self.items_order(self.seq_order(c0, nm)?, &ps.iter().collect::<Vec<_>>())?, b)?,
                    N::Call(_, c, a) => {
                        let c1 = Self::leaf_order(c0, c)?;
                        match self.callee_text(c).and_then(|t| ignore_spec(&t)) {
                            Some(spec) => {
                                let mut cur = c1;
                                for i in a.iter().filter(|i| Self::is_dead(spec, i)) {
                                    cur = Self::leaf_order(cur, &i_range(i))?;
                                }
                                self.items_order(cur, &a.iter().filter(|i| !Self::is_dead(spec, i)).collect::<Vec<_>>())?
                            }
                            None => self.items_order(c1, &a.iter().collect::<Vec<_>>())?,
                        }
                    }
                    N::PatParen(_, e, p) => self.in_order(self.in_order(c0, e)?, p)?,
                    _ => c0,
                };
                Some(Self::leave(c1, &r))
            }
        }
    }
    fn item_order(&self, cur: usize, i: &I) -> Option<usize> {
        match i {
            I::Pos(n) => self.in_order(cur, n),
            _ => {
                let r = i_range(i);
                let c0 = Self::enter(cur, &r)?;
                let c1 = match i {
                    I::Pos(_) => c0,
                    I::Named(_, nm, _, v) => self.in_order(self.in_order(c0, nm)?, v)?,
                    I::DNamed(_, nr, p) => self.in_order(Self::leaf_order(c0, nr)?, p)?,
                    I::Keyed(_, k, v) => self.in_order(self.in_order(c0, k)?, v)?,
                    I::Spread(_, ns) => self.seq_order(c0, ns)?,
                };
                Some(Self::leave(c1, &r))
            }
        }
    }
}


/// the shapes of real trees behind the recorded findings, located on the tree (byte ranges)
#[derive(Default)]
pub struct Shapes {
    /// nodes whose children the translator visits against the source order: a `Show` rule with a
    /// selector (transform first), a `Set` rule with a condition and arguments (condition first), a
    /// call of a function with ignored arguments (the ignored ones first)
    pub reorder: Vec<(usize, usize)>,
    /// nodes (or items) two of whose accessor results are the same child
    pub alias: Vec<(usize, usize)>,
    /// `Linebreak` nodes
    pub linebreaks: Vec<(usize, usize)>,
    /// a `FuncCall` whose `callee()` is the detached placeholder (its first child is `_`): counted only
    pub detached_callee: bool,
}

impl<'a> Mon<'a> {
    fn direct_ranges(n: &N) -> Vec<R> {
        match n {
            N::Body(_, _, ns) | N::Rec(_, _, ns) => ns.iter().map(n_range).collect(),
            N::Array(_, is) | N::Dict(_, is) | N::PatDestruct(_, is) => is.iter().map(i_range).collect(),
            N::Field(_, t, f) => vec![n_range(t), *f],
            N::Let(_, k, init) => std::iter::once(n_range(k)).chain(init.iter().map(n_range)).collect(),
            N::Set(_, t, c, a) => std::iter::once(n_range(t)).chain(c.iter().map(n_range)).chain(a.iter().map(i_range)).collect(),
            N::Closure(_, nm, ps, b) => nm.iter().map(n_range).chain(ps.iter().map(i_range)).chain(std::iter::once(n_range(b))).collect(),
            N::Call(_, c, a) => std::iter::once(*c).chain(a.iter().map(i_range)).collect(),
            N::PatParen(_, e, p) => vec![n_range(e), n_range(p)],
            _ => vec![],
        }
    }
    pub fn shapes(&self, n: &N, sh: &mut Shapes) {
        let whole = (0, self.text.len());
        let r = n_range(n).unwrap_or(whole);
        if !Self::nodup(&Self::direct_ranges(n)) {
            sh.alias.push(r);
        }
        let mut items = |is: &Vec<I>, sh: &mut Shapes| {
            for i in is {
                let ir = i_range(i).unwrap_or(r);
                match i {
                    I::Pos(k) => self.shapes(k, sh),
                    I::Named(_, a, _, b) | I::Keyed(_, a, b) => {
                        if !Self::nodup(&[n_range(a), n_range(b)]) {
                            sh.alias.push(ir);
                        }
                        self.shapes(a, sh);
                        self.shapes(b, sh);
                    }
                    I::DNamed(_, nr, p) => {
                        if !Self::nodup(&[*nr, n_range(p)]) {
                            sh.alias.push(ir);
                        }
                        self.shapes(p, sh);
                    }
                    I::Spread(_, ns) => ns.iter().for_each(|k| self.shapes(k, sh)),
                }
            }
        };
        match n {
            N::Leaf("lb", Some(x)) => sh.linebreaks.push(*x),
            N::Body(_, _, ns) => ns.iter().for_each(|k| self.shapes(k, sh)),
            N::Rec(k, _, ns) => {
                if *k == "sh" && ns.len() == 2 {
                    sh.reorder.push(r);
                }
                ns.iter().for_each(|k| self.shapes(k, sh));
            }
            N::Rec1(_, _, k) => self.shapes(k, sh),
            N::Array(_, is) | N::Dict(_, is) | N::PatDestruct(_, is) => items(is, sh),
            N::Field(_, t, _) => self.shapes(t, sh),
            N::Let(_, k, init) => {
                self.shapes(k, sh);
                init.iter().for_each(|k| self.shapes(k, sh));
            }
            N::Set(_, t, c, a) => {
                if !c.is_empty() && !a.is_empty() {
                    sh.reorder.push(r);
                }
                self.shapes(t, sh);
                c.iter().for_each(|k| self.shapes(k, sh));
                items(a, sh);
            }
            N::Closure(_, nm, ps, b) => {
                nm.iter().for_each(|k| self.shapes(k, sh));
                items(ps, sh);
                self.shapes(b, sh);
            }
            N::Call(_, c, a) => {
                if c.is_none() {
                    sh.detached_callee = true;
                }
                if self.callee_text(c).and_then(|t| ignore_spec(&t)).is_some() {
                    sh.reorder.push(r);
                }
                items(a, sh);
            }
            N::PatParen(_, e, p) => {
                self.shapes(e, sh);
                self.shapes(p, sh);
            }
            _ => {}
        }
    }
}

/// index of the first covering token that starts before an earlier covering token ends and is not
/// an exact repetition of the previous covering token (the token `check_tokens` stops at)
fn first_disorder(toks: &[Token]) -> Option<usize> {
    let mut last_end = 0usize;
    let mut last_cov: Option<(usize, usize)> = None;
    for (i, t) in toks.iter().enumerate() {
        if t.span.start == t.span.end {
            continue;
        }
        if t.span.start < last_end && last_cov != Some((t.span.start, t.span.end)) {
            return Some(i);
        }
        last_end = last_end.max(t.span.end);
        last_cov = Some((t.span.start, t.span.end));
    }
    None
}

fn kinds_of(n: &N, out: &mut std::collections::BTreeSet<String>) {
    let tag = match n {
        N::Text(..) => "Text".to_string(),
        N::Space(_) => "Space".into(),
        N::Leaf(k, _) => format!("Leaf.{}", k),
        N::Body(k, _, _) => format!("Body.{}", k),
        N::Str(..) => "Str".into(),
        N::Rec1(k, _, _) => format!("Rec1.{}", k),
        N::Rec(k, _, _) => format!("Rec.{}", k),
        N::Array(..) => "Array".into(),
        N::Dict(..) => "Dict".into(),
        N::Field(..) => "FieldAccess".into(),
        N::Let(..) => "Let".into(),
        N::LetClosure(_) => "LetClosure".into(),
        N::Set(..) => "Set".into(),
        N::Closure(..) => "Closure".into(),
        N::Call(..) => "FuncCall".into(),
        N::PatPlaceholder(_) => "Pat.placeholder".into(),
        N::PatParen(..) => "Pat.paren".into(),
        N::PatDestruct(..) => "Pat.destructuring".into(),
    };
    out.insert(tag);
    if n_range(n).is_none() {
        out.insert("detached-node".into());
    }
    let mut items = |is: &Vec<I>, out: &mut std::collections::BTreeSet<String>| {
        for i in is {
            match i {
                I::Pos(n) => {
                    out.insert("Item.pos".into());
                    kinds_of(n, out);
                }
                I::Named(_, a, _, b) => {
                    out.insert("Item.named".into());
                    kinds_of(a, out);
                    kinds_of(b, out);
                }
                I::DNamed(_, _, p) => {
                    out.insert("Item.dnamed".into());
                    kinds_of(p, out);
                }
                I::Keyed(_, a, b) => {
                    out.insert("Item.keyed".into());
                    kinds_of(a, out);
                    kinds_of(b, out);
                }
                I::Spread(_, ns) => {
                    out.insert("Item.spread".into());
                    for k in ns {
                        kinds_of(k, out);
                    }
                }
            }
        }
    };
    match n {
        N::Body(_, _, ns) | N::Rec(_, _, ns) => ns.iter().for_each(|k| kinds_of(k, out)),
        N::Rec1(_, _, k) => kinds_of(k, out),
        N::Array(_, is) | N::Dict(_, is) | N::PatDestruct(_, is) => items(is, out),
        N::Field(_, t, _) => kinds_of(t, out),
        N::Let(_, k, init) => {
            kinds_of(k, out);
            init.iter().for_each(|k| kinds_of(k, out));
        }
        N::Set(_, t, c, a) => {
            kinds_of(t, out);
            c.iter().for_each(|k| kinds_of(k, out));
            items(a, out);
        }
        N::Closure(_, nm, ps, b) => {
            nm.iter().for_each(|k| kinds_of(k, out));
            items(ps, out);
            kinds_of(b, out);
        }
        N::Call(_, _, a) => items(a, out),
        N::PatParen(_, e, p) => {
            kinds_of(e, out);
            kinds_of(p, out);
        }
        _ => {}
    }
}

// ---------------------------------------------------------------------------------------------
// synthetic trees for `typok` (w24): every real tree satisfies `TreeOK` and `RangesSolid`, so on real
// trees the mirror is only ever compared with the model on the TRUE side. One range of a real tree
// is emptied (`s:e` → `s:s`) and the four predicates are compared again on the result (mirror vs
// model only: no parser is involved, nothing is claimed about real code).
// ---------------------------------------------------------------------------------------------

fn ranges_mut<'a>(n: &'a mut N, out: &mut Vec<&'a mut R>) {
    fn items<'a>(is: &'a mut Vec<I>, out: &mut Vec<&'a mut R>) {
        for i in is.iter_mut() {
            match i {
                I::Pos(n) => ranges_mut(n, out),
                I::Named(r, a, _, b) | I::Keyed(r, a, b) => {
                    out.push(r);
                    ranges_mut(a, out);
                    ranges_mut(b, out);
                }
                I::DNamed(r, nr, p) => {
                    out.push(r);
                    out.push(nr);
                    ranges_mut(p, out);
                }
                I::Spread(r, ns) => {
                    out.push(r);
                    ns.iter_mut().for_each(|k| ranges_mut(k, out));
                }
            }
        }
    }
    match n {
        N::Text(r, _) | N::Space(r) | N::Leaf(_, r) | N::Str(r, _) | N::LetClosure(r) | N::PatPlaceholder(r) => out.push(r),
        N::Body(_, r, ns) | N::Rec(_, r, ns) => {
            out.push(r);
            ns.iter_mut().for_each(|k| ranges_mut(k, out));
        }
        N::Rec1(_, r, k) => {
            out.push(r);
            ranges_mut(k, out);
        }
        N::Array(r, is) | N::Dict(r, is) | N::PatDestruct(r, is) => {
            out.push(r);
            items(is, out);
        }
        N::Field(r, t, f) => {
            out.push(r);
            ranges_mut(t, out);
            out.push(f);
        }
        N::Let(r, k, init) => {
            out.push(r);
            ranges_mut(k, out);
            init.iter_mut().for_each(|k| ranges_mut(k, out));
        }
        N::Set(r, t, c, a) => {
            out.push(r);
            ranges_mut(t, out);
            c.iter_mut().for_each(|k| ranges_mut(k, out));
            items(a, out);
        }
        N::Closure(r, nm, ps, b) => {
            out.push(r);
            nm.iter_mut().for_each(|k| ranges_mut(k, out));
            items(ps, out);
            ranges_mut(b, out);
        }
        N::Call(r, c, a) => {
            out.push(r);
            out.push(c);
            items(a, out);
        }
        N::PatParen(r, e, p) => {
            out.push(r);
            ranges_mut(e, out);
            ranges_mut(p, out);
        }
    }
}

/// `typok` on the tree of `text` with its `pick`-th range (serialisation order, attached ranges only)
/// emptied; `None` when the tree has no attached range
pub fn eval_typok_synthetic(text: &str, pick: u64) -> Option<Out> {
    let mut out = new_out();
    let src: Vec<char> = text.chars().collect();
    let doc = Source::detached(text.to_string());
    let mut top = match guarded(|| tree_of(&doc)) {
        Ok(Some(t)) => t,
        _ => return None,
    };
    {
        let mut rs: Vec<&mut R> = vec![];
        for n in top.iter_mut() {
            ranges_mut(n, &mut rs);
        }
        let mut att: Vec<&mut R> = rs.into_iter().filter(|r| r.is_some()).collect();
        if att.is_empty() {
            return None;
        }
        let k = (pick % att.len() as u64) as usize;
        if let Some((s, _)) = *att[k] {
            *att[k] = Some((s, s));
        }
    }
    let mon = Mon { text, src: &src };
    let tok = top.iter().all(|n| mon.tree_ok(0, text.len(), n));
    let nal = top.iter().all(|n| mon.no_alias(n)) && Mon::nodup(&top.iter().map(n_range).collect::<Vec<_>>());
    let ord = mon.seq_order(0, &top).is_some();
    let sol = top.iter().all(|n| mon.ranges_solid(n));
    out.counts.push("typok-synthetic".into());
    out.counts.push(format!("typok-synthetic:TreeOK={}", tok));
    out.counts.push(format!("typok-synthetic:RangesSolid={}", sol));
    out.k.push((format!("typok | {} | {}", tree_words(&top), chars_field(&src)), format!("ok {} {} {} {}", tok as u8, nal as u8, ord as u8, sol as u8)));
    Some(out)
}

// ---------------------------------------------------------------------------------------------
// one text
// ---------------------------------------------------------------------------------------------

/// K (+ the property's clauses on the parser's own tokens) for one Typst text
pub fn eval_typst(text: &str) -> Out {
    let mut out = new_out();
    let src: Vec<char> = text.chars().collect();
    let front = "typst(parser)";
    let inp = || json!({"frontend": front, "text": text});
    // the tree, through the accessors the translator calls
    let doc = Source::detached(text.to_string());
    let top = match guarded(|| tree_of(&doc)) {
        Ok(Some(t)) => t,
        Ok(None) => {
            // `Markup::from_untyped(root).expect(…)` would panic in `Typst::parse`
            out.counts.push("typst:root-not-markup".into());
            out.fails.push(("typst-parser-panic".into(), "the root of the parsed tree is not Markup".into(), inp()));
            return out;
        }
        Err(e) => {
            out.counts.push("typst:accessor-panicked".into());
            out.fails.push(("typst-parser-panic".into(), format!("a typst-syntax accessor panicked: {}", e), inp()));
            return out;
        }
    };
    let words = tree_words(&top);
    let mon = Mon { text, src: &src };
    let tok = top.iter().all(|n| mon.tree_ok(0, text.len(), n));
    let nal = top.iter().all(|n| mon.no_alias(n)) && Mon::nodup(&top.iter().map(n_range).collect::<Vec<_>>());
    let ord = mon.seq_order(0, &top).is_some();
    let sol = top.iter().all(|n| mon.ranges_solid(n));
    let mut sh = Shapes::default();
    for n in &top {
        mon.shapes(n, &mut sh);
    }
    // `TreeOK` is the assumption of `typstParse_total` / `_inbounds`: monitored on EVERY real tree.
    // (A FuncCall whose callee() is the detached placeholder — `_(…)` in code — satisfies it since
    // the repair 0f1b3ac: `get_text!` gives the empty text, `token!`'s `?` leaves parse_func_call
    // with None; counted.)
    out.monitors.push(("typst:TreeOK".into(), tok));
    // `RangesSolid` is the extra assumption of `typstParse_zero_width_structural`: monitored on EVERY real tree
    out.monitors.push(("typst:RangesSolid".into(), sol));
    if sh.detached_callee {
        out.counts.push("typst:tree-with-detached-callee".into());
    }
    // aliasing accessors and out-of-order visits are known shapes of real trees: counted
    out.counts.push(format!("typst:NoAlias={}", nal));
    out.counts.push(format!("typst:InOrder={}", ord));
    // the two are independent: NoAlias without InOrder is the visiting-order finding; InOrder without
    // NoAlias happens when the aliasing sits inside an IGNORED argument, which the translator never
    // descends into (`#bibliography((..), style:` — one Unlintable over the whole argument): counted
    if ord && !nal {
        out.counts.push("typst:InOrder-with-alias-in-unvisited-argument".into());
    }
    out.k.push((format!("typok | {} | {}", words, chars_field(&src)), format!("ok {} {} {} {}", tok as u8, nal as u8, ord as u8, sol as u8)));
    let op = format!("typst | {} | {}", words, text_field(&src));
    // byte offset → char index
    let mut b2c = vec![0usize; text.len() + 1];
    {
        let mut ci = 0;
        for (bi, ch) in text.char_indices() {
            for k in 0..ch.len_utf8() {
                b2c[bi + k] = ci;
            }
            ci += 1;
        }
        b2c[text.len()] = ci;
    }
    let inside = |rs: &[(usize, usize)], t: &Token| rs.iter().any(|(s, e)| *e <= text.len() && b2c[*s] <= t.span.start && t.span.end <= b2c[*e]);
    match guarded(|| harper_typst::Typst.parse(&src)) {
        Ok(toks) => {
            let imp = format!("ok {}", toks_show(&toks)).trim_end().to_string();
            let mut kinds = std::collections::BTreeSet::new();
            for n in &top {
                kinds_of(n, &mut kinds);
            }
            for k in &kinds {
                out.counts.push(format!("typst:node:{}", k));
            }
            if kinds.len() >= 4 {
                out.nontrivial = Some(op.clone());
            }
            out.k.push((op, imp));
            // O: the property's clauses on the parser's own tokens
            let nf = out.fails.len();
            check_tokens(front, text, &src, &toks, false, &mut out);
            let dis = first_disorder(&toks);
            for f in out.fails[nf..].iter_mut() {
                if f.0 == "unordered-or-overlapping" {
                    if let Some(i) = dis {
                        let t = &toks[i];
                        let seen_before = toks[..i].iter().any(|u| u.span == t.span && kind_tag(&u.kind) == kind_tag(&t.kind));
                        if seen_before && inside(&sh.alias, t) {
                            // the same child reached through two accessors, other tokens in between
                            f.0 = "c02-typst-alias-revisit".into();
                        } else if inside(&sh.reorder, t) {
                            // Show: transform before selector; Set: condition before arguments;
                            // ignored arguments first
                            f.0 = "c02-typst-visit-order".into();
                        }
                    }
                } else if f.0 == "newline-shape" {
                    // `\` (Expr::Linebreak) is translated to Newline(1) over the backslash
                    let lb = toks.iter().any(|t| matches!(t.kind, TokenKind::Newline(1)) && t.span.end == t.span.start + 1 && src.get(t.span.start) == Some(&'\\') && sh.linebreaks.iter().any(|(s, e)| b2c[*s] == t.span.start && b2c[*e] == t.span.end));
                    if lb && f.1.contains("over \"\\\\\"") {
                        f.0 = "c02-typst-backslash-linebreak".into();
                    }
                }
            }
            // `typstParse_sorted_partial` on the real tokens: a tree that is TreeOK and InOrder must
            // give ordered, disjoint covering tokens
            if tok && ord {
                out.monitors.push(("typst:sorted-when-InOrder".into(), dis.is_none() && !out.fails[nf..].iter().any(|f| f.0 == "c02-typst-duplicate-node")));
            }
            // `typstParse_zero_width_structural` on the real tokens: TreeOK ∧ RangesSolid ⇒ a zero-width
            // token is a ParagraphBreak or a Newline
            if tok && sol {
                out.monitors.push(("typst:zero-width-structural-when-RangesSolid".into(), toks.iter().all(|t| t.span.start != t.span.end || matches!(t.kind, TokenKind::ParagraphBreak | TokenKind::Newline(_)))));
            }
            // … and `typstParse_inbounds`: TreeOK ⇒ in bounds
            if tok {
                out.monitors.push(("typst:inbounds-when-TreeOK".into(), toks.iter().all(|t| t.span.start <= t.span.end && t.span.end <= src.len())));
            }
        }
        Err(e) => {
            out.k.push((op, "panic".into()));
            // `typstParse_total`: with TreeOK the translator's own code cannot panic
            out.fails.push(("typst-parser-panic".into(), format!("Typst::parse panicked (TreeOK = {}): {}", tok, e), inp()));
            if tok {
                out.monitors.push(("typst:total-when-TreeOK".into(), false));
            }
        }
    }
    if tok {
        out.counts.push("typst:TreeOK-and-evaluated".into());
    }
    out
}

/// `htmlclamp | n` → `(*v).clamp(0, 1)` of `HtmlParser::parse`, observed through the real parser on
/// a text node of `n` blanks between two words
pub fn eval_htmlclamp(n: usize) -> Out {
    let mut out = new_out();
    let text = format!("<p>a{}b</p>", " ".repeat(n));
    let src: Vec<char> = text.chars().collect();
    let toks = match guarded(|| harper_html::HtmlParser::default().parse(&src)) {
        Ok(t) => t,
        Err(e) => {
            out.fails.push(("html-parser-panic".into(), e, json!({"frontend": "html(parser)", "text": text})));
            return out;
        }
    };
    let inner = PlainEnglish.parse(&format!("a{}b", " ".repeat(n)).chars().collect::<Vec<_>>());
    let before: Vec<usize> = inner.iter().filter_map(|t| if let TokenKind::Space(v) = t.kind { Some(v) } else { None }).collect();
    let after: Vec<usize> = toks.iter().filter_map(|t| if let TokenKind::Space(v) = t.kind { Some(v) } else { None }).collect();
    out.k.push((format!("htmlclamp | {}", before.iter().map(|v| v.to_string()).collect::<Vec<_>>().join(" ")), format!("ok {}", after.iter().map(|v| v.to_string()).collect::<Vec<_>>().join(" ")).trim_end().to_string()));
    out.counts.push("htmlclamp".into());
    check_tokens("html(parser)", &text, &src, &toks, false, &mut out);
    out
}

/// HTML: the whole parser against `maskParse` + clamp is C04's K (`tsmask` / `maskparse`); here
/// the clamp on real token lists: every `Space(v)` of the inner `Mask` parse becomes `Space(min v 1)`
/// and nothing else changes
pub fn eval_html(text: &str) -> Out {
    let mut out = new_out();
    let src: Vec<char> = text.chars().collect();
    let inner = harper_core::parsers::Mask::new(harper_tree_sitter::TreeSitterMasker::new(tree_sitter_html::language(), |n| n.kind() == "text"), PlainEnglish);
    let (a, b) = match (guarded(|| inner.parse(&src)), guarded(|| harper_html::HtmlParser::default().parse(&src))) {
        (Ok(a), Ok(b)) => (a, b),
        _ => {
            out.fails.push(("html-parser-panic".into(), "HtmlParser::parse panicked".into(), json!({"frontend": "html(parser)", "text": text})));
            return out;
        }
    };
    out.k.push((format!("htmlclampt | {}", toks_show(&a)).trim_end().to_string(), format!("ok {}", toks_show(&b)).trim_end().to_string()));
    out.counts.push("htmlclampt".into());
    check_tokens("html(parser)", text, &src, &b, false, &mut out);
    out
}

/// `htmlparse | text (cp:flags) | mask (s:e …)` → the tokens of `HtmlParser::parse`: the model's
/// `htmlParse src mask (plainInner cls)` — `parsers::Mask::parse` over the mask the REAL
/// `TreeSitterMasker` (tree-sitter-html, `text` nodes) computes for the text, the model's own
/// `PlainEnglish` as the inner parser, the `Space` clamp — against the real parser. The hypothesis
/// `MaskOK` of `htmlParse_inbounds_sorted` is a monitor on every real mask.
pub fn eval_htmlparse(text: &str) -> Out {
    let mut out = new_out();
    let src: Vec<char> = text.chars().collect();
    let inp = || json!({"frontend": "html(parser)", "text": text});
    let masker = harper_tree_sitter::TreeSitterMasker::new(tree_sitter_html::language(), |n| n.kind() == "text");
    let mask: Vec<(usize, usize)> = match guarded(|| {
        use harper_core::Masker;
        masker.create_mask(&src).iter_allowed(&src).map(|(s, _)| (s.start, s.end)).collect::<Vec<_>>()
    }) {
        Ok(m) => m,
        Err(e) => {
            out.counts.push("htmlparse:masker-panicked".into());
            out.fails.push(("html-parser-panic".into(), format!("TreeSitterMasker::create_mask panicked: {}", e), inp()));
            return out;
        }
    };
    let mask_ok = mask.iter().all(|(s, e)| s <= e && *e <= src.len()) && mask.windows(2).all(|w| w[0].1 <= w[1].0);
    out.monitors.push(("html:MaskOK".into(), mask_ok));
    let op = format!("htmlparse | {} | {}", text_field(&src), mask.iter().map(|(a, b)| format!("{}:{}", a, b)).collect::<Vec<_>>().join(" ")).trim_end().to_string();
    out.counts.push(format!("htmlparse:spans={}", mask.len().min(3)));
    match guarded(|| harper_html::HtmlParser::default().parse(&src)) {
        Ok(toks) => {
            if toks.iter().any(|t| matches!(t.kind, TokenKind::ParagraphBreak)) {
                out.counts.push("htmlparse:paragraph-break".into());
            }
            if toks.iter().any(|t| matches!(t.kind, TokenKind::Space(1)) && t.span.end > t.span.start + 1) {
                out.counts.push("htmlparse:clamped-space".into());
            }
            if !text.is_ascii() && mask.len() >= 2 {
                out.nontrivial = Some(op.clone());
            }
            out.k.push((op, format!("ok {}", toks_show(&toks)).trim_end().to_string()));
            check_tokens("html(parser)", text, &src, &toks, false, &mut out);
            if mask_ok {
                // `htmlParse_inbounds_sorted` on the real tokens
                out.monitors.push(("html:inbounds-sorted-when-MaskOK".into(), toks.iter().all(|t| t.span.start <= t.span.end && t.span.end <= src.len()) && toks.windows(2).all(|w| w[0].span.end <= w[1].span.start)));
            }
        }
        Err(e) => {
            out.k.push((op, "panic".into()));
            out.fails.push(("html-parser-panic".into(), format!("HtmlParser::parse panicked: {}", e), inp()));
        }
    }
    out
}

/// the pieces of the exhaustive small scope of `htmlparse`
pub const HTML_PIECES: [&str; 11] = ["<p>", "</p>", "a", " ", "  ", "\n", "<script>", "</script>", "&amp;", "é", "'"];

fn html_random(rng: &mut Rng) -> String {
    let atoms: &[&str] = &[
        "<p>", "</p>", "<b>", "</b>", "<i title=\"x y\">", "</i>", "<br>", "<br/>", "<div class=\"é\">", "</div>", "<script>", "</script>", "<style>", "</style>", "<!-- c -->", "<!--", "-->", "<!DOCTYPE html>", "<", ">", "</", "/>", "&amp;", "&#233;", "&", ";",
        "a", "Scott", "There", "word ", "it's", "'", "\"", " ", "  ", "   ", "\t", "\n", "\n\n", "\r\n", "é", "😀", "1st", "2.5", "x@y.z", "https://a.b", ".", ", ", "-", "=", "et al.",
    ];
    let mut s = String::new();
    match rng.below(3) {
        0 => {
            for _ in 0..rng.range(1, 12) {
                s.push_str(*rng.pick(atoms));
            }
        }
        1 => s = crate::c04::cgen::gen_html(rng).text,
        _ => {
            for _ in 0..rng.range(1, 4) {
                s.push_str(*rng.pick::<&str>(&["<p>", "<div>\n  ", "<b title=\"x\">", "", "</p>"]));
                s.push_str(&textgen::sentence(rng));
                s.push_str(*rng.pick::<&str>(&["</p>", "</div>", "</b>", "\n", "  ", "<br>", "</p>\n\n<p>"]));
            }
        }
    }
    if rng.chance(1, 6) { textgen::mutate(rng, &s) } else { s }
}

// ---------------------------------------------------------------------------------------------
// streams
// ---------------------------------------------------------------------------------------------

pub const TYPST_PIECES: [&str; 21] = ["#let ", "x", " = ", "(", ")", "[", "]", "*a*", "_b_", "= H", "\n", "- i", "$x$", "\"s\"", "#f", ": ", ", ", "..", " ", "é", "\"a\\nb c\""];

const DOCS: &[&str] = &[
    "= Introduction\nThis is *strong* and _emph_ text with a #link(\"https://x.y\")[link].\n\n- first item\n- second item\n+ numbered\n/ Term: description é\n\n#let f(x, y: 2, ..rest) = x + y\n#let (a, b) = (1, 2)\n#let s = \"teh wörd\"\n#set text(lang: \"en\", size: 11pt)\n#show heading: it => [#it.body]\n$ x^2 + y $\n",
    "#import \"a.typ\": b\n#let d = (key: \"value\", \"k2\": [content], ..other)\n#let arr = (1, \"two\", [three], ..more)\n#f(a, b: c, ..d)[trailing *content*]\n#if x > 1 [yes] else [no]\n#for i in range(3) [item #i]\n#while false { break }\n#context text.lang\n",
    "#set page(margin: 1cm) if true\n#show \"foo\": [bar]\n#show: rest => rest\n#rgb(\"#fff\", a: 1)\n#image(\"x.png\", alt: \"An image\")\n#raw(\"code\", syntaxes: \"x\", theme: \"y\", lang: \"rust\")\n#cite(<key>, style: \"apa\")\n#a.b.c(d)\n#let _ = 1\n#let ((a), b: c, ..) = d\n#(x, y) = (y, x)\n#(x) => x\n#{ let z = 1; z }\n",
    "\"Quoted\" text -- and 'single' quotes, a line \\\nbreak, https://example.com a link, <label> @ref `raw` \\# escape ~ shorthand.\n\n= Heading é\n\ntext after heading\n- list\ntext after list\n",
];

fn typst_random(rng: &mut Rng) -> String {
    let atoms: &[&str] = &[
        "#let ", "#set ", "#show ", "#if ", "#for ", "#while ", "#context ", "#import ", "#f", "#rgb", "#image", "#raw", "#cite", "#a.b", "x", "y", "foo", " = ", "(", ")", "[", "]", "{", "}", "*a*", "_b_", "= H", "\n", "\n\n", "- i", "+ n", "/ T: d", "$x$",
        "\"s\"", "\"teh wörd\"", ": ", ", ", "..", " ", "é", "😀", "=>", " in ", " else ", "_", "1", "true", "it", ".", "\\", "'", "\"", "<l>", "@r", "`r`", "https://x.y", "//c\n", "/*c*/", ";", "text", "word ", "a: 1", "..r", "(a, b)", "(a: 1)", " if ", "--", "~",
    ];
    let mut s = String::new();
    match rng.below(4) {
        0 => {
            for _ in 0..rng.range(1, 14) {
                s.push_str(*rng.pick(atoms));
            }
        }
        1 => {
            // prose with markup
            for _ in 0..rng.range(1, 5) {
                s.push_str(&textgen::sentence(rng));
                s.push_str(*rng.pick::<&str>(&[" ", "\n", "\n\n", " *", "* ", " _", "_ ", "\n= ", "\n- ", "\n+ ", "\n/ ", ": ", " #f[", "] ", " \"", "\" ", " $", "$ "]));
            }
        }
        2 => {
            // a realistic document cut and spliced
            let d: Vec<char> = (*rng.pick(DOCS)).chars().collect();
            let a = rng.below(d.len());
            let b = rng.range(a, d.len());
            s = d[a..b].iter().collect();
            if rng.chance(1, 2) {
                let p = rng.below(s.chars().count() + 1);
                let mut cs: Vec<char> = s.chars().collect();
                for (i, c) in (*rng.pick(atoms)).chars().enumerate() {
                    cs.insert(p + i, c);
                }
                s = cs.into_iter().collect();
            }
        }
        _ => {
            // code-heavy
            s.push('#');
            for _ in 0..rng.range(1, 10) {
                s.push_str(*rng.pick::<&str>(&["let ", "x", "f", "(", ")", "[", "]", "{", "}", " = ", ", ", ": ", "..", "=> ", "a", "\"s\"", "1", "_", " ", "\n", "it.body", "if ", "else ", "for ", "in ", "set ", "show ", "é", "rgb", "raw", ".display"]));
            }
        }
    }
    if rng.chance(1, 6) { textgen::mutate(rng, &s) } else { s }
}

enum Job {
    Typst(String),
    HtmlClamp(usize),
    Html(String),
    HtmlParse(String),
    TypOkSyn(String, u64),
}

fn run_job(j: &Job) -> Out {
    match j {
        Job::Typst(t) => eval_typst(t),
        Job::HtmlClamp(n) => eval_htmlclamp(*n),
        Job::Html(t) => eval_html(t),
        Job::HtmlParse(t) => eval_htmlparse(t),
        Job::TypOkSyn(t, k) => eval_typok_synthetic(t, *k).unwrap_or_else(new_out),
    }
}

/// re-evaluate one recorded input of this module
pub fn replay(front: &str, text: &str) -> Option<Out> {
    if front == "typst(parser)" {
        Some(eval_typst(text))
    } else if front == "html(parser)" {
        Some(eval_html(text))
    } else {
        None
    }
}

pub fn corpus_texts() -> Vec<String> {
    let mut v: Vec<String> = [
        "#set text(lang:", "#let f(x) = x", "#let (..n) = 1", "#let s = \"teh wörd\"", "#f(a\nb $x$ c", "#let", "#let ", "#let x", "#let (x) = 1", "#show \"foo\": [bar]", "#set text(size: 1pt) if true", "#rgb(a: 1, \"x\")",
        "#raw(\"c\", theme: \"t\", lang: \"r\")", "#x.display(\"a\", b: \"c\")", "/ Term: desc", "/ Term", "#(a: 1, \"b\": 2, ..c)", "#(1, ..a, [b])", "#let (a, b: c, .., _) = d", "#a.b", "#a.", "#while x", "#for x in y", "#if a [b] else [c]", "#context x",
        "#(x) => x", "#let f(x, y: 1, ..z) = [a]", "= H\n\ntext", "= H\ntext", "- i\ntext\n- j", "text\n= H", "*a _b_ c*", "\"q\" 'q'", "a \\\nb", "https://a.b", "#\"s\"", "#\"\"", "#\"é\"", "#[é *b*]", "é = é", "#f[a][b]", "#f(..a)", "#f(a: )", "#f(a:)", "#(a:)",
        // string literals with ESCAPES in code mode: the text between the quotes is longer than the value it denotes
        "#let title = \"first line\\nsecond line of text\"", "#\"a \\\"quoted\\\" wrod here\"", "#let s = \"dash \\u{2014} and teh rest\"", "#text(\"tab\\there and \\\\ back\")", "#let s = \"\\n\\n\\n teh end\"", "#f(\"a\\tb\", \"c \\u{1F600} d wrod\")", "#let s = \"ends in escape\\n\"",
        "#let x = (a:", "#show: x", "#show x:", "#set x", "#{_()}", "#let x = _(1)", "#(_[a])", "#f(_())", "#let x(x", "#(_.a)", "a \\\nb \\ c", "", " ", "\n", "\n\n", "a", "é", "#", "#{", "#(", "#[", "$", "$x", "\"", "#\"",
    ]
    .iter()
    .map(|s| s.to_string())
    .collect();
    for (ext, content) in crate::corpus::fixtures() {
        if ext == "typ" {
            v.push(content.clone());
        }
    }
    v
}

/// corpus of `htmlparse`: the repo's HTML fixtures and every prefix of the shortest, adjacent tokens
/// separated by masked markup (`Scott</p><b …>'There`), blanks runs, raw-text elements, entities,
/// multi-byte text, unclosed markup
pub fn html_corpus() -> Vec<String> {
    let mut v: Vec<String> = [
        "", " ", "\n", "a", "é", "<p>", "</p>", "<p>a</p>", "Scott</p><b title=\"x\">'There", "<p>a   é</p>\n<script>x</script> b", "Scott</p><b title=\"x\">'There is", "Scott</p><b title=\"é😀\">'There", "<p>a   b</p>", "<p>a \t b</p>", "<p>a</p>\n\n<p>b</p>", "<p>a</p>\n<p>b</p>", "<p>a</p>   <p>b</p>", "<p>a</p><p>b</p>",
        "<script>let x = 'teh';</script>", "<style>p { color: red }</style>teh", "<p>a &amp; b</p>", "&amp;", "a &#233; b", "<p>é 😀 ü</p>", "<p>é</p>\n<p>ü</p>", "<!-- a comment -->text", "<!DOCTYPE html><html><body>x  y</body></html>", "<p", "<p>a", "a</p>", "<", ">", "a < b > c",
        "<b>1st</b> 2nd", "<a href=\"https://x.y\">https://x.y</a> x@y.z", "<p>it's</p><p>'s</p>", "<p>et al.</p>", "<p>a.\n\n\nb.</p>", "  <p>  a  </p>  ", "\t<p>\ta\t</p>\t", "<p>a<br>b</p>", "<p>a<br>\nb</p>", "<ul>\n  <li>one</li>\n  <li>two</li>\n</ul>",
    ]
    .iter()
    .map(|s| s.to_string())
    .collect();
    for (ext, content) in crate::corpus::fixtures() {
        if ext == "html" {
            v.push(content.clone());
            let cs: Vec<char> = content.chars().collect();
            if cs.len() <= 600 {
                for i in 0..cs.len() {
                    v.push(cs[..i].iter().collect());
                }
            }
        }
    }
    for s in textgen::SPICE {
        v.push(format!("<p>{}</p> {} <b>{}</b>", s, s, s));
    }
    v
}

pub fn run_into(sess: &mut Session, ctx: &Ctx, rng: &mut Rng) {
    let thorough = ctx.tier == Tier::Thorough;
    let mut jobs: Vec<Job> = vec![];
    // 1. corpus: the findings' witnesses, the repo's Typst fixtures
    for t in corpus_texts() {
        jobs.push(Job::Typst(t));
    }
    for s in textgen::SPICE {
        jobs.push(Job::Typst(s.to_string()));
        jobs.push(Job::Typst(format!("= a {} b\n#let x = \"{}\"", s, s)));
    }
    // 2. exhaustive small scope: all concatenations of ≤ 4 (quick) / ≤ 5 (thorough) of the 20 pieces
    for t in crate::c02md::all_piece_strings(&TYPST_PIECES, if thorough { 5 } else { 4 }) {
        jobs.push(Job::Typst(t));
    }
    for n in 0..=6 {
        jobs.push(Job::HtmlClamp(n));
    }
    let n_exh = jobs.len();
    // 3. random Typst markup; every prefix of a few realistic documents
    for d in DOCS {
        let cs: Vec<char> = d.chars().collect();
        for i in 0..=cs.len() {
            jobs.push(Job::Typst(cs[..i].iter().collect()));
        }
    }
    for (ext, content) in crate::corpus::fixtures() {
        if ext == "typ" {
            let cs: Vec<char> = content.chars().collect();
            let step = if thorough { 1 } else { 7 };
            let mut i = 0;
            while i <= cs.len() && i <= 6000 {
                jobs.push(Job::Typst(cs[..i].iter().collect()));
                i += step;
            }
        }
    }
    let n_rand = if thorough { 120000 } else { 12000 };
    for _ in 0..n_rand {
        jobs.push(Job::Typst(typst_random(rng)));
    }
    let n_html = if thorough { 20000 } else { 2000 };
    for i in 0..n_html {
        let prose = textgen::prose(rng);
        let t = match i % 4 {
            0 => format!("<p>{}</p>", prose.replace(' ', "  ")),
            1 => format!("<div>\n\t{}  <b> x </b>\t\t{}</div>", prose, textgen::sentence(rng)),
            2 => crate::frontends::embed("html", &prose, i),
            _ => textgen::mutate(rng, &format!("<p>{}   </p>  <i>a \t b</i>", prose)),
        };
        jobs.push(Job::Html(t));
    }
    // `typok` on synthetic trees (one range of a real tree emptied): the texts of the corpus and of the
    // exhaustive small scope of at most 24 bytes, every fourth other job (≤ 400 bytes) — the FALSE side
    // of TreeOK / RangesSolid, which no real tree shows
    {
        let mut syn: Vec<Job> = vec![];
        for (i, j) in jobs.iter().enumerate() {
            if let Job::Typst(t) = j {
                if t.len() <= 400 && (i < n_exh && t.len() <= 24 || i % 4 == 0) {
                    syn.push(Job::TypOkSyn(t.clone(), rng.below(1 << 20) as u64));
                }
            }
        }
        jobs.extend(syn);
    }
    // `htmlparse`: the whole HtmlParser::parse. corpus (the repo's HTML fixtures, masked-markup corner
    // cases) → ALL concatenations of ≤ 4 (quick) / ≤ 5 (thorough) of the 11 HTML pieces → random HTML
    for t in html_corpus() {
        jobs.push(Job::HtmlParse(t));
    }
    for t in crate::c02md::all_piece_strings(&HTML_PIECES, if thorough { 5 } else { 4 }) {
        jobs.push(Job::HtmlParse(t));
    }
    let n_hp = if thorough { 40000 } else { 4000 };
    for _ in 0..n_hp {
        jobs.push(Job::HtmlParse(html_random(rng)));
    }
    sess.add("c02typst:jobs", jobs.len() as u64);
    sess.add("c02typst:exhaustive+corpus jobs", n_exh as u64);
    let outs = par_map(jobs.len(), 16, |i| run_job(&jobs[i]));
    for (i, o) in outs.into_iter().enumerate() {
        if i % 40009 == 11 {
            if let Job::Typst(t) = &jobs[i] {
                sess.sample(json!({"kop": "typst", "text": trunc(t, 120)}));
            }
        }
        merge(sess, o);
    }
}

/// `hv typprobe <file>`: serialised tree, monitors and tokens of one Typst text
pub fn probe(args: &[String]) {
    let text = std::fs::read_to_string(&args[0]).unwrap();
    let o = eval_typst(&text);
    for (m, h) in &o.monitors {
        println!("monitor {} = {}", m, h);
    }
    for c in &o.counts {
        println!("count {}", c);
    }
    for (op, imp) in &o.k {
        println!("OP   {}", op);
        println!("IMPL {}", imp);
    }
    for f in &o.fails {
        println!("FAIL {} {}", f.0, f.1);
    }
}
