//! In-process language-server driver (shared by the C07/C08/C09/C10 slices).
//!
//! The REAL `harper-ls` `Backend` (compiled into the harness with `#[path]`, see `main.rs`) is
//! served by the REAL `tower_lsp::Server` over a `tokio::io::duplex` pipe. The other end of the
//! pipe is a scripted LSP client with hand-rolled `Content-Length:` framing. The test script is
//! ordinary synchronous code on the caller's thread:
//!
//! ```ignore
//! let mut ls = LsSession::start()?;                 // server + client tasks on their own runtime
//! ls.initialize(&cfg)?;                             // initialize / initialized (+ its config pull)
//! ls.notify("textDocument/didOpen", json!({..}))?;  // returns when the server is idle again
//! let reqs = ls.pending_config();                   // workspace/configuration requests, oldest first
//! ls.answer_config(reqs[0], &cfg)?;                 // answer any of them, in any order
//! let id = ls.request("workspace/executeCommand", json!({..}))?;
//! ls.response(id);                                  // Some(..) once the server has answered
//! ls.publications("file:///..");                    // publishDiagnostics of that URI, arrival order
//! ls.quiesce(&cfg)?;                                // answer everything outstanding, wait for idle
//! ls.shutdown(&cfg)?;
//! ```
//!
//! **Schedules.** Every `harper-ls` handler that touches a document first awaits a
//! `workspace/configuration` request to the client (`pull_config`). The script owns the schedule
//! by withholding and reordering its replies; `tower-lsp` polls ≤ 4 handler futures on ONE task, so
//! the code between two client-controlled awaits is atomic.
//!
//! **Idleness is observed, not guessed.** The server future and the two client I/O tasks are
//! wrapped in `Tracked`, which records "being polled" and "woken, not yet polled" (through a
//! wrapped `Waker`). The runtime is single-threaded with ONE blocking thread, so a no-op
//! `spawn_blocking` probe completing means every `tokio::fs` operation queued before it has
//! completed (and issued its wake). `settle()` = read the poll counter, no task polling or woken,
//! probe done, still no task polling or woken, and the poll counter unchanged — twice in a row. After `settle()` the server can make no
//! further step until the client acts, so each client action has a deterministic effect.
//!
//! Every wait has a deadline; a wait that times out returns `LsError::Timeout` and marks the
//! session broken — the harness reports it, it never hangs.
use serde_json::{Value, json};
use std::collections::{BTreeMap, HashMap, VecDeque};
use std::future::Future;
use std::pin::Pin;
use std::sync::atomic::{AtomicBool, AtomicU64, Ordering::SeqCst};
use std::sync::{Arc, Mutex};
use std::task::{Context, Poll, Wake, Waker};
use std::time::{Duration, Instant};
use tokio::io::{AsyncReadExt, AsyncWriteExt};

use crate::backend::Backend;
use crate::config::Config;

#[derive(Debug, Clone)]
pub enum LsError {
    /// a wait exceeded its deadline (what was being waited for)
    Timeout(String),
    /// the server future ended with a panic (message)
    ServerPanicked(String),
    /// the server future returned (pipe closed / `exit`)
    ServerGone,
    /// malformed frame or JSON from the server
    Protocol(String),
}

impl std::fmt::Display for LsError {
    fn fmt(&self, f: &mut std::fmt::Formatter<'_>) -> std::fmt::Result {
        match self {
            LsError::Timeout(w) => write!(f, "timeout waiting for {}", w),
            LsError::ServerPanicked(m) => write!(f, "server panicked: {}", m),
            LsError::ServerGone => write!(f, "server future ended"),
            LsError::Protocol(m) => write!(f, "protocol error: {}", m),
        }
    }
}

// ------------------------------------------------------------------------------------------
// activity tracking
// ------------------------------------------------------------------------------------------

#[derive(Default)]
struct TaskState {
    polling: AtomicBool,
    woken: AtomicBool,
    done: AtomicBool,
}

struct Shared {
    tasks: [TaskState; 3], // 0 = server, 1 = client reader, 2 = client writer
    epoch: AtomicU64,      // number of polls started (all tasks)
    inbox: Mutex<Vec<Value>>,
    panic_msg: Mutex<Option<String>>,
    proto_err: Mutex<Option<String>>,
    frames_queued: AtomicU64,
    frames_written: AtomicU64,
}

struct TrackWaker {
    inner: Waker,
    shared: Arc<Shared>,
    idx: usize,
}

impl Wake for TrackWaker {
    fn wake(self: Arc<Self>) {
        self.shared.tasks[self.idx].woken.store(true, SeqCst);
        self.inner.wake_by_ref();
    }
    fn wake_by_ref(self: &Arc<Self>) {
        self.shared.tasks[self.idx].woken.store(true, SeqCst);
        self.inner.wake_by_ref();
    }
}

struct Tracked<F> {
    fut: Pin<Box<F>>,
    shared: Arc<Shared>,
    idx: usize,
}

impl<F: Future<Output = ()>> Future for Tracked<F> {
    type Output = ();
    fn poll(mut self: Pin<&mut Self>, cx: &mut Context<'_>) -> Poll<()> {
        let shared = self.shared.clone();
        let idx = self.idx;
        let shared2 = shared.clone();
        let st = &shared2.tasks[idx];
        st.polling.store(true, SeqCst);
        shared.epoch.fetch_add(1, SeqCst);
        st.woken.store(false, SeqCst);
        let waker = Waker::from(Arc::new(TrackWaker { inner: cx.waker().clone(), shared: shared.clone(), idx }));
        let mut cx2 = Context::from_waker(&waker);
        let fut = self.fut.as_mut();
        let r = std::panic::catch_unwind(std::panic::AssertUnwindSafe(|| fut.poll(&mut cx2)));
        let out = match r {
            Ok(Poll::Pending) => Poll::Pending,
            Ok(Poll::Ready(())) => {
                st.done.store(true, SeqCst);
                Poll::Ready(())
            }
            Err(e) => {
                let msg = if let Some(s) = e.downcast_ref::<String>() {
                    s.clone()
                } else if let Some(s) = e.downcast_ref::<&str>() {
                    s.to_string()
                } else {
                    "panic".to_string()
                };
                *shared.panic_msg.lock().unwrap() = Some(format!("task {}: {}", idx, msg));
                st.done.store(true, SeqCst);
                Poll::Ready(())
            }
        };
        st.polling.store(false, SeqCst);
        out
    }
}

impl Shared {
    fn quiet(&self) -> bool {
        // order matters: read the activity flags, then the frame counters
        for t in &self.tasks {
            if t.polling.load(SeqCst) || t.woken.load(SeqCst) {
                return false;
            }
        }
        self.frames_queued.load(SeqCst) == self.frames_written.load(SeqCst)
    }
}

// ------------------------------------------------------------------------------------------
// the session
// ------------------------------------------------------------------------------------------

/// One publication, in arrival order.
#[derive(Clone, Debug)]
pub struct Publication {
    /// index of the client action (0-based count of `notify`/`request`/`answer_*` calls) after
    /// which it arrived
    pub after_action: usize,
    pub uri: String,
    pub diagnostics: Value,
}

/// A server→client request that is waiting for the script's answer.
#[derive(Clone, Debug)]
pub struct PendingRequest {
    pub id: Value,
    pub method: String,
    pub params: Value,
    /// index of the client action after which it arrived
    pub after_action: usize,
}

/// A single-threaded tokio runtime (ONE blocking thread) on its own OS thread. Sessions are
/// spawned onto it one after the other; keeping the thread alive keeps harper's thread-local
/// caches (Levenshtein automaton builder ≈ 0.4 s) warm across sessions.
pub struct LsHost {
    handle: tokio::runtime::Handle,
    stop: Mutex<Option<tokio::sync::oneshot::Sender<()>>>,
}

impl LsHost {
    pub fn new() -> Result<Arc<LsHost>, LsError> {
        let rt = tokio::runtime::Builder::new_current_thread()
            .max_blocking_threads(1)
            .thread_keep_alive(Duration::from_secs(600))
            .build()
            .map_err(|e| LsError::Protocol(format!("runtime: {}", e)))?;
        let handle = rt.handle().clone();
        let (stop_tx, stop_rx) = tokio::sync::oneshot::channel::<()>();
        std::thread::Builder::new()
            .name("ls-runtime".into())
            .stack_size(64 << 20)
            .spawn(move || {
                rt.block_on(async move {
                    let _ = stop_rx.await;
                });
                rt.shutdown_background();
            })
            .map_err(|e| LsError::Protocol(format!("thread: {}", e)))?;
        Ok(Arc::new(LsHost { handle, stop: Mutex::new(Some(stop_tx)) }))
    }
}

impl Drop for LsHost {
    fn drop(&mut self) {
        if let Some(s) = self.stop.lock().unwrap().take() {
            let _ = s.send(());
        }
    }
}

thread_local! {
    static HOST: std::cell::RefCell<Option<Arc<LsHost>>> = const { std::cell::RefCell::new(None) };
}

/// the calling thread's runtime host (created on first use, reused by later sessions)
pub fn thread_host() -> Result<Arc<LsHost>, LsError> {
    HOST.with(|h| {
        let mut h = h.borrow_mut();
        if h.is_none() {
            *h = Some(LsHost::new()?);
        }
        Ok(h.as_ref().unwrap().clone())
    })
}

pub struct LsSession {
    shared: Arc<Shared>,
    host: Arc<LsHost>,
    tx: tokio::sync::mpsc::UnboundedSender<Vec<u8>>,
    tasks: Vec<tokio::task::JoinHandle<()>>,
    next_id: i64,
    consumed: usize,
    /// number of client actions so far
    pub actions: usize,
    pending: VecDeque<PendingRequest>,
    pubs: Vec<Publication>,
    responses: HashMap<i64, Value>,
    /// server→client notifications other than publishDiagnostics (`window/logMessage`, …)
    pub other_notifications: Vec<Value>,
    /// per-wait deadline
    pub max_wait: Duration,
    pub broken: Option<LsError>,
    /// number of settle() calls and total time spent in them (evidence)
    pub settles: u64,
    pub settle_time: Duration,
}

fn frame(v: &Value) -> Vec<u8> {
    let body = serde_json::to_vec(v).unwrap();
    let mut out = format!("Content-Length: {}\r\n\r\n", body.len()).into_bytes();
    out.extend_from_slice(&body);
    out
}

async fn read_frames<R: tokio::io::AsyncRead + Unpin>(mut r: R, shared: Arc<Shared>) {
    let mut buf: Vec<u8> = Vec::new();
    let mut chunk = vec![0u8; 1 << 16];
    loop {
        // parse as many complete frames as the buffer holds
        loop {
            let Some(hdr_end) = buf.windows(4).position(|w| w == b"\r\n\r\n") else { break };
            let hdr = String::from_utf8_lossy(&buf[..hdr_end]).to_string();
            let mut len = None;
            for line in hdr.split("\r\n") {
                if let Some(v) = line.strip_prefix("Content-Length:") {
                    len = v.trim().parse::<usize>().ok();
                }
            }
            let Some(len) = len else {
                *shared.proto_err.lock().unwrap() = Some(format!("frame header without length: {:?}", hdr));
                return;
            };
            if buf.len() < hdr_end + 4 + len {
                break;
            }
            let body = buf[hdr_end + 4..hdr_end + 4 + len].to_vec();
            buf.drain(..hdr_end + 4 + len);
            match serde_json::from_slice::<Value>(&body) {
                Ok(v) => shared.inbox.lock().unwrap().push(v),
                Err(e) => {
                    *shared.proto_err.lock().unwrap() = Some(format!("bad JSON from server: {}", e));
                    return;
                }
            }
        }
        match r.read(&mut chunk).await {
            Ok(0) | Err(_) => return,
            Ok(n) => buf.extend_from_slice(&chunk[..n]),
        }
    }
}

async fn write_frames<W: tokio::io::AsyncWrite + Unpin>(
    mut w: W,
    mut rx: tokio::sync::mpsc::UnboundedReceiver<Vec<u8>>,
    shared: Arc<Shared>,
) {
    while let Some(f) = rx.recv().await {
        if w.write_all(&f).await.is_err() {
            return;
        }
        let _ = w.flush().await;
        shared.frames_written.fetch_add(1, SeqCst);
    }
    // dropping `w` closes the pipe: the server's read loop ends
}

impl LsSession {
    /// Start a server with `Config::default()` (HOME / XDG_* must already point at the temp dir:
    /// `Config::default()` is re-evaluated by the server on every configuration pull).
    pub fn start() -> Result<LsSession, LsError> {
        Self::start_with(Config::default())
    }

    pub fn start_with(config: Config) -> Result<LsSession, LsError> {
        Self::start_on(thread_host()?, config)
    }

    /// Start a server (and the client's I/O tasks) on `host`.
    pub fn start_on(host: Arc<LsHost>, config: Config) -> Result<LsSession, LsError> {
        let shared = Arc::new(Shared {
            tasks: Default::default(),
            epoch: AtomicU64::new(0),
            inbox: Mutex::new(vec![]),
            panic_msg: Mutex::new(None),
            proto_err: Mutex::new(None),
            frames_queued: AtomicU64::new(0),
            frames_written: AtomicU64::new(0),
        });
        let (tx, rx) = tokio::sync::mpsc::unbounded_channel::<Vec<u8>>();
        let (client_side, server_side) = tokio::io::duplex(1 << 22);
        let (s_read, s_write) = tokio::io::split(server_side);
        let (c_read, c_write) = tokio::io::split(client_side);
        let (service, socket) = tower_lsp::LspService::new(|client| Backend::new(client, config));
        let server = async move {
            tower_lsp::Server::new(s_read, s_write, socket).serve(service).await;
        };
        let tasks = vec![
            host.handle.spawn(Tracked { fut: Box::pin(server), shared: shared.clone(), idx: 0 }),
            host.handle.spawn(Tracked { fut: Box::pin(read_frames(c_read, shared.clone())), shared: shared.clone(), idx: 1 }),
            host.handle.spawn(Tracked { fut: Box::pin(write_frames(c_write, rx, shared.clone())), shared: shared.clone(), idx: 2 }),
        ];
        let mut s = LsSession {
            shared,
            host,
            tx,
            tasks,
            next_id: 1,
            consumed: 0,
            actions: 0,
            pending: VecDeque::new(),
            pubs: vec![],
            responses: HashMap::new(),
            other_notifications: vec![],
            max_wait: Duration::from_secs(20),
            broken: None,
            settles: 0,
            settle_time: Duration::ZERO,
        };
        // all three tasks have been polled once and are parked
        let t0 = Instant::now();
        while s.shared.epoch.load(SeqCst) < 3 {
            if t0.elapsed() > s.max_wait {
                return Err(s.fail(LsError::Timeout("server start".into())));
            }
            std::thread::sleep(Duration::from_micros(50));
        }
        s.settle()?;
        Ok(s)
    }

    fn fail(&mut self, e: LsError) -> LsError {
        if self.broken.is_none() {
            self.broken = Some(e.clone());
        }
        e
    }

    fn send_raw(&mut self, v: &Value) -> Result<(), LsError> {
        if let Some(e) = &self.broken {
            return Err(e.clone());
        }
        self.shared.frames_queued.fetch_add(1, SeqCst);
        if self.tx.send(frame(v)).is_err() {
            return Err(self.fail(LsError::ServerGone));
        }
        self.actions += 1;
        Ok(())
    }

    /// Wait until the server (and the client's I/O tasks) can make no further step, then sort
    /// what arrived. Server→client requests other than `workspace/configuration`
    /// (`client/registerCapability`, …) are answered with `null` on the spot.
    pub fn settle(&mut self) -> Result<(), LsError> {
        let t0 = Instant::now();
        let r = self.settle_inner(t0);
        self.settles += 1;
        self.settle_time += t0.elapsed();
        r
    }

    fn wait_quiet(&mut self, t0: Instant, what: &str) -> Result<(), LsError> {
        let mut spins = 0u32;
        while !self.shared.quiet() {
            if t0.elapsed() > self.max_wait {
                return Err(self.fail(LsError::Timeout(format!("{} (server busy or blocked)", what))));
            }
            spins += 1;
            if spins < 200 {
                std::hint::spin_loop();
                std::thread::yield_now();
            } else {
                std::thread::sleep(Duration::from_micros(40));
            }
        }
        Ok(())
    }

    fn settle_inner(&mut self, t0: Instant) -> Result<(), LsError> {
        if let Some(e) = &self.broken {
            return Err(e.clone());
        }
        let mut clean_rounds = 0;
        loop {
            self.wait_quiet(t0, "idle")?;
            // ORDER MATTERS: the poll counter is read BEFORE quietness is (re)checked. A poll that
            // began before this read has either ended by the check below — then every file operation
            // it queued precedes the probe in the single blocking thread's FIFO — or is still running
            // (not quiet). A poll that begins after this read changes the counter. (Reading the
            // counter after the check left a window: a task woken by a finishing file operation
            // between check and read could queue its next file operation BEHIND the probe and be
            // taken for idle — observed as a rare, unreproducible disagreement.)
            let e0 = self.shared.epoch.load(SeqCst);
            if !self.shared.quiet() {
                clean_rounds = 0;
                continue;
            }
            // every blocking (tokio::fs) operation queued so far has completed when this returns
            let (ptx, prx) = std::sync::mpsc::channel::<()>();
            self.host.handle.spawn_blocking(move || {
                let _ = ptx.send(());
            });
            let left = self.max_wait.saturating_sub(t0.elapsed()).max(Duration::from_millis(1));
            if prx.recv_timeout(left).is_err() {
                return Err(self.fail(LsError::Timeout("blocking-pool probe (a file operation hangs)".into())));
            }
            let q = self.shared.quiet();
            let e1 = self.shared.epoch.load(SeqCst);
            if !(q && e1 == e0) {
                clean_rounds = 0;
                continue;
            }
            // two consecutive clean rounds (belt and braces; a round costs a few microseconds)
            clean_rounds += 1;
            if clean_rounds < 2 {
                continue;
            }
            clean_rounds = 0;
            let pm: Option<String> = self.shared.panic_msg.lock().unwrap().clone();
            if let Some(m) = pm {
                self.drain();
                return Err(self.fail(LsError::ServerPanicked(m)));
            }
            let pe: Option<String> = self.shared.proto_err.lock().unwrap().clone();
            if let Some(m) = pe {
                return Err(self.fail(LsError::Protocol(m)));
            }
            let auto = self.drain();
            if auto.is_empty() {
                return Ok(());
            }
            for id in auto {
                self.shared.frames_queued.fetch_add(1, SeqCst);
                let _ = self.tx.send(frame(&json!({"jsonrpc": "2.0", "id": id, "result": null})));
            }
        }
    }

    /// sort new inbound messages; returns ids of requests to auto-answer
    fn drain(&mut self) -> Vec<Value> {
        let msgs: Vec<Value> = {
            let inbox = self.shared.inbox.lock().unwrap();
            inbox[self.consumed..].to_vec()
        };
        self.consumed += msgs.len();
        let mut auto = vec![];
        for m in msgs {
            let method = m.get("method").and_then(|x| x.as_str()).map(|s| s.to_string());
            let id = m.get("id").cloned();
            match (method, id) {
                (Some(method), Some(id)) => {
                    if method == "workspace/configuration" {
                        self.pending.push_back(PendingRequest {
                            id,
                            method,
                            params: m.get("params").cloned().unwrap_or(Value::Null),
                            after_action: self.actions,
                        });
                    } else {
                        auto.push(id);
                    }
                }
                (Some(method), None) => {
                    if method == "textDocument/publishDiagnostics" {
                        let p = &m["params"];
                        self.pubs.push(Publication {
                            after_action: self.actions,
                            uri: p["uri"].as_str().unwrap_or("").to_string(),
                            diagnostics: p["diagnostics"].clone(),
                        });
                    } else {
                        self.other_notifications.push(m);
                    }
                }
                (None, Some(id)) => {
                    if let Some(i) = id.as_i64() {
                        self.responses.insert(i, m);
                    }
                }
                _ => {}
            }
        }
        auto
    }

    /// alias of `notify`
    pub fn send_notification(&mut self, method: &str, params: Value) -> Result<(), LsError> {
        self.notify(method, params)
    }

    /// Send a request and await its response, answering every configuration request the server
    /// sends meanwhile with `cfg` (alias of `request_sync`; use `request` + `response` to keep the
    /// handler blocked and schedule its configuration reply yourself).
    pub fn send_request(&mut self, method: &str, params: Value, cfg: &Value) -> Result<Value, LsError> {
        self.request_sync(method, params, cfg)
    }

    /// Send a notification and wait until the server is idle again.
    pub fn notify(&mut self, method: &str, params: Value) -> Result<(), LsError> {
        self.send_raw(&json!({"jsonrpc": "2.0", "method": method, "params": params}))?;
        self.settle()
    }

    /// Send a request and wait until the server is idle (the response may not have arrived: the
    /// handler may be blocked on a configuration request — see `response`).
    pub fn request(&mut self, method: &str, params: Value) -> Result<i64, LsError> {
        let id = self.next_id;
        self.next_id += 1;
        self.send_raw(&json!({"jsonrpc": "2.0", "id": id, "method": method, "params": params}))?;
        self.settle()?;
        Ok(id)
    }

    /// The whole response message (`{"jsonrpc":..,"id":..,"result"|"error":..}`), if it has arrived.
    pub fn response(&self, id: i64) -> Option<&Value> {
        self.responses.get(&id)
    }

    /// Send a request and answer every configuration request with `cfg` until its response arrives.
    pub fn request_sync(&mut self, method: &str, params: Value, cfg: &Value) -> Result<Value, LsError> {
        let id = self.request(method, params)?;
        let t0 = Instant::now();
        loop {
            if let Some(r) = self.responses.get(&id) {
                return Ok(r.clone());
            }
            if self.pending.is_empty() {
                return Err(self.fail(LsError::Timeout(format!("response to {} #{} (server idle, nothing to answer)", method, id))));
            }
            if t0.elapsed() > self.max_wait {
                return Err(self.fail(LsError::Timeout(format!("response to {} #{}", method, id))));
            }
            self.answer_config_at(0, cfg)?;
        }
    }

    /// Outstanding `workspace/configuration` requests, oldest first.
    pub fn pending_config(&self) -> Vec<PendingRequest> {
        self.pending.iter().cloned().collect()
    }

    pub fn pending_count(&self) -> usize {
        self.pending.len()
    }

    /// Answer the `idx`-th oldest outstanding configuration request with `[cfg]`; waits for idle.
    pub fn answer_config_at(&mut self, idx: usize, cfg: &Value) -> Result<PendingRequest, LsError> {
        let Some(p) = self.pending.remove(idx) else {
            return Err(LsError::Protocol(format!("no pending configuration request #{}", idx)));
        };
        self.send_raw(&json!({"jsonrpc": "2.0", "id": p.id, "result": [cfg]}))?;
        self.settle()?;
        Ok(p)
    }

    /// Answer the outstanding configuration request with JSON-RPC id `id`.
    pub fn answer_config(&mut self, id: &Value, cfg: &Value) -> Result<PendingRequest, LsError> {
        match self.pending.iter().position(|p| &p.id == id) {
            Some(i) => self.answer_config_at(i, cfg),
            None => Err(LsError::Protocol(format!("no pending configuration request with id {}", id))),
        }
    }

    /// All publications so far, arrival order.
    pub fn all_publications(&self) -> &[Publication] {
        &self.pubs
    }

    /// `diagnostics` arrays published for `uri`, arrival order.
    pub fn publications(&self, uri: &str) -> Vec<&Value> {
        self.pubs.iter().filter(|p| p.uri == uri).map(|p| &p.diagnostics).collect()
    }

    pub fn last_publication(&self, uri: &str) -> Option<&Value> {
        self.pubs.iter().rev().find(|p| p.uri == uri).map(|p| &p.diagnostics)
    }

    /// `initialize` + `initialized`; the configuration pull of `initialized` is answered with `cfg`.
    pub fn initialize(&mut self, cfg: &Value) -> Result<Value, LsError> {
        let id = self.request("initialize", json!({"processId": null, "rootUri": null, "capabilities": {}}))?;
        let Some(r) = self.responses.get(&id).cloned() else {
            return Err(self.fail(LsError::Timeout("initialize response".into())));
        };
        self.notify("initialized", json!({}))?;
        while self.pending_count() > 0 {
            self.answer_config_at(0, cfg)?;
        }
        Ok(r)
    }

    /// Answer everything outstanding (oldest first, with `cfg`) until the server is idle with
    /// nothing pending, then round-trip a no-op request (`workspace/executeCommand` with an unknown
    /// command) to confirm the server still answers.
    pub fn quiesce(&mut self, cfg: &Value) -> Result<(), LsError> {
        let t0 = Instant::now();
        self.settle()?;
        while self.pending_count() > 0 {
            if t0.elapsed() > self.max_wait {
                return Err(self.fail(LsError::Timeout("quiesce: configuration requests keep coming".into())));
            }
            self.answer_config_at(0, cfg)?;
        }
        let id = self.request("workspace/executeCommand", json!({"command": "HarperVerifNoop", "arguments": ["x"]}))?;
        while self.pending_count() > 0 {
            if t0.elapsed() > self.max_wait {
                return Err(self.fail(LsError::Timeout("quiesce: configuration requests keep coming".into())));
            }
            self.answer_config_at(0, cfg)?;
        }
        if self.responses.get(&id).is_none() {
            return Err(self.fail(LsError::Timeout("quiesce: no-op request not answered by an idle server".into())));
        }
        Ok(())
    }

    /// `shutdown` (answering outstanding configuration requests with `cfg`) and `exit`.
    pub fn shutdown(&mut self, cfg: &Value) -> Result<Value, LsError> {
        let r = self.request_sync_allow_idle("shutdown", Value::Null, cfg)?;
        let _ = self.send_raw(&json!({"jsonrpc": "2.0", "method": "exit"}));
        let _ = self.settle();
        Ok(r)
    }

    fn request_sync_allow_idle(&mut self, method: &str, params: Value, cfg: &Value) -> Result<Value, LsError> {
        let id = self.next_id;
        self.next_id += 1;
        let msg = if params.is_null() {
            json!({"jsonrpc": "2.0", "id": id, "method": method})
        } else {
            json!({"jsonrpc": "2.0", "id": id, "method": method, "params": params})
        };
        self.send_raw(&msg)?;
        self.settle()?;
        let t0 = Instant::now();
        while self.responses.get(&id).is_none() {
            if self.pending.is_empty() || t0.elapsed() > self.max_wait {
                return Err(self.fail(LsError::Timeout(format!("response to {}", method))));
            }
            self.answer_config_at(0, cfg)?;
        }
        Ok(self.responses[&id].clone())
    }

    pub fn server_done(&self) -> bool {
        self.shared.tasks[0].done.load(SeqCst)
    }

    pub fn polls(&self) -> u64 {
        self.shared.epoch.load(SeqCst)
    }
}

impl Drop for LsSession {
    fn drop(&mut self) {
        for t in &self.tasks {
            t.abort();
        }
        let t0 = Instant::now();
        while self.tasks.iter().any(|t| !t.is_finished()) && t0.elapsed() < Duration::from_secs(2) {
            std::thread::sleep(Duration::from_micros(50));
        }
    }
}

// ------------------------------------------------------------------------------------------
// environment
// ------------------------------------------------------------------------------------------

/// Point HOME / XDG_CONFIG_HOME / XDG_DATA_HOME at `home` (call once, before any other thread
/// exists and before the first `Config::default()`), and return the three default paths
/// `Config::default()` now yields: (user dictionary, file-dictionary directory, statistics file).
pub fn set_home(home: &std::path::Path) -> (std::path::PathBuf, std::path::PathBuf, std::path::PathBuf) {
    std::fs::create_dir_all(home).unwrap();
    // SAFETY: called at start-up on the main thread before any other thread is spawned.
    unsafe {
        std::env::set_var("HOME", home);
        std::env::set_var("XDG_CONFIG_HOME", home.join("config"));
        std::env::set_var("XDG_DATA_HOME", home.join("data"));
        std::env::remove_var("XDG_CACHE_HOME");
    }
    let c = Config::default();
    (c.user_dict_path, c.file_dict_path, c.stats_path)
}

/// `file://` URL of `path`.
pub fn file_url(path: &std::path::Path) -> String {
    tower_lsp::lsp_types::Url::from_file_path(path).map(|u| u.to_string()).unwrap_or_default()
}

/// didOpen / didChange / didSave / didClose parameter builders.
pub fn did_open(uri: &str, lang: &str, text: &str) -> Value {
    json!({"textDocument": {"uri": uri, "languageId": lang, "version": 1, "text": text}})
}
pub fn did_change(uri: &str, version: i64, text: &str) -> Value {
    json!({"textDocument": {"uri": uri, "version": version}, "contentChanges": [{"text": text}]})
}
pub fn did_save(uri: &str) -> Value {
    json!({"textDocument": {"uri": uri}})
}
pub fn did_close(uri: &str) -> Value {
    json!({"textDocument": {"uri": uri}})
}
pub fn deleted(uri: &str) -> Value {
    json!({"changes": [{"uri": uri, "type": 3}]})
}
