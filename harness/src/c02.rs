//! C02 — tokens in bounds, ordered, disjoint, tiling in plain English, and shaped like their kind.
//! K: `PlainEnglish::parse` token-for-token against the Lean lexer model.
//! O: the property's clauses on the final `Document` tokens of every front-end.
use crate::common::*;
use crate::frontends::{self, Wrap};
use crate::textgen;
use crate::tokfmt::*;
use harper_core::parsers::{Parser, PlainEnglish};
use harper_core::{Document, FstDictionary, Punctuation, Token, TokenKind};
use serde_json::{Value, json};

pub struct Out {
    pub k: Vec<(String, String)>,
    pub fails: Vec<(String, String, Value)>,
    pub counts: Vec<String>,
    pub monitors: Vec<(String, bool)>,
    pub nontrivial: Option<String>,
}

fn text_of(src: &[char], t: &Token) -> Option<Vec<char>> {
    if t.span.start <= t.span.end && t.span.end <= src.len() {
        Some(src[t.span.start..t.span.end].to_vec())
    } else {
        None
    }
}

/// the property's clauses on a token list; `plain` additionally demands exact tiling
pub fn check_tokens(front: &str, text: &str, src: &[char], toks: &[Token], plain: bool, out: &mut Out) {
    let inp = || json!({"frontend": front, "text": text});
    let mut last_end = 0usize;
    let mut last_cov: Option<(usize, usize)> = None;
    let mut cursor = 0usize;
    for (i, t) in toks.iter().enumerate() {
        if t.span.start > t.span.end || t.span.end > src.len() {
            out.fails.push(("out-of-bounds".into(), format!("token {} {} outside text of length {}", i, tok_show(t), src.len()), inp()));
            return;
        }
        let zero = t.span.start == t.span.end;
        if zero {
            if !matches!(t.kind, TokenKind::ParagraphBreak | TokenKind::Newline(_)) {
                out.fails.push(("zero-width-nonstructural".into(), format!("zero-width token {} is not a structural break", tok_show(t)), inp()));
                return;
            }
            out.counts.push("zero-width-structural".into());
        } else {
            if t.span.start < last_end {
                // recorded finding: the Typst translator can translate one syntax node twice
                // (identical span) when a typst-syntax accessor falls back to the same child
                let dup = front.starts_with("typst") && last_cov == Some((t.span.start, t.span.end));
                let class = if dup { "c02-typst-duplicate-node" } else { "unordered-or-overlapping" };
                out.fails.push((class.into(), format!("token {} {} starts before the previous covering token ends ({})", i, tok_show(t), last_end), inp()));
                if !dup {
                    return;
                }
            }
            last_end = last_end.max(t.span.end);
            last_cov = Some((t.span.start, t.span.end));
        }
        if plain {
            if t.span.start != cursor || zero {
                out.fails.push(("not-tiling".into(), format!("plain English: token {} {} does not continue at {}", i, tok_show(t), cursor), inp()));
                return;
            }
            cursor = t.span.end;
        }
        let txt = text_of(src, t).unwrap();
        match &t.kind {
            TokenKind::Word(_) => {
                if txt.iter().any(|c| c.is_whitespace()) {
                    let low: String = txt.iter().collect::<String>().to_lowercase();
                    let is_et_al = {
                        let w: Vec<&str> = low.split_whitespace().collect();
                        w == ["et", "al."]
                    };
                    let class = if is_et_al { "c02-et-al" } else { "word-has-whitespace" };
                    out.fails.push((class.into(), format!("Word token {:?} contains whitespace", txt.iter().collect::<String>()), inp()));
                    if !is_et_al {
                        return;
                    }
                }
            }
            TokenKind::Space(n) => {
                if !zero {
                    let sp = txt.iter().filter(|c| **c == ' ').count();
                    let tb = txt.iter().filter(|c| **c == '\t').count();
                    // plain English: exactly blanks, counted (what the model proves);
                    // other front-ends may collapse runs of markup whitespace: only blanks.
                    let ok = if plain { sp + tb == txt.len() && *n == sp + 2 * tb } else { txt.iter().all(|c| c.is_whitespace()) };
                    if !ok {
                        out.fails.push(("space-shape".into(), format!("Space({}) over {:?}", n, txt.iter().collect::<String>()), inp()));
                        return;
                    }
                }
            }
            TokenKind::Newline(n) => {
                let ok = if plain { txt.iter().all(|c| *c == '\n') && *n == txt.len() } else { txt.iter().all(|c| c.is_whitespace()) };
                if !zero && !ok {
                    out.fails.push(("newline-shape".into(), format!("Newline({}) over {:?}", n, txt.iter().collect::<String>()), inp()));
                    return;
                }
            }
            TokenKind::Punctuation(Punctuation::Quote(q)) => {
                if let Some(tw) = q.twin_loc {
                    let ok = tw < toks.len()
                        && tw != i
                        && matches!(toks[tw].kind, TokenKind::Punctuation(Punctuation::Quote(q2)) if q2.twin_loc == Some(i));
                    if !ok {
                        out.fails.push(("quote-twin".into(), format!("quote token {} points at {} which does not point back", i, tw), inp()));
                        return;
                    }
                    out.counts.push("quote-paired".into());
                }
            }
            TokenKind::Punctuation(p) => {
                let ok = if txt.len() == 1 {
                    Punctuation::from_char(txt[0]) == Some(*p)
                } else {
                    *p == Punctuation::Ellipsis && txt.len() >= 2 && txt.iter().all(|c| *c == '.')
                };
                if !ok {
                    out.fails.push(("punct-shape".into(), format!("{:?} over {:?}", p, txt.iter().collect::<String>()), inp()));
                    return;
                }
            }
            TokenKind::Number(num) => {
                let s: String = txt.iter().collect();
                let lit = if num.suffix.is_some() && txt.len() >= 2 { txt[..txt.len() - 2].iter().collect::<String>() } else { s.clone() };
                if let Some(sfx) = num.suffix {
                    let tail: String = txt[txt.len().saturating_sub(2)..].iter().collect::<String>().to_lowercase();
                    let want: String = sfx.to_chars().iter().collect();
                    if tail != want {
                        out.fails.push(("number-suffix-shape".into(), format!("Number suffix {:?} over {:?}", sfx, s), inp()));
                        return;
                    }
                }
                let val = if num.radix == 16 {
                    lit.strip_prefix("0x").and_then(|h| u64::from_str_radix(h, 16).ok()).map(|v| v as f64)
                } else {
                    lit.parse::<f64>().ok()
                };
                match val {
                    Some(v) if v == num.value.0 || (v.is_nan() && num.value.0.is_nan()) => {}
                    _ => {
                        out.fails.push(("number-value".into(), format!("Number token text {:?} does not denote its value {}", s, num.value.0), inp()));
                        return;
                    }
                }
                out.counts.push("number-checked".into());
            }
            _ => {}
        }
    }
    if plain && cursor != src.len() {
        out.fails.push(("not-tiling".into(), format!("plain English: tokens end at {} of {}", cursor, src.len()), inp()));
    }
}

/// K on the plain parser + O on the plain document
pub fn eval_plain(text: &str) -> Out {
    let mut out = Out { k: vec![], fails: vec![], counts: vec![], monitors: vec![], nontrivial: None };
    let src: Vec<char> = text.chars().collect();
    let r = guarded(|| PlainEnglish.parse(&src));
    match r {
        Err(_) => {
            out.k.push((format!("lex | {} | ", text_field(&src)), "panic".into()));
            out.fails.push(("panic".into(), "PlainEnglish::parse panicked".into(), json!({"frontend": "plaintext", "text": text})));
        }
        Ok(toks) => {
            let op = format!("lex | {} | {}", text_field(&src), ext_field(&toks));
            let imp = format!("ok {}", toks_show(&toks)).trim_end().to_string();
            // assumption monitor: external lexers stay inside the text and consume ≥ 1 char
            for t in &toks {
                if matches!(t.kind, TokenKind::Url | TokenKind::EmailAddress | TokenKind::Hostname) {
                    out.monitors.push(("ExtOK(url/email/hostname lexers in bounds)".into(), t.span.start < t.span.end && t.span.end <= src.len()));
                }
            }
            let kinds: std::collections::BTreeSet<String> = toks.iter().map(|t| kind_tag(&t.kind).split(|c: char| c.is_ascii_digit() || c == ':' || c == '.').next().unwrap_or("").to_string()).collect();
            for k in &kinds {
                out.counts.push(format!("lexer:{}", k));
            }
            if kinds.len() >= 3 {
                out.nontrivial = Some(op.clone());
            }
            out.k.push((op, imp));
            check_tokens("plaintext(parser)", text, &src, &toks, true, &mut out);
        }
    }
    // final Document tokens (after the condense passes)
    let dict = FstDictionary::curated();
    if let Ok(doc) = guarded(|| Document::new(text, &PlainEnglish, &dict)) {
        check_tokens("plaintext", text, doc.get_source(), doc.get_tokens(), true, &mut out);
    }
    out
}

/// O on one wrapped front-end
pub fn eval_front(id: &str, ilt: bool, wrap: Wrap, text: &str) -> Out {
    let mut out = Out { k: vec![], fails: vec![], counts: vec![], monitors: vec![], nontrivial: None };
    let Some(parser) = frontends::wrapped(id, ilt, wrap) else {
        out.monitors.push((format!("frontend-constructible:{}", id), false));
        return out;
    };
    let dict = FstDictionary::curated();
    let name = format!("{}{}{}", id, if ilt { "+ilt" } else { "" }, match wrap { Wrap::None => "", Wrap::Collapse => "+collapse", Wrap::Isolate => "+isolate" });
    match guarded(|| Document::new(text, &parser, &dict)) {
        Ok(doc) => {
            out.counts.push(format!("front:{}", id));
            check_tokens(&name, text, doc.get_source(), doc.get_tokens(), false, &mut out);
        }
        Err(_) => out.counts.push("front-panicked(C01's business)".into()),
    }
    out
}

fn merge(sess: &mut Session, o: Out) {
    let mut case = None;
    for (op, imp) in &o.k {
        case = Some(sess.k(op, imp));
    }
    if o.k.is_empty() {
        sess.o();
    }
    for c in &o.counts {
        sess.count(c);
    }
    for (m, held) in &o.monitors {
        sess.monitor(m, *held);
    }
    if let Some(n) = &o.nontrivial {
        sess.nontrivial(n);
    }
    for (class, desc, input) in o.fails {
        sess.fail(&class, desc, input, case);
    }
}

pub fn run(ctx: &Ctx) {
    let mut sess = Session::new(ctx);
    let mut rng = Rng::new(ctx.seed);
    if let Some(v) = replay_input(ctx) {
        let text = v["text"].as_str().unwrap_or("").to_string();
        let front = v["frontend"].as_str().unwrap_or("plaintext").to_string();
        let o = if front.starts_with("plaintext") {
            eval_plain(&text)
        } else {
            let id = front.split('+').next().unwrap().to_string();
            let wrap = if front.contains("+collapse") { Wrap::Collapse } else if front.contains("+isolate") { Wrap::Isolate } else { Wrap::None };
            eval_front(&id, front.contains("+ilt"), wrap, &text)
        };
        merge(&mut sess, o);
        sess.nontrivial("replay-a");
        sess.nontrivial("replay-b");
        sess.finish("replay of one recorded input", false, json!({}));
        return;
    }
    // --- inputs -------------------------------------------------------------------------
    let mut plain_inputs: Vec<String> = vec![];
    // 1. corpus: witnesses of past findings and lexer corner cases
    for s in [
        "See e.g.", "e.g. foo", "2stuff", "et al. said", "Et Al.", " \t ", "\t\t  \t", "1980st", "1980s.", "0x", "0x1G", "0xFFFFFFFFFFFFFFFFF",
        "1.14.4. and 5", "I have 5.\n\n3", "a's 5's O'Neil's", "[a-z0-9] [a-z [a-] [ab]", "a'b'c'd", "....", ". . ..", "\"a\" \"b", "1e999$",
        "http://a.b/c user@x.y www.a.b. a.b", "x:y //", "٣1 ½ 1½", "1.e5 1e+5 1e 1.", "İstanbul ﬁ ß", "don’t", "\n\n\n", "", " ",
    ] {
        plain_inputs.push(s.to_string());
    }
    for s in textgen::SPICE {
        plain_inputs.push(s.to_string());
        plain_inputs.push(format!("a {} b", s));
    }
    // 2. exhaustive small scope: all strings of length ≤ 4 (quick) / ≤ 5 (thorough) over a hostile alphabet
    let alpha: Vec<char> = vec!['a', '1', '.', '\'', ' ', '\t', '\n', 's', '0', 'x', '[', ']', '-', 'e'];
    let maxlen = if ctx.tier == Tier::Thorough { 5 } else { 4 };
    let n = alpha.len();
    for len in 1..=maxlen {
        let total = n.pow(len as u32);
        for code in 0..total {
            let mut c = code;
            let mut s = String::new();
            for _ in 0..len {
                s.push(alpha[c % n]);
                c /= n;
            }
            plain_inputs.push(s);
        }
    }
    let n_exh = plain_inputs.len();
    // 3. structured random + malformed
    let nrand = if ctx.tier == Tier::Thorough { 40000 } else { 6000 };
    for _ in 0..nrand {
        plain_inputs.push(textgen::text(&mut rng));
    }
    let outs = par_map(plain_inputs.len(), 16, |i| eval_plain(&plain_inputs[i]));
    for (i, o) in outs.into_iter().enumerate() {
        if i >= n_exh && i < n_exh + 3 {
            sess.sample(json!({"plain_text": trunc(&plain_inputs[i], 200)}));
        }
        merge(&mut sess, o);
    }
    // --- O on every front-end ------------------------------------------------------------
    let ids = frontends::language_ids();
    sess.add("frontends", ids.len() as u64);
    let per_front = if ctx.tier == Tier::Thorough { 400 } else { 60 };
    let mut jobs: Vec<(String, bool, Wrap, String)> = vec![];
    for id in &ids {
        if frontends::parser_for(id, false).is_none() {
            sess.monitor(&format!("frontend-known:{}", id), false);
            continue;
        }
        for j in 0..per_front {
            let prose = { let p = textgen::prose(&mut rng); if rng.chance(1, 2) { textgen::mutate(&mut rng, &p) } else { p } };
            let mut text = frontends::embed(id, &prose, j);
            if rng.chance(1, 4) {
                text = textgen::mutate(&mut rng, &text);
            }
            let wrap = match j % 6 { 4 => Wrap::Collapse, 5 => Wrap::Isolate, _ => Wrap::None };
            jobs.push((id.clone(), j % 2 == 1, wrap, text));
        }
        // corpus per front-end: the masked-markup condensation witness
        jobs.push((id.clone(), false, Wrap::None, frontends::embed(id, "Scott</p><b title=\"x\">'There is", 0)));
    }
    for (ext, content) in crate::corpus::fixtures() {
        let id = match ext.as_str() {
            "md" => "markdown", "rs" => "rust", "js" => "javascript", "ts" => "typescript", "tsx" => "typescriptreact", "jsx" => "javascriptreact",
            "c" | "h" => "c", "cpp" => "cpp", "cs" => "csharp", "go" => "go", "java" => "java", "lua" => "lua", "py" => "python", "rb" => "ruby",
            "sh" => "shellscript", "swift" => "swift", "toml" => "toml", "nix" => "nix", "php" => "php", "dart" => "dart", "scala" => "scala",
            "hs" => "haskell", "cmake" => "cmake", "html" => "html", "typ" => "typst", "lhs" => "lhaskell", _ => "plaintext",
        };
        jobs.push((id.to_string(), false, Wrap::None, content.clone()));
    }
    let outs = par_map(jobs.len(), 16, |i| eval_front(&jobs[i].0, jobs[i].1, jobs[i].2, &jobs[i].3));
    for (i, o) in outs.into_iter().enumerate() {
        if i % 397 == 0 {
            sess.sample(json!({"frontend": jobs[i].0, "text": trunc(&jobs[i].3, 160)}));
        }
        merge(&mut sess, o);
    }
    sess.finish(
        "K: PlainEnglish::parse vs the Lean lexer model on (1) corpus of lexer corner cases, (2) ALL strings of length ≤4 (quick) / ≤5 (thorough) over the alphabet {a,1,.,',space,tab,newline,s,0,x,[,],-,e}, (3) structured random texts (rule-test sentences mutated by truncation, spice splices, delimiter drops, long words, glued digits) and random code points. O: the property's clauses (bounds, order, disjointness, zero-width only structural, plain tiling, per-kind shape, quote twins) on the final Document tokens of plain English and of every language id of the server's table (prose embedded in language-appropriate syntax, plus the repo's fixtures), also wrapped in CollapseIdentifiers / IsolateEnglish. Non-trivial = a plain text whose tokens have ≥3 distinct kinds; distinct by op line.",
        true,
        json!({"exhaustive_scope": format!("all strings of length ≤{} over 14 characters", maxlen), "language_ids": ids}),
    );
}
