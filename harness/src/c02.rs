//! C02 — tokens in bounds, ordered, disjoint, tiling in plain English, and shaped like their kind.
//! K: `PlainEnglish::parse` token-for-token against the Lean lexer model.
//! O: the property's clauses on the final `Document` tokens of every front-end.
use crate::common::*;
use crate::frontends::{self, Wrap};
use crate::textgen;
use crate::tokfmt::*;
use harper_core::parsers::{Parser, PlainEnglish};
use harper_core::{Document, FstDictionary, Punctuation, Token, TokenKind};
use serde_json::{Value, json};

pub struct Out {
    pub k: Vec<(String, String)>,
    pub fails: Vec<(String, String, Value)>,
    pub counts: Vec<String>,
    pub monitors: Vec<(String, bool)>,
    pub nontrivial: Option<String>,
}

fn text_of(src: &[char], t: &Token) -> Option<Vec<char>> {
    if t.span.start <= t.span.end && t.span.end <= src.len() {
        Some(src[t.span.start..t.span.end].to_vec())
    } else {
        None
    }
}

/// the property's clauses on a token list; `plain` additionally demands exact tiling
pub fn check_tokens(front: &str, text: &str, src: &[char], toks: &[Token], plain: bool, out: &mut Out) {
    let inp = || json!({"frontend": front, "text": text});
    let mut last_end = 0usize;
    let mut last_cov: Option<(usize, usize)> = None;
    let mut cursor = 0usize;
    for (i, t) in toks.iter().enumerate() {
        if t.span.start > t.span.end || t.span.end > src.len() {
            out.fails.push(("out-of-bounds".into(), format!("token {} {} outside text of length {}", i, tok_show(t), src.len()), inp()));
            return;
        }
        let zero = t.span.start == t.span.end;
        if zero {
            if !matches!(t.kind, TokenKind::ParagraphBreak | TokenKind::Newline(_)) {
                out.fails.push(("zero-width-nonstructural".into(), format!("zero-width token {} is not a structural break", tok_show(t)), inp()));
                return;
            }
            out.counts.push("zero-width-structural".into());
        } else {
            if t.span.start < last_end {
                // recorded finding: the Typst translator can translate one syntax node twice
                // (identical span) when a typst-syntax accessor falls back to the same child
                let dup = front.starts_with("typst") && last_cov == Some((t.span.start, t.span.end));
                let class = if dup { "c02-typst-duplicate-node" } else { "unordered-or-overlapping" };
                out.fails.push((class.into(), format!("token {} {} starts before the previous covering token ends ({})", i, tok_show(t), last_end), inp()));
                if !dup {
                    return;
                }
            }
            last_end = last_end.max(t.span.end);
            last_cov = Some((t.span.start, t.span.end));
        }
        if plain {
            if t.span.start != cursor || zero {
                out.fails.push(("not-tiling".into(), format!("plain English: token {} {} does not continue at {}", i, tok_show(t), cursor), inp()));
                return;
            }
            cursor = t.span.end;
        }
        let txt = text_of(src, t).unwrap();
        match &t.kind {
            TokenKind::Word(_) => {
                if txt.iter().any(|c| c.is_whitespace()) {
                    let low: String = txt.iter().collect::<String>().to_lowercase();
                    let is_et_al = {
                        let w: Vec<&str> = low.split_whitespace().collect();
                        w == ["et", "al."]
                    };
                    // recorded finding (w25): under IsolateEnglish a dropped chunk leaves `X.` and `Y.` adjacent in
                    // the token list; condense_dotted_initialisms merges them into one Word over the gap
                    let n = txt.len();
                    let is_iso_gap = front.contains("+isolate")
                        && n >= 5
                        && txt[0].is_alphabetic()
                        && txt[1] == '.'
                        && txt[n - 1] == '.'
                        && txt[n - 2].is_alphabetic()
                        && !txt[n - 3].is_alphanumeric();
                    let class = if is_et_al { "c02-et-al" } else if is_iso_gap { "c02-isolate-initialism-gap" } else { "word-has-whitespace" };
                    out.fails.push((class.into(), format!("Word token {:?} contains whitespace", txt.iter().collect::<String>()), inp()));
                    if !is_et_al && !is_iso_gap {
                        return;
                    }
                }
            }
            TokenKind::Space(n) => {
                if !zero {
                    let sp = txt.iter().filter(|c| **c == ' ').count();
                    let tb = txt.iter().filter(|c| **c == '\t').count();
                    // plain English: exactly blanks, counted (what the model proves);
                    // other front-ends may collapse runs of markup whitespace: only blanks.
                    let ok = if plain { sp + tb == txt.len() && *n == sp + 2 * tb } else { txt.iter().all(|c| c.is_whitespace()) };
                    if !ok {
                        out.fails.push(("space-shape".into(), format!("Space({}) over {:?}", n, txt.iter().collect::<String>()), inp()));
                        return;
                    }
                }
            }
            TokenKind::Newline(n) => {
                let ok = if plain { txt.iter().all(|c| *c == '\n') && *n == txt.len() } else { txt.iter().all(|c| c.is_whitespace()) };
                if !zero && !ok {
                    // recorded finding: Markdown's hard break `\`+newline is a Newline(2) of length 1 at
                    // the start of the event's range, i.e. over the backslash
                    let bs = !plain && (front.starts_with("markdown") || front.starts_with("typst")) && txt == ['\\'];
                    // the same reading in Typst: a forced line break `\` (Expr::Linebreak) is a Newline(1) over the backslash
                    let class = if bs && front.starts_with("typst") { "c02-typst-backslash-linebreak" } else if bs { "c02-md-backslash-hardbreak" } else { "newline-shape" };
                    out.fails.push((class.into(), format!("Newline({}) over {:?}", n, txt.iter().collect::<String>()), inp()));
                    if !bs {
                        return;
                    }
                }
            }
            TokenKind::Punctuation(Punctuation::Quote(q)) => {
                // w25: "a punctuation token is that punctuation mark" holds for quote tokens too:
                // the text under a quote token is one character and that character is a quotation mark
                // (any Unicode quotation mark is accepted; the lexer makes quote tokens of `"` `“` `”`)
                if !(txt.len() == 1 && matches!(txt[0], '"' | '“' | '”' | '„' | '‟' | '«' | '»' | '＂' | '\'' | '‘' | '’' | '‚' | '‛' | '‹' | '›' | '＇' | '「' | '」' | '『' | '』' | '〝' | '〞' | '〟')) {
                    out.fails.push(("quote-shape".into(), format!("Quote token over {:?}", txt.iter().collect::<String>()), inp()));
                    return;
                }
                if let Some(tw) = q.twin_loc {
                    let ok = tw < toks.len()
                        && tw != i
                        && matches!(toks[tw].kind, TokenKind::Punctuation(Punctuation::Quote(q2)) if q2.twin_loc == Some(i));
                    if !ok {
                        out.fails.push(("quote-twin".into(), format!("quote token {} points at {} which does not point back", i, tw), inp()));
                        return;
                    }
                    out.counts.push("quote-paired".into());
                }
            }
            TokenKind::Punctuation(p) => {
                let ok = if txt.len() == 1 {
                    Punctuation::from_char(txt[0]) == Some(*p)
                } else {
                    *p == Punctuation::Ellipsis && txt.len() >= 2 && txt.iter().all(|c| *c == '.')
                };
                if !ok {
                    out.fails.push(("punct-shape".into(), format!("{:?} over {:?}", p, txt.iter().collect::<String>()), inp()));
                    return;
                }
            }
            TokenKind::Number(num) => {
                let s: String = txt.iter().collect();
                let lit = if num.suffix.is_some() && txt.len() >= 2 { txt[..txt.len() - 2].iter().collect::<String>() } else { s.clone() };
                if let Some(sfx) = num.suffix {
                    let tail: String = txt[txt.len().saturating_sub(2)..].iter().collect::<String>().to_lowercase();
                    let want: String = sfx.to_chars().iter().collect();
                    if tail != want {
                        out.fails.push(("number-suffix-shape".into(), format!("Number suffix {:?} over {:?}", sfx, s), inp()));
                        return;
                    }
                }
                let val = if num.radix == 16 {
                    lit.strip_prefix("0x").and_then(|h| u64::from_str_radix(h, 16).ok()).map(|v| v as f64)
                } else {
                    lit.parse::<f64>().ok()
                };
                match val {
                    Some(v) if v == num.value.0 || (v.is_nan() && num.value.0.is_nan()) => {}
                    _ => {
                        out.fails.push(("number-value".into(), format!("Number token text {:?} does not denote its value {}", s, num.value.0), inp()));
                        return;
                    }
                }
                out.counts.push("number-checked".into());
            }
            _ => {}
        }
    }
    if plain && cursor != src.len() {
        out.fails.push(("not-tiling".into(), format!("plain English: tokens end at {} of {}", cursor, src.len()), inp()));
    }
}

/// which condensing steps fired on this document (generator distribution)
fn doc_counts(src: &[char], toks: &[Token], out: &mut Out) {
    for t in toks {
        let len = t.span.end.saturating_sub(t.span.start);
        let txt: &[char] = if t.span.end <= src.len() && t.span.start <= t.span.end { &src[t.span.start..t.span.end] } else { &[] };
        match &t.kind {
            TokenKind::Word(_) => {
                if txt.contains(&'\'') || txt.contains(&'’') {
                    out.counts.push("doc:contraction".into());
                }
                if txt.len() >= 2 && txt.contains(&'.') && !txt.iter().any(|c| c.is_whitespace()) && txt.last() == Some(&'.') {
                    if txt.len() >= 4 && txt[1] == '.' { out.counts.push("doc:initialism".into()); } else { out.counts.push("doc:latin-or-short-initialism".into()); }
                }
                if txt.iter().any(|c| c.is_whitespace()) {
                    out.counts.push("doc:et-al".into());
                }
            }
            TokenKind::Punctuation(Punctuation::Ellipsis) if len >= 2 => out.counts.push("doc:ellipsis".into()),
            TokenKind::Punctuation(Punctuation::Quote(q)) => out.counts.push(if q.twin_loc.is_some() { "doc:quote-paired".into() } else { "doc:quote-unpaired".into() }),
            TokenKind::Number(n) if n.suffix.is_some() => out.counts.push("doc:number-suffix".into()),
            TokenKind::Space(n) if *n > len || txt.contains(&'\t') && txt.contains(&' ') => out.counts.push("doc:space-merged".into()),
            TokenKind::ParagraphBreak => out.counts.push("doc:parbreak".into()),
            _ => {}
        }
    }
}

/// K on the plain parser + O on the plain document
pub fn eval_plain(text: &str) -> Out {
    let mut out = Out { k: vec![], fails: vec![], counts: vec![], monitors: vec![], nontrivial: None };
    let src: Vec<char> = text.chars().collect();
    let r = guarded(|| PlainEnglish.parse(&src));
    let mut r_ext: Option<String> = None;
    match r {
        Err(_) => {
            out.k.push((format!("lex | {} | ", text_field(&src)), "panic".into()));
            out.k.push((format!("lexfull | {}", text_field(&src)), "panic".into()));
            out.fails.push(("panic".into(), "PlainEnglish::parse panicked".into(), json!({"frontend": "plaintext", "text": text})));
        }
        Ok(toks) => {
            r_ext = Some(ext_field(&toks));
            let op = format!("lex | {} | {}", text_field(&src), ext_field(&toks));
            let imp = format!("ok {}", toks_show(&toks)).trim_end().to_string();
            // assumption monitor: external lexers stay inside the text and consume ≥ 1 char
            for t in &toks {
                if matches!(t.kind, TokenKind::Url | TokenKind::EmailAddress | TokenKind::Hostname) {
                    out.monitors.push(("ExtOK(url/email/hostname lexers in bounds)".into(), t.span.start < t.span.end && t.span.end <= src.len()));
                }
            }
            let kinds: std::collections::BTreeSet<String> = toks.iter().map(|t| kind_tag(&t.kind).split(|c: char| c.is_ascii_digit() || c == ':' || c == '.').next().unwrap_or("").to_string()).collect();
            for k in &kinds {
                out.counts.push(format!("lexer:{}", k));
            }
            if kinds.len() >= 3 {
                out.nontrivial = Some(op.clone());
            }
            // the same token stream against the model with the url / e-mail / hostname lexers
            // computed by the model itself (no table handed over)
            out.k.push((format!("lexfull | {}", text_field(&src)), imp.clone()));
            for t in &toks {
                match t.kind {
                    TokenKind::Url => out.counts.push("ext:url".into()),
                    TokenKind::EmailAddress => out.counts.push("ext:email".into()),
                    TokenKind::Hostname => out.counts.push("ext:hostname".into()),
                    _ => {}
                }
            }
            out.k.push((op, imp));
            check_tokens("plaintext(parser)", text, &src, &toks, true, &mut out);
        }
    }
    // final Document tokens (after the condense passes): K against the model of `Document::parse`
    let dict = FstDictionary::curated();
    let ext = match &r_ext { Some(e) => e.clone(), None => String::new() };
    let dop = format!("doc | {} | {}", text_field(&src), ext);
    // the same pipeline with NOTHING handed over: the model's own url / e-mail / hostname lexers
    // compute the table (`documentFull`, the definition `documentFull_tiles` is about)
    let dfop = format!("docfull | {}", text_field(&src));
    match guarded(|| Document::new(text, &PlainEnglish, &dict)) {
        Ok(doc) => {
            let toks = doc.get_tokens();
            let dimp = format!("ok {}", toks_show(toks)).trim_end().to_string();
            out.k.push((dfop, dimp.clone()));
            for t in toks {
                match t.kind {
                    TokenKind::Url => out.counts.push("docfull:url".into()),
                    TokenKind::EmailAddress => out.counts.push("docfull:email".into()),
                    TokenKind::Hostname => out.counts.push("docfull:hostname".into()),
                    _ => {}
                }
            }
            out.k.push((dop, dimp));
            doc_counts(&src, toks, &mut out);
            check_source("plaintext", text, doc.get_source(), &mut out);
            check_tokens("plaintext", text, doc.get_source(), toks, true, &mut out);
        }
        Err(_) => {
            out.k.push((dfop, "panic".into()));
            out.k.push((dop, "panic".into()));
            out.fails.push(("panic".into(), "Document::new panicked".into(), json!({"frontend": "plaintext", "text": text})));
        }
    }
    out
}

/// O on one wrapped front-end
pub fn eval_front(id: &str, ilt: bool, wrap: Wrap, text: &str) -> Out {
    let mut out = Out { k: vec![], fails: vec![], counts: vec![], monitors: vec![], nontrivial: None };
    let Some(parser) = frontends::wrapped(id, ilt, wrap) else {
        out.monitors.push((format!("frontend-constructible:{}", id), false));
        return out;
    };
    let dict = FstDictionary::curated();
    let name = format!("{}{}{}", id, if ilt { "+ilt" } else { "" }, match wrap { Wrap::None => "", Wrap::Collapse => "+collapse", Wrap::Isolate => "+isolate" });
    match guarded(|| Document::new(text, &parser, &dict)) {
        Ok(doc) => {
            out.counts.push(format!("front:{}", id));
            check_source(&name, text, doc.get_source(), &mut out);
            check_tokens(&name, text, doc.get_source(), doc.get_tokens(), false, &mut out);
        }
        Err(_) => out.counts.push("front-panicked(C01's business)".into()),
    }
    out
}

/// alphabet of the second exhaustive stream (url / e-mail / hostname lexers)
pub const EXT_ALPHABET: [char; 14] = ['a', '1', '.', '-', '@', ':', '/', '%', '"', ' ', '+', '_', 'A', 'é'];

/// curated inputs for `lex_url`, `lex_email_address`, `lex_hostname_token`
pub fn ext_corpus() -> Vec<String> {
    let mut v: Vec<String> = [
        "http://a.b/c?d=e#f", "ftp://user:pw@host:80/x", "mailto:x@y.z", "a@b", "a.b.c@d.e", "\"quoted\"@x.y", "x@[1.2.3.4]", "a..b@c.d",
        "http://", "http:///", "http://a@", "://x", "a:b", "www.example.com.", "www.example.com", "-a.b", "a-.b", "a.b-", "a.b.", "a.b..", "a..b", "a.", ".a.b", "a.b",
        "%zz", "%41", "http://a.b/%zz", "http://a.b/%41", "http://a.b/%4", "http://a.b/%", "http://a.b/x%41y/%4g", "http://u%41@h.c/", "http://u%4@h.c/",
        "http://abc:80/x", "http://127.0.0.1:80/x", "http://127.0.0.1:80", "http://1:2", "http://12:", "http://a.b:", "http://a.b:/x", "http://u@a.b:80/x", "http://u@12:80/x",
        "http://u;p?q&r=s@h.c/x", "http://u:p@h.c/x", "http://u:@h.c/x", "http://:p@h.c/x", "http://@h.c/x", "http://u@/x", "http://u@", "http://u@-h", "http://u v@h.c",
        "http://a.b//c", "http://a.b/c//", "http://a.b/c d", "http://a.b/c\"d", "http://a.b/c/\"d", "http:///x", "http:////", "http://a.b/é", "http://é.b/x", "http://a.b/(x),y!z*'$_+",
        "h+t.p-1://a", "1://a", "+://a", "ht_tp://a.b", "ht tp://a.b", "http:/a.b", "http:a.b", "http//a.b", ":", "::", "://", ":///", "a:://b", "a://b://c", "x y://a.b",
        "\"\"@x.y", "\"@x.y", "\"a@x.y", "a\"@x.y", "\"a\"b\"@x.y", "\"a\\\"b\"@x.y", "\"a\\\"@x.y", "\"\\\"@x.y", "\"a b(),:;<>@[]\"@x.y", "\"a\tb\"@x.y", "\"é\"@x.y",
        "\"a\\\tb\"@x.y", "\"a\\\\\"@x.y", "\"a\\\\b\"@x.y", "\"\\\"\\\"\"@x.y", "\"a\\\"@x.y z", "\"\\\"@x.y", "\"\\a\\b\"@x.y", "\"a\\\n\"@x.y", "\"a\\\"\tb\"@x.y", "\"a\\\t\"b\"@x.y",
        ".a@b.c", "a.@b.c", "a.b@c", "é@b.c", "a@é.c", "a@b@c.d", "a b@c.d", "a@b c@d", "a@", "@b", "@", "@@", "a@@b", "a@-b", "a@b-", "a@b.", "a@b..c", "a@.b", "a@1", "a@b:80",
        "!#$%&'*+-/=?^_`{|}~@b.c", "a(b@c.d", "a,b@c.d", "mailhost!username@example.org", "user%example.com@example.org", "name/surname@example.com",
        "1.2.3.4", "1.2", "1.a", "a.1", "a-b.c-d", "a--b.c", "a_b.c", "A.B", "a.b/c", "a.b:c", "a.b@", "e.g.", "i.e.", "x.y.z.", "x.y.z-", "-.a", "a.-", "a.-.b",
    ]
    .iter()
    .map(|s| s.to_string())
    .collect();
    // long hosts / local parts (the 64-character limit of the local part, 300-character hosts)
    for n in [1usize, 2, 63, 64, 65, 66, 300] {
        let a = "a".repeat(n);
        v.push(format!("{}@b.c", a));
        v.push(format!("\"{}\"@b.c", a));
        v.push(format!("x@{}.{}", a, a));
        v.push(format!("{}.{}", a, a));
        v.push(format!("{}.{}.", a, a));
        v.push(format!("http://{}.{}/{}", a, a, a));
        v.push(format!("{}://{}", a, a));
    }
    let lbl = "ab-1".repeat(15);
    v.push(format!("{0}.{0}.{0}.{0}.{0}", lbl));
    v.push(format!("{0}.{0}.{0}.{0}.{0}.", lbl));
    v.push(format!("x@{0}.{0}.{0}.{0}.{0}", lbl));
    v
}

/// structured random look-alikes: pieces of urls / addresses / hosts glued with hostile separators
pub fn ext_text(rng: &mut Rng) -> String {
    const PIECES: &[&str] = &[
        "http", "https", "ftp", "mailto", "a", "b", "ab", "x1", "1", "12", "80", "127.0.0.1", "example", "com", "www", "user", "pw", "A", "Zz", "é", "ß", "中",
        "://", ":", "//", "/", "@", ".", "..", "-", "--", "+", "_", "%", "%41", "%4", "%zz", "%aF", "?", "=", "&", "#", ";", "\"", "\\", " ", " ", "\n", "\t",
        "(", ")", ",", "!", "*", "'", "$", "[", "]", "<", ">", "~", "`", "{", "}", "|", "^",
    ];
    const SHAPES: &[&str] = &[
        "S://H/P", "S://U@H/P", "S://U:W@H:N/P", "S://H:N/P", "S://N.N.N.N:N/P", "U@H", "\"Q\"@H", "U.U@H.H", "H.H.H", "H.H.", "H-.H", "S:P", "S://U@", "S:///P", "U@H U@H", "S://H U@H",
    ];
    let mut out = String::new();
    let nparts = rng.range(1, 3);
    for i in 0..nparts {
        if i > 0 {
            out.push_str(*rng.pick::<&str>(&[" ", " ", ", ", "\n", ".", ". ", ":", "@", "/", ""]));
        }
        if rng.chance(1, 3) {
            // free gluing of pieces
            let n = rng.range(1, 9);
            for _ in 0..n {
                out.push_str(*rng.pick::<&str>(PIECES));
            }
        } else {
            let word = |rng: &mut Rng, extra: &[&str]| -> String {
                let n = rng.range(0, 3);
                let mut w = String::new();
                for _ in 0..n {
                    if rng.chance(1, 4) && !extra.is_empty() {
                        w.push_str(*rng.pick::<&str>(extra));
                    } else {
                        w.push_str(*rng.pick::<&str>(&["a", "b", "ab", "x1", "1", "12", "A", "example", "www", "com", "e"]));
                    }
                }
                w
            };
            for c in rng.pick::<&str>(SHAPES).chars() {
                match c {
                    'S' => out.push_str(&word(rng, &["+", "-", ".", "_", " ", "é"])),
                    'H' => out.push_str(&word(rng, &["-", ".", "_", "é", ":"])),
                    'U' | 'W' => out.push_str(&word(rng, &[";", "?", "&", "=", "%41", "%4", "%", ".", "..", "!", "$", "é", " ", "\"", "+", "-", "_"])),
                    'Q' => out.push_str(&word(rng, &[" ", "\\", "\\\"", "\"", "(", ")", ",", ":", ";", "<", ">", "@", "[", "]", "é", "\t"])),
                    'N' => out.push_str(&word(rng, &["1", "80", "0", "a", ""])),
                    'P' => out.push_str(&word(rng, &["/", "//", "?", "=", "&", "#", "%41", "%4", "%zz", "%", "(", ")", ",", "!", "*", "'", "$", "_", "+", " ", "\"", "é", "<", "[", "~"])),
                    other => out.push(other),
                }
            }
        }
    }
    if rng.chance(1, 5) {
        // damage: drop or duplicate one character
        let mut cs: Vec<char> = out.chars().collect();
        if !cs.is_empty() {
            let at = rng.below(cs.len());
            if rng.chance(1, 2) {
                cs.remove(at);
            } else {
                let c = cs[at];
                cs.insert(at, c);
            }
        }
        out = cs.into_iter().collect();
    }
    out
}

/// K + O on the three lexers called directly on one slice (see `lexdirect.rs`)
pub fn eval_ext_slice(text: &str) -> Out {
    let mut out = Out { k: vec![], fails: vec![], counts: vec![], monitors: vec![], nontrivial: None };
    let src: Vec<char> = text.chars().collect();
    let op = format!("extlex | {}", chars_field(&src));
    let inp = json!({"ext_slice": text});
    match crate::lexdirect::extlex(&src) {
        Err(e) => {
            out.k.push((op, "panic".into()));
            out.fails.push(("ext-lexer-panic".into(), format!("url / e-mail / hostname lexer panicked on a slice: {}", e), inp));
        }
        Ok(r) => {
            let names = ["lex_url", "lex_email_address", "lex_hostname_token", "lex_hostname"];
            let mut fired = 0;
            for (i, x) in r.iter().enumerate() {
                if let Some(n) = x {
                    fired += 1;
                    out.counts.push(format!("direct:{}:some", names[i]));
                    if *n < 1 || *n > src.len() {
                        out.fails.push(("ext-lexer-out-of-bounds".into(), format!("{} returned {} on a slice of length {}", names[i], n, src.len()), inp.clone()));
                    }
                }
            }
            if fired >= 2 {
                out.nontrivial = Some(op.clone());
            }
            out.k.push((op, crate::lexdirect::extlex_show(&r)));
        }
    }
    out
}

pub fn merge(sess: &mut Session, o: Out) {
    let mut case = None;
    for (op, imp) in &o.k {
        case = Some(sess.k(op, imp));
    }
    if o.k.is_empty() {
        sess.o();
    }
    for c in &o.counts {
        sess.count(c);
    }
    for (m, held) in &o.monitors {
        sess.monitor(m, *held);
    }
    if let Some(n) = &o.nontrivial {
        sess.nontrivial(n);
    }
    for (class, desc, input) in o.fails {
        sess.fail(&class, desc, input, case);
    }
}

pub fn run(ctx: &Ctx) {
    let mut sess = Session::new(ctx);
    let mut rng = Rng::new(ctx.seed);
    if let Some(v) = replay_input(ctx) {
        let text = v["text"].as_str().unwrap_or("").to_string();
        let front = v["frontend"].as_str().unwrap_or("plaintext").to_string();
        let o = if let Some(sl) = v["ext_slice"].as_str() {
            eval_ext_slice(sl)
        } else if let Some(o) = w25_replay(&front, &text) {
            o
        } else if let Some(o) = crate::c02md::replay(&front, &text) {
            o
        } else if let Some(o) = crate::c02typst::replay(&front, &text) {
            o
        } else if front.starts_with("plaintext") {
            eval_plain(&text)
        } else {
            let id = front.split('+').next().unwrap().to_string();
            let wrap = if front.contains("+collapse") { Wrap::Collapse } else if front.contains("+isolate") { Wrap::Isolate } else { Wrap::None };
            eval_front(&id, front.contains("+ilt"), wrap, &text)
        };
        merge(&mut sess, o);
        sess.nontrivial("replay-a");
        sess.nontrivial("replay-b");
        sess.finish("replay of one recorded input", false, json!({}));
        return;
    }
    // --- inputs -------------------------------------------------------------------------
    let mut plain_inputs: Vec<String> = vec![];
    // 1. corpus: witnesses of past findings and lexer corner cases
    for s in [
        "See e.g.", "e.g. foo", "2stuff", "et al. said", "Et Al.", " \t ", "\t\t  \t", "1980st", "1980s.", "0x", "0x1G", "0xFFFFFFFFFFFFFFFFF",
        "et \n al.", "et\t al. ETC. vS. etc .", "a.b.c. d.e.", "a.b.c", "I.e.", "x. y.", "a'b'c'd'e", "a''b", "'a'b", "1st 2ND 3rd 4tH 5stx 0x1Fst 1.5th", "1 st", "....", ". .. ... a...b",
        " \t \t \t", "\t \t", "  \t\t  ", "\n \n\n \n", "\n\n\n\n", "\"a\" “b” \"c", "\"\"\"", "1st.2nd", "N.S.A. etc. et al. 1st... \"q\"",
        "1.14.4. and 5", "I have 5.\n\n3", "a's 5's O'Neil's", "[a-z0-9] [a-z [a-] [ab]", "a'b'c'd", "....", ". . ..", "\"a\" \"b", "1e999$",
        "http://a.b/c user@x.y www.a.b. a.b", "1000000000000011th", "12345678901234567890 123456789012345.678901234567890", "0.000000000000000000001e10 1e-320 9007199254740993", "x:y //", "٣1 ½ 1½", "1.e5 1e+5 1e 1.", "İstanbul ﬁ ß", "don’t", "\n\n\n", "", " ",
    ] {
        plain_inputs.push(s.to_string());
    }
    for s in textgen::SPICE {
        plain_inputs.push(s.to_string());
        plain_inputs.push(format!("a {} b", s));
    }
    // 1b. url / e-mail / hostname lexers: curated corner cases (each alone, inside a sentence,
    // and followed by a later `@` / `:` since the lexers scan the whole rest of the text)
    for s in ext_corpus() {
        plain_inputs.push(format!("see {} now", s));
        plain_inputs.push(format!("{} then x@y.z or b://c", s));
        plain_inputs.push(format!("({}).", s));
        plain_inputs.push(s);
    }
    // 2. exhaustive small scope: all strings of length ≤ 4 (quick) / ≤ 5 (thorough) over a hostile alphabet
    let alpha: Vec<char> = vec!['a', '1', '.', '\'', ' ', '\t', '\n', 's', '0', 'x', '[', ']', '-', 'e'];
    let maxlen = if ctx.tier == Tier::Thorough { 5 } else { 4 };
    let n = alpha.len();
    for len in 1..=maxlen {
        let total = n.pow(len as u32);
        for code in 0..total {
            let mut c = code;
            let mut s = String::new();
            for _ in 0..len {
                s.push(alpha[c % n]);
                c /= n;
            }
            plain_inputs.push(s);
        }
    }
    // 2b. second exhaustive scope, aimed at the url / e-mail / hostname lexers
    let alpha2: Vec<char> = EXT_ALPHABET.to_vec();
    let n2 = alpha2.len();
    for len in 1..=maxlen {
        let total = n2.pow(len as u32);
        for code in 0..total {
            let mut c = code;
            let mut s = String::new();
            for _ in 0..len {
                s.push(alpha2[c % n2]);
                c /= n2;
            }
            plain_inputs.push(s);
        }
    }
    // 2c. third exhaustive stream, for the condensing passes: all sequences of ≤ 4 (quick) / ≤ 5
    // (thorough) PIECES, so that initialisms `a.b.`, contractions `a'b'a`, `et al.`, `etc.`, `1st`,
    // `...`, merged blanks, paragraph breaks and quotes are all reached and combined
    let pieces: Vec<&str> = vec!["a", "b", ".", "'", " ", "\t", "\n", "et", "al", "etc", "Vs", "1", "st", "\"", "nD", "I"];
    let np = pieces.len();
    for len in 1..=maxlen {
        let total = np.pow(len as u32);
        for code in 0..total {
            let mut c = code;
            let mut s = String::new();
            for _ in 0..len {
                s.push_str(pieces[c % np]);
                c /= np;
            }
            plain_inputs.push(s);
        }
    }
    let n_exh = plain_inputs.len();
    // 3b. structured random url / e-mail / hostname look-alikes
    let next = if ctx.tier == Tier::Thorough { 40000 } else { 6000 };
    for _ in 0..next {
        plain_inputs.push(ext_text(&mut rng));
    }
    // 3. structured random + malformed
    let nrand = if ctx.tier == Tier::Thorough { 40000 } else { 6000 };
    for _ in 0..nrand {
        plain_inputs.push(textgen::text(&mut rng));
    }
    let outs = par_map(plain_inputs.len(), 16, |i| eval_plain(&plain_inputs[i]));
    for (i, o) in outs.into_iter().enumerate() {
        if i >= n_exh && i < n_exh + 3 {
            sess.sample(json!({"plain_text": trunc(&plain_inputs[i], 200)}));
        }
        merge(&mut sess, o);
    }
    // --- K + O on lex_url / lex_email_address / lex_hostname_token called directly -------
    // (arbitrary slices: also those that an earlier lexer of lex_token would take first)
    let mut slices: Vec<String> = vec![];
    for s in ext_corpus() {
        let cs: Vec<char> = s.chars().collect();
        for i in 0..cs.len() {
            if i < 12 || cs.len() - i < 12 {
                slices.push(cs[i..].iter().collect());
            }
        }
        slices.push(format!("{} x@y.z b://c", s));
    }
    for len in 1..=maxlen {
        let total = n2.pow(len as u32);
        for code in 0..total {
            let mut c = code;
            let mut s = String::new();
            for _ in 0..len {
                s.push(alpha2[c % n2]);
                c /= n2;
            }
            slices.push(s);
        }
    }
    let nslice = if ctx.tier == Tier::Thorough { 60000 } else { 10000 };
    for _ in 0..nslice {
        let t: Vec<char> = ext_text(&mut rng).chars().collect();
        let at = if rng.chance(1, 2) { 0 } else { rng.below(t.len() + 1) };
        slices.push(t[at..].iter().collect());
    }
    let outs = par_map(slices.len(), 16, |i| eval_ext_slice(&slices[i]));
    for (i, o) in outs.into_iter().enumerate() {
        if i % 9973 == 0 {
            sess.sample(json!({"ext_slice": trunc(&slices[i], 120)}));
        }
        merge(&mut sess, o);
    }
    // --- K: the f64 literal recogniser the number lexer relies on (`str::parse::<f64>`) ----
    {
        let alpha: Vec<char> = vec!['1', '0', '.', 'e', 'E', '+', '-', 'i', 'n', 'f', 'a', 'N', 't', 'y', ' '];
        let maxlen = if ctx.tier == Tier::Thorough { 5 } else { 4 };
        let n = alpha.len();
        let mut cands: Vec<String> = vec!["inf".into(), "Infinity".into(), "+infinity".into(), "-NaN".into(), "nan".into(), "infinit".into(), "1e+5".into(), "1.e-5".into(), ".e5".into(), "1e".into(), "++1".into(), "1_0".into(), "0x10".into(), "１".into(), "".into()];
        for len in 1..=maxlen {
            for code in 0..n.pow(len as u32) {
                let mut c = code;
                let mut s = String::new();
                for _ in 0..len {
                    s.push(alpha[c % n]);
                    c /= n;
                }
                cands.push(s);
            }
        }
        for s in cands {
            let cs: Vec<char> = s.chars().collect();
            let ok = s.parse::<f64>().is_ok();
            sess.k(&format!("f64 | {}", chars_field(&cs)), if ok { "ok 1" } else { "ok 0" });
            sess.count(if ok { "f64:accepted" } else { "f64:rejected" });
        }
    }
    // --- O on every front-end ------------------------------------------------------------
    let ids = frontends::language_ids();
    sess.add("frontends", ids.len() as u64);
    let per_front = if ctx.tier == Tier::Thorough { 400 } else { 60 };
    let mut jobs: Vec<(String, bool, Wrap, String)> = vec![];
    for id in &ids {
        if frontends::parser_for(id, false).is_none() {
            sess.monitor(&format!("frontend-known:{}", id), false);
            continue;
        }
        for j in 0..per_front {
            let prose = { let p = textgen::prose(&mut rng); if rng.chance(1, 2) { textgen::mutate(&mut rng, &p) } else { p } };
            let mut text = frontends::embed(id, &prose, j);
            if rng.chance(1, 4) {
                text = textgen::mutate(&mut rng, &text);
            }
            let wrap = match j % 6 { 4 => Wrap::Collapse, 5 => Wrap::Isolate, _ => Wrap::None };
            jobs.push((id.clone(), j % 2 == 1, wrap, text));
        }
        // corpus per front-end: the masked-markup condensation witness
        jobs.push((id.clone(), false, Wrap::None, frontends::embed(id, "Scott</p><b title=\"x\">'There is", 0)));
    }
    for (ext, content) in crate::corpus::fixtures() {
        let id = match ext.as_str() {
            "md" => "markdown", "rs" => "rust", "js" => "javascript", "ts" => "typescript", "tsx" => "typescriptreact", "jsx" => "javascriptreact",
            "c" | "h" => "c", "cpp" => "cpp", "cs" => "csharp", "go" => "go", "java" => "java", "lua" => "lua", "py" => "python", "rb" => "ruby",
            "sh" => "shellscript", "swift" => "swift", "toml" => "toml", "nix" => "nix", "php" => "php", "dart" => "dart", "scala" => "scala",
            "hs" => "haskell", "cmake" => "cmake", "html" => "html", "typ" => "typst", "lhs" => "lhaskell", _ => "plaintext",
        };
        jobs.push((id.to_string(), false, Wrap::None, content.clone()));
    }
    let outs = par_map(jobs.len(), 16, |i| eval_front(&jobs[i].0, jobs[i].1, jobs[i].2, &jobs[i].3));
    for (i, o) in outs.into_iter().enumerate() {
        if i % 397 == 0 {
            sess.sample(json!({"frontend": jobs[i].0, "text": trunc(&jobs[i].3, 160)}));
        }
        merge(&mut sess, o);
    }
    // --- K: the Markdown parser's own logic and the two wrapper parsers (c02md.rs) ---------
    crate::c02md::run_into(&mut sess, ctx, &mut rng);
    // --- K: the Typst translator's own logic and the HTML Space clamp (c02typst.rs) --------
    crate::c02typst::run_into(&mut sess, ctx, &mut rng);
    // --- w25: call sites, configurations and text families no stream above goes through -------
    w25_streams(&mut sess, ctx, &mut rng);
    sess.finish(
        "K: PlainEnglish::parse vs the Lean lexer model, every text twice: op `lex` (url/e-mail/hostname tokens handed to the model as a table) and op `lexfull` (those three lexers computed by the model, nothing handed over), and Document::new(text, &PlainEnglish, dict).get_tokens() vs the Lean model of Document::parse (every text twice: op `doc` — all condensing passes, quote twins, number suffixes, the real lexers' url / e-mail / hostname tokens handed over as a table — and op `docfull` — the same pipeline with those three lexers computed by the model, nothing handed over: the definition `documentFull` of the theorems), on (1) corpus of lexer corner cases incl. curated url / e-mail / hostname corner cases alone and embedded, (2) ALL strings of length ≤4 (quick) / ≤5 (thorough) over the alphabet {a,1,.,',space,tab,newline,s,0,x,[,],-,e} and over the alphabet {a,1,.,-,@,:,/,%,\",space,+,_,A,é}, and ALL sequences of ≤4 / ≤5 pieces from {a,b,.,',space,tab,newline,et,al,etc,Vs,1,st,\",nD,I}, (3) structured random texts (rule-test sentences mutated by truncation, spice splices, delimiter drops, long words, glued digits), random code points, and random url / address / host look-alikes; op `extlex`: lex_url / lex_email_address / lex_hostname_token / lex_hostname compiled from /repo and called directly on arbitrary slices (suffixes of the curated cases, ALL strings of length ≤4/5 over the second alphabet, random look-alikes), result lengths against the model and against 1 ≤ n ≤ slice length. O: the property's clauses (bounds, order, disjointness, zero-width only structural, plain tiling, per-kind shape, quote twins) on the final Document tokens of plain English and of every language id of the server's table (prose embedded in language-appropriate syntax, plus the repo's fixtures), also wrapped in CollapseIdentifiers / IsolateEnglish. K (c02md.rs): op `mdparse` / `wikiclean` — pulldown-cmark's real events (variant, byte range, text length; same Options as markdown.rs) + the text → the Lean model of Markdown::parse (event loop, traversed_bytes/chars, tag stack, inner PlainEnglish parse computed by the model, trailing-break pop, remove_hidden_wikilink_tokens, remove_wikilink_brackets) vs the real Markdown::new(opts).parse, both ignore_link_title settings: corpus (the parser's tests, wikilink witnesses, repo fixtures), ALL concatenations of ≤4 (quick) / ≤5 (thorough) of 16 markup pieces {a, space, newline, *, `, [, ], (x), #, `- `, é, |, `> `, <b>, $, backslash} (option off; ≤3/≤4 with the option on), ALL concatenations of ≤6 of {[[, ]], |, a, space, backslash, [b](x)} (option off; ≤5/≤6 with the option on), random generated Markdown files / markup soup / wikilink soup with multi-byte text; the hypotheses of the Markdown theorems (EventsOK) are monitors on every event list. Ops `collapse`, `isolate`, `isolatev` — the real CollapseIdentifiers / IsolateEnglish over PlainEnglish and Markdown vs the model, the inner tokens and the dictionary's answers (resp. the real is_likely_english verdict per chunk) handed over: ALL concatenations of ≤5/≤6 of 9 identifier pieces, all chunks of ≤9 known/unknown words × 3 tails, random identifier and mixed-language texts. K (c02typst.rs): op `typst` — the real typst_syntax::Source of every Typst text serialised by calling exactly the accessors typst_translator.rs calls (per Expr / Pattern / Arg / Param / ArrayItem / DictItem / DestructuringItem variant: the match arm, the byte range doc.range(span) gives or `-` for a detached node, the node text where the translator reads it, the accessor results as subtrees) + the text → the Lean model of harper_typst::Typst.parse (convert_parbreaks, parse_expr / parse_pattern arm by arm, def_token! / merge! / get_text!, OffsetCursor, inner PlainEnglish parse computed by the model) vs the real parser; op `typok` — the harness's Rust mirror of TreeOK / NoAlias / InOrder vs the model's own definitions; monitors on every real tree: TreeOK, in-bounds-when-TreeOK, sorted-when-InOrder: corpus (the repo's Typst fixtures, the recorded findings' witnesses), ALL concatenations of ≤4 (quick) / ≤5 (thorough) of the 20 pieces {`#let `, x, ` = `, (, ), [, ], *a*, _b_, `= H`, newline, `- i`, $x$, \"s\", #f, `: `, `, `, .., space, é}, every prefix of four realistic documents and (every 7th / every) prefix of the fixtures, random Typst markup / code soup / spliced documents. Ops `htmlclamp` / `htmlclampt` — the Space clamp of HtmlParser::parse on the tokens of the inner Mask parse (random HTML with runs of blanks and tabs). Op `htmlparse` — the whole HtmlParser::parse: text + the mask the real TreeSitterMasker computes → the model's maskParse with its own PlainEnglish + clamp vs the real parser (HTML fixtures and corner cases, ALL concatenations of ≤4/≤5 of 11 HTML pieces, random HTML); `typok` carries a fourth field RangesSolid and is also run on synthetic trees (one range of a real tree emptied). W25: O (+ K where the text goes through `eval_plain`) on text families (CRLF / lone CR, whitespace-only, fullwidth, astral, combining, very long words / numbers / documents, one construct repeated many times) in plain English and in every front-end; every `Document` constructor and `Document::default()`; `StrParser::parse_str`; `CommentParser::new_from_filename` per file extension; the server's parser composition of harper-ls `update_document` (file dictionary = curated + user words, identifier dictionary from `create_ident_dict` of the comment / Literate Haskell parser, CollapseIdentifiers over it, IsolateEnglish over that) per language id; every front-end and both wrappers under an empty dictionary, a merged dictionary with user words harvested from the text (identifiers, case variants, apostrophes) and the identifier dictionary; the real `harper-cli parse <file>` executable's token stream per file extension (tokens deserialised, clauses on them against the file's text); `get_source()` = the text on every Document; a quote token's text is a quote character. Non-trivial = a plain text whose tokens have ≥3 distinct kinds; distinct by op line.",
        true,
        json!({"exhaustive_scope": format!("all strings of length ≤{} over each of two 14-character alphabets; all sequences of ≤{} pieces over 16 pieces", maxlen, maxlen), "language_ids": ids}),
    );
}

// =====================================================================================
// w25 — audit of oracles / call sites / generator dimensions against the property text.
// Everything below is oracle-only except the text families, which also go through
// `eval_plain` (ops `lex` / `lexfull` / `doc` / `docfull` the Lean driver already handles).
// =====================================================================================

/// clause "every token … lies inside THE TEXT": the Document's source is the text it was given
pub fn check_source(front: &str, text: &str, src: &[char], out: &mut Out) {
    if !text.chars().eq(src.iter().copied()) {
        out.fails.push(("source-differs".into(), format!("Document::get_source() ({} chars) is not the text given ({} chars)", src.len(), text.chars().count()), json!({"frontend": front, "text": text})));
    }
}

/// text families the quantifier ("all Unicode strings") names and no generator above writes on purpose
pub fn w25_family_texts(rng: &mut Rng, thorough: bool) -> Vec<(&'static str, String)> {
    let mut v: Vec<(&'static str, String)> = vec![];
    // CRLF and lone CR
    for s in [
        "\r", "\r\n", "\r\r", "\n\r", "\r\n\r\n", "a\rb", "a\r\nb", "a\r\n\r\nb", "e.g.\r\n", "See e.g.\r", "1st\r\n2nd\r3rd", "\"a\r\n\" b", "don't\r\nwon't\r", "et\r\nal.", "et al.\r\n",
        "x \r\n y", "x\t\r\n\ty", "...\r\n...", "a.\r\nb.\r\n", "\r\n \r\n", " \r ", "1.\r\n5", "0x1F\r\n", "http://a.b/c\r\nuser@x.y\r\n",
    ] {
        v.push(("crlf", s.to_string()));
    }
    // empty and whitespace-only documents (blank kinds the lexer knows and those it does not)
    for s in ["", " ", "  ", "\t", "\n", " \n", "\n ", " \n ", "\t\n\t", "\n\n", "\n\n\n\n\n", " \t \n \t ", "\u{a0}", "\u{a0} \u{a0}", "\u{2003}", "\u{3000}", " \u{3000} ", "\u{200b}", "\u{2028}", "\u{2029}", "\u{85}", "\u{b}\u{c}", "\u{feff}", "\u{feff} a"] {
        v.push(("blank-only", s.to_string()));
    }
    // fullwidth forms: digits, letters, punctuation, quotes, ideographic space
    for s in [
        "１２３", "１st", "1ｓｔ", "１ｓｔ", "ｅ．ｇ．", "e．g．", "ＡＢＣ　ｄｅｆ！", "＂a＂ ｂ", "a＇b", "ｄｏｎ＇ｔ", "０ｘ１Ｆ", "１．５", "ａ＠ｂ．ｃ", "ｈｔｔｐ：／／ａ．ｂ", "（ａ）［ｂ］｛ｃ｝", "ａ…ｂ", "a．．．b", "＄５ ５％", "「引用」『二重』", "。、・", "ﾊﾝｶｸ ｶﾅ",
    ] {
        v.push(("fullwidth", s.to_string()));
        v.push(("fullwidth", format!("See {} now.", s)));
    }
    // astral characters (one char, two UTF-16 units, four UTF-8 bytes) next to every construct
    for s in [
        "😀", "😀😀", "😀 😀", "a😀b", "😀.", "😀's", "e.g.😀", "😀e.g.", "1st😀", "😀1st", "😀\"q\"😀", "𝒜𝒷𝒸 𝓭𝓮𝓯", "𝟙𝟚st 𝟛rd", "𝟏.𝟓", "👨‍👩‍👧 family", "🇩🇪 flag", "👍🏽 ok", "𐐷𐐯 word", "𠀋 han", "😀...😀", "😀\n\n😀", "😀\t 😀", "et😀al.", "http://a.b/😀 x@😀.y", "0x😀 0x1F😀",
    ] {
        v.push(("astral", s.to_string()));
        v.push(("astral", format!("😀 {} 𝒜", s)));
    }
    // combining marks, joiners, bidi controls inside and next to words / numbers / punctuation
    for s in [
        "e\u{301}", "e\u{301}.g\u{301}.", "cafe\u{301}'s", "1\u{301}st", "1st\u{301}", "a\u{308}\u{323}b", "\u{301}", "\u{301}a", " \u{301} ", ".\u{301}", "\"\u{301}a\"", "a\u{200d}b", "a\u{200c}b", "a\u{ad}b", "don\u{301}'t", "\u{202e}abc\u{202c}", "क्षि नमस्ते", "ก็ไทย", "한\u{1161}글", "Z\u{351}\u{36b}a\u{350}lgo",
    ] {
        v.push(("combining", s.to_string()));
        v.push(("combining", format!("An {} item.", s)));
    }
    // very long words / numbers / documents
    for n in [257usize, 1000, if thorough { 20000 } else { 3000 }] {
        v.push(("long", "a".repeat(n)));
        v.push(("long", format!("{}th", "7".repeat(n.min(1200)))));
        v.push(("long", format!("0x{}", "f".repeat(n.min(1200)))));
        v.push(("long", format!("{}.{}", "1".repeat(n.min(600)), "2".repeat(n.min(600)))));
        v.push(("long", format!("{}'{}", "b".repeat(n / 2), "c".repeat(n / 2))));
        v.push(("long", " ".repeat(n)));
        v.push(("long", "\n".repeat(n)));
        v.push(("long", ".".repeat(n)));
        v.push(("long", "é😀".repeat(n / 2)));
        v.push(("long", format!("{}@{}.{}", "u".repeat(n.min(500)), "h".repeat(n.min(500)), "c".repeat(n.min(500)))));
    }
    {
        let mut doc = String::new();
        let target = if thorough { 40000 } else { 6000 };
        while doc.len() < target {
            doc.push_str(&textgen::prose(rng));
            doc.push_str(*rng.pick::<&str>(&[" ", "\n", "\n\n", "\r\n", " 😀 "]));
        }
        v.push(("long", doc));
    }
    // one construct many times in one document (every condensing pass with many hits at once)
    for (piece, seps) in [
        ("e.g.", &[" ", ", ", "\n"][..]), ("N.S.A.", &[" ", "", "\n\n"]), ("1st", &[" ", ", ", ".", "\n"]), ("22ND", &[" ", "/"]), ("don't", &[" ", "'", "\n"]), ("et al.", &[" ", ", "]), ("etc.", &[" "]), ("vs.", &[" x "]),
        ("...", &[" ", "a", "\n"]), ("\"q\"", &[" ", "", "\n\n"]), ("“q”", &[" "]), ("'", &[" ", "a"]), (" \t ", &["a", "."]), ("\n\n", &["a", " ", "."]), ("a.", &["", " "]), ("0x1F", &[" ", "st "]), ("1.5", &[" ", "."]), ("x@y.z", &[" ", ","]), ("http://a.b", &[" ", "\n"]), ("a.b", &[" ", "."]), ("1980s", &[" ", "t "]), ("😀", &["", " "]),
    ] {
        for sep in seps {
            for n in [2usize, 3, 7, if thorough { 200 } else { 40 }] {
                let mut s = String::new();
                for i in 0..n {
                    if i > 0 {
                        s.push_str(sep);
                    }
                    s.push_str(piece);
                }
                v.push(("repeated", s.clone()));
                v.push(("repeated", format!("{}{}", s, sep)));
            }
        }
    }
    // random mixtures of the families' pieces
    const MIX: &[&str] = &[
        "\r\n", "\r", "\n", " ", "\t", "\u{a0}", "\u{3000}", "\u{200b}", "😀", "𝒜", "𝟙", "１", "ｓｔ", "st", "nd", "1", "22", "e", ".", "g", "．", "'", "＇", "’", "\"", "＂", "“", "”", "\u{301}", "\u{200d}", "a", "é", "ß", "İ", "et", "al", "etc", "vs", "0x", "F", "@", ":", "/", "-", "_", "…", "...", "!", "？", "％",
    ];
    for _ in 0..(if thorough { 20000 } else { 2500 }) {
        let n = rng.range(1, 12);
        let mut s = String::new();
        for _ in 0..n {
            s.push_str(*rng.pick::<&str>(MIX));
        }
        v.push(("mix", s));
    }
    v
}

#[derive(Clone, Copy, PartialEq, Eq, Debug)]
pub enum DictKind {
    Empty,
    UserMerged,
    Ident,
}

impl DictKind {
    fn tag(self) -> &'static str {
        match self {
            DictKind::Empty => "empty",
            DictKind::UserMerged => "user",
            DictKind::Ident => "ident",
        }
    }
    fn from_tag(s: &str) -> DictKind {
        match s {
            "empty" => DictKind::Empty,
            "ident" => DictKind::Ident,
            _ => DictKind::UserMerged,
        }
    }
}

/// user words harvested from the text itself: identifiers (`a_b`, `a-b`, `a_b-c`), words with
/// apostrophes, and case variants of plain words — what a user adds to a personal dictionary
pub fn harvest_user_words(text: &str) -> Vec<String> {
    let cs: Vec<char> = text.chars().collect();
    let mut words: Vec<String> = vec![];
    let mut i = 0;
    let is_w = |c: char| c.is_alphanumeric();
    while i < cs.len() {
        if is_w(cs[i]) {
            let mut j = i;
            // a run of word characters joined by single `_` `-` `'` `’`
            while j < cs.len() && (is_w(cs[j]) || (matches!(cs[j], '_' | '-' | '\'' | '’') && j + 1 < cs.len() && is_w(cs[j + 1]) && j > i)) {
                j += 1;
            }
            let w: String = cs[i..j].iter().collect();
            if w.chars().count() <= 40 {
                if w.contains(['_', '-', '\'', '’']) {
                    words.push(w.clone());
                    // the first two parts only (a shorter identifier inside a longer one)
                    let parts: Vec<&str> = w.split(['_', '-']).collect();
                    if parts.len() >= 3 {
                        let sep = w.chars().find(|c| matches!(c, '_' | '-')).unwrap();
                        words.push(format!("{}{}{}", parts[0], sep, parts[1]));
                    }
                } else if words.len() % 5 == 0 {
                    words.push(w.to_uppercase());
                    words.push(w.to_lowercase());
                }
            }
            i = j.max(i + 1);
        } else {
            i += 1;
        }
    }
    words.sort();
    words.dedup();
    words.truncate(64);
    words
}

fn w25_dict(kind: DictKind, text: &str) -> std::sync::Arc<dyn harper_core::Dictionary> {
    use harper_core::{MergedDictionary, MutableDictionary, WordMetadata};
    use std::sync::Arc;
    match kind {
        DictKind::Empty => Arc::new(MutableDictionary::new()),
        DictKind::Ident => crate::c02md::ident_dict(),
        DictKind::UserMerged => {
            let mut user = MutableDictionary::new();
            for w in harvest_user_words(text) {
                user.append_word_str(&w, WordMetadata::default());
            }
            let mut m = MergedDictionary::new();
            m.add_dictionary(FstDictionary::curated());
            m.add_dictionary(Arc::new(user));
            Arc::new(m)
        }
    }
}

fn is_plain_id(id: &str) -> bool {
    matches!(id, "mail" | "plaintext" | "text")
}

/// O: one front-end, optionally wrapped, under a dictionary that is NOT the curated one
/// (the wrappers ask this dictionary; `Document::parse` reads word metadata from it)
pub fn eval_front_dict(id: &str, ilt: bool, wrap: Wrap, kind: DictKind, text: &str) -> Out {
    use harper_core::parsers::{CollapseIdentifiers, IsolateEnglish};
    let mut out = Out { k: vec![], fails: vec![], counts: vec![], monitors: vec![], nontrivial: None };
    let Some(p) = frontends::parser_for(id, ilt) else { return out };
    let dict = w25_dict(kind, text);
    let parser: Box<dyn Parser> = match wrap {
        Wrap::None => p,
        Wrap::Collapse => Box::new(CollapseIdentifiers::new(p, Box::new(dict.clone()))),
        Wrap::Isolate => Box::new(IsolateEnglish::new(p, dict.clone())),
    };
    let name = format!("{}{}{}+dict={}", id, if ilt { "+ilt" } else { "" }, match wrap { Wrap::None => "", Wrap::Collapse => "+collapse", Wrap::Isolate => "+isolate" }, kind.tag());
    match guarded(|| Document::new(text, &parser, &dict)) {
        Ok(doc) => {
            out.counts.push(format!("w25:dict={}{}", kind.tag(), match wrap { Wrap::None => "", Wrap::Collapse => "+collapse", Wrap::Isolate => "+isolate" }));
            let n_inner = guarded(|| Document::new(text, &frontends::parser_for(id, ilt).unwrap(), &dict)).map(|d| d.get_tokens().len()).unwrap_or(0);
            if wrap != Wrap::None && doc.get_tokens().len() != n_inner {
                out.counts.push(format!("w25:dict={}:wrapper-changed-tokens", kind.tag()));
            }
            check_source(&name, text, doc.get_source(), &mut out);
            // plain English (also under identifier collapsing, a condensing step over contiguous tokens) tiles
            let plain = is_plain_id(id) && wrap != Wrap::Isolate;
            check_tokens(&name, text, doc.get_source(), doc.get_tokens(), plain, &mut out);
            w25_md_reclass(&name, text, &mut out);
        }
        Err(_) => out.counts.push("front-panicked(C01's business)".into()),
    }
    out
}

/// a file of language `id` with identifiers DECLARED in the code and USED in the prose of the
/// comments, so that the server's identifier dictionary makes `CollapseIdentifiers` fire
pub fn embed_with_identifiers(id: &str, prose: &str, style: usize) -> String {
    const IDS: &[&str] = &["snake_case_name", "my_var", "x_1", "foo_bar_baz", "a_b", "HTTP_server", "é_ü", "r2_d2"];
    let a = IDS[style % IDS.len()];
    let b = IDS[(style / 2 + 3) % IDS.len()];
    let kebab = a.replace('_', "-");
    // … and the identifier cut at its first separator by markup the Markdown inside comments skips
    let (a0, a1) = a.split_once('_').unwrap_or((a, "x"));
    let talk = format!("{} Call {} with {} (not {}), {}'s {}_ _{} {}_{}. See [{}](http://e.x \"the title\")_{} and *{}*_{}.", prose, a, b, kebab, a, a, b, a, b, a0, a1, a0, a1);
    let decl = match id {
        "rust" => format!("fn {a}({b}: u8) {{ let {b} = 1; }}\n"),
        "go" => format!("package main\nfunc {a}({b} int) {{ }}\n"),
        "python" => format!("def {a}({b}):\n    {b} = 1\n"),
        "ruby" => format!("def {a}({b})\n  {b} = 1\nend\n"),
        "lua" => format!("local function {a}({b}) return {b} end\n"),
        "shellscript" => format!("{a}() {{ {b}=1; }}\n"),
        "toml" => format!("{a} = 1\n{b} = \"x\"\n"),
        "nix" => format!("{{ {a} = 1; {b} = 2; }}\n"),
        "cmake" => format!("set({a} 1)\nfunction({b})\nendfunction()\n"),
        "haskell" | "lhaskell" | "literate haskell" => format!("{a} :: Int -> Int\n{a} {b} = {b}\n"),
        "php" => format!("function {a}(${b}) {{ return ${b}; }}\n"),
        "scala" => format!("def {a}({b}: Int): Int = {b}\n"),
        "swift" => format!("func {a}({b}: Int) -> Int {{ return {b} }}\n"),
        "dart" | "c" | "cpp" | "csharp" | "java" => format!("int {a}(int {b}) {{ return {b}; }}\n"),
        _ => format!("function {a}({b}) {{ const {b}_2 = {b}; return {b}_2; }}\n"),
    };
    match id {
        "lhaskell" | "literate haskell" => {
            let code: String = decl.lines().map(|l| format!("> {}\n", l)).collect();
            match style % 2 {
                0 => format!("{}\n\n{}\n{}\n", talk, code, talk),
                _ => format!("{}\n\\begin{{code}}\n{}\\end{{code}}\n{}\n", talk, decl, talk),
            }
        }
        "php" => format!("<?php\n{}\n{}", frontends::embed(id, &talk, style).trim_start_matches("<?php\n"), decl),
        _ => format!("{}\n{}", frontends::embed(id, &talk, style), decl),
    }
}

/// O: the parser composition of harper-ls `Backend::update_document`, piece by piece:
/// dictionary = curated + user words (+ file words); for tree-sitter languages and Literate
/// Haskell the identifier dictionary `create_ident_dict(source)` is merged in and the parser is
/// wrapped in `CollapseIdentifiers` over that merged dictionary; with `isolateEnglish` the result
/// is wrapped in `IsolateEnglish` over the document's dictionary; `Document::new(text, &parser, &dict)`.
pub fn eval_server_comp(id: &str, ilt: bool, isolate: bool, user: bool, text: &str) -> Out {
    use harper_comments::CommentParser;
    use harper_core::parsers::{CollapseIdentifiers, IsolateEnglish};
    use harper_core::{Dictionary, MergedDictionary, MutableDictionary, WordMetadata};
    use harper_literate_haskell::LiterateHaskellParser;
    use std::sync::Arc;
    let mut out = Out { k: vec![], fails: vec![], counts: vec![], monitors: vec![], nontrivial: None };
    let name = format!("{}{}{}{}+srv", id, if ilt { "+ilt" } else { "" }, if isolate { "+isolate" } else { "" }, if user { "+user" } else { "" });
    let o = frontends::md_opts(ilt);
    let r = guarded(|| {
        let source: Vec<char> = text.chars().collect();
        // generate_file_dictionary: curated + user dictionary + file dictionary
        let mut merged = MergedDictionary::new();
        merged.add_dictionary(FstDictionary::curated());
        let mut userd = MutableDictionary::new();
        if user {
            for w in harvest_user_words(text) {
                userd.append_word_str(&w, WordMetadata::default());
            }
        }
        merged.add_dictionary(Arc::new(userd));
        merged.add_dictionary(Arc::new(MutableDictionary::new()));
        let ts = CommentParser::new_from_language_id(id, o);
        let mut ident_words = 0usize;
        let mut collapse = false;
        let base: Box<dyn Parser> = if let Some(ts) = ts {
            if let Some(nd) = ts.create_ident_dict(&Arc::new(source.clone())) {
                ident_words = nd.word_count();
                merged.add_dictionary(Arc::new(nd));
                collapse = true;
            }
            Box::new(ts)
        } else if matches!(id, "literate haskell" | "lhaskell") {
            let p = LiterateHaskellParser::new_markdown(o);
            if let Some(nd) = p.create_ident_dict(&Arc::new(source.clone()), o) {
                ident_words = nd.word_count();
                merged.add_dictionary(Arc::new(nd));
                collapse = true;
            }
            Box::new(p)
        } else {
            frontends::parser_for(id, ilt)?
        };
        let dict: Arc<MergedDictionary> = Arc::new(merged);
        let n_base = base.parse(&source).len();
        let mut parser: Box<dyn Parser> = if collapse {
            let d: Arc<dyn Dictionary> = dict.clone();
            Box::new(CollapseIdentifiers::new(base, Box::new(d)))
        } else {
            base
        };
        let n_collapsed = parser.parse(&source).len();
        if isolate {
            parser = Box::new(IsolateEnglish::new(parser, dict.clone()));
        }
        let doc = Document::new(text, &parser, &dict);
        // the same parser object on a second, different text and on the first again (two documents
        // open at once share nothing, but the wrappers keep thread-local patterns)
        let doc_b = Document::new(&format!("{}\n", text.trim_end()), &parser, &dict);
        let doc_c = Document::new(text, &parser, &dict);
        Some((doc, doc_b, doc_c, ident_words, n_base, n_collapsed))
    });
    match r {
        Ok(Some((doc, doc_b, doc_c, ident_words, n_base, n_collapsed))) => {
            out.counts.push(format!("w25:srv:{}", id));
            out.counts.push(format!("w25:srv:ident-dict-words={}", if ident_words == 0 { "0" } else if ident_words < 5 { "1-4" } else { "5+" }));
            if n_collapsed < n_base {
                out.counts.push("w25:srv:collapse-fired".into());
                out.nontrivial = Some(format!("{}|{}", name, trunc(text, 80)));
            }
            if isolate {
                out.counts.push("w25:srv:isolate".into());
            }
            check_source(&name, text, doc.get_source(), &mut out);
            check_tokens(&name, text, doc.get_source(), doc.get_tokens(), false, &mut out);
            w25_md_reclass(&name, text, &mut out);
            if out.fails.is_empty() {
                let tb: String = format!("{}\n", text.trim_end());
                check_tokens(&name, &tb, doc_b.get_source(), doc_b.get_tokens(), false, &mut out);
                w25_md_reclass(&name, &tb, &mut out);
            }
            if out.fails.is_empty() {
                check_tokens(&name, text, doc_c.get_source(), doc_c.get_tokens(), false, &mut out);
                w25_md_reclass(&name, text, &mut out);
            }
        }
        Ok(None) => {}
        Err(_) => out.counts.push("front-panicked(C01's business)".into()),
    }
    out
}

/// file extensions of harper-cli `load_file` / `CommentParser::filename_to_filetype`
pub const W25_EXTS: &[(&str, &str)] = &[
    ("md", "markdown"), ("lhs", "lhaskell"), ("typ", "typst"), ("py", "python"), ("nix", "nix"), ("rs", "rust"), ("ts", "typescript"), ("tsx", "typescriptreact"), ("js", "javascript"), ("jsx", "javascriptreact"),
    ("go", "go"), ("c", "c"), ("cpp", "cpp"), ("cmake", "cmake"), ("h", "cpp"), ("rb", "ruby"), ("swift", "swift"), ("cs", "csharp"), ("toml", "toml"), ("lua", "lua"), ("sh", "shellscript"), ("bash", "shellscript"),
    ("java", "java"), ("hs", "haskell"), ("php", "php"), ("dart", "dart"), ("scala", "scala"), ("sbt", "scala"), ("mill", "scala"),
];

/// O: every public constructor of `Document`, `Document::default()`, `StrParser::parse_str`
/// and `CommentParser::new_from_filename`
pub fn eval_constructors(text: &str, ext_i: usize) -> Out {
    use harper_core::parsers::{Markdown, MarkdownOptions, StrParser};
    let mut out = Out { k: vec![], fails: vec![], counts: vec![], monitors: vec![], nontrivial: None };
    let dict = FstDictionary::curated();
    let src: Vec<char> = text.chars().collect();
    let mut one = |name: &str, plain: bool, f: &dyn Fn() -> Document, out: &mut Out| match guarded(f) {
        Ok(doc) => {
            out.counts.push("w25:ctor".into());
            let name = format!("{}+ctor:{}", if plain { "plaintext" } else { "markdown" }, name);
            check_source(&name, text, doc.get_source(), out);
            let n0 = out.fails.len();
            check_tokens(&name, text, doc.get_source(), doc.get_tokens(), plain, out);
            if out.fails.len() > n0 {
                let mut sub = Out { k: vec![], fails: out.fails.split_off(n0), counts: vec![], monitors: vec![], nontrivial: None };
                w25_md_reclass(&name, text, &mut sub);
                out.fails.extend(sub.fails);
            }
            // the iterator and the slice are the same tokens
            if doc.tokens().count() != doc.get_tokens().len() {
                out.fails.push(("tokens-iter-differs".into(), "Document::tokens() and get_tokens() differ in length".into(), json!({"frontend": name, "text": text})));
            }
        }
        Err(_) => out.counts.push("front-panicked(C01's business)".into()),
    };
    one("new_curated(plain)", true, &|| Document::new_curated(text, &PlainEnglish), &mut out);
    one("new_plain_english_curated", true, &|| Document::new_plain_english_curated(text), &mut out);
    one("new_plain_english", true, &|| Document::new_plain_english(text, &dict), &mut out);
    one("new_from_vec(plain)", true, &|| Document::new_from_vec(std::sync::Arc::new(src.clone()), &PlainEnglish, &dict), &mut out);
    one("new_markdown_curated", false, &|| Document::new_markdown_curated(text, MarkdownOptions::default()), &mut out);
    one("new_markdown_curated+ilt", false, &|| Document::new_markdown_curated(text, frontends::md_opts(true)), &mut out);
    one("new_markdown_default_curated", false, &|| Document::new_markdown_default_curated(text), &mut out);
    one("new_markdown+ilt", false, &|| Document::new_markdown(text, frontends::md_opts(true), &dict), &mut out);
    one("new_markdown_default", false, &|| Document::new_markdown_default(text, &dict), &mut out);
    one("new_curated(Markdown::default)", false, &|| Document::new_curated(text, &Markdown::default()), &mut out);
    // parse_str: the entry point the Typst translator uses
    for (name, plain, toks) in [
        ("parse_str(plain)", true, guarded(|| PlainEnglish.parse_str(text))),
        ("parse_str(markdown)", false, guarded(|| Markdown::default().parse_str(text))),
    ] {
        if let Ok(toks) = toks {
            out.counts.push("w25:parse_str".into());
            let n0 = out.fails.len();
            let name = format!("{}+ctor:{}", if plain { "plaintext" } else { "markdown" }, name);
            check_tokens(&name, text, &src, &toks, plain, &mut out);
            if out.fails.len() > n0 {
                let mut sub = Out { k: vec![], fails: out.fails.split_off(n0), counts: vec![], monitors: vec![], nontrivial: None };
                w25_md_reclass(&name, text, &mut sub);
                out.fails.extend(sub.fails);
            }
        }
    }
    // by file name, as harper-cli does
    let (ext, id) = W25_EXTS[ext_i % W25_EXTS.len()];
    if ext_i % W25_EXTS.len() >= 3 {
        let path = std::path::PathBuf::from(format!("/tmp/some dir/é😀.x/file name.{}", ext));
        match harper_comments::CommentParser::new_from_filename(&path, MarkdownOptions::default()) {
            Some(p) => {
                let file = embed_with_identifiers(id, &text.replace('\t', " "), ext_i);
                if let Ok(doc) = guarded(|| Document::new(&file, &p, &dict)) {
                    out.counts.push(format!("w25:by-filename:{}", ext));
                    let name = format!("{}+byname:{}", id, ext);
                    check_source(&name, &file, doc.get_source(), &mut out);
                    check_tokens(&name, &file, doc.get_source(), doc.get_tokens(), false, &mut out);
                }
            }
            None => out.monitors.push((format!("CommentParser::new_from_filename knows .{}", ext), false)),
        }
    }
    out
}

/// O: `Document::default()`
fn eval_default_document() -> Out {
    let mut out = Out { k: vec![], fails: vec![], counts: vec![], monitors: vec![], nontrivial: None };
    if let Ok(doc) = guarded(Document::default) {
        out.counts.push("w25:ctor".into());
        check_source("plaintext+ctor:default", "", doc.get_source(), &mut out);
        check_tokens("plaintext+ctor:default", "", doc.get_source(), doc.get_tokens(), true, &mut out);
    }
    out
}

/// re-evaluate one recorded input of the w25 streams (the configuration is in the front-end's name)
/// re-evaluate one recorded input of the w25 streams (the configuration is in the front-end's name)
pub fn w25_replay(front: &str, text: &str) -> Option<Out> {
    let wrap_of = |s: &str| if s.contains("+collapse") { Wrap::Collapse } else if s.contains("+isolate") { Wrap::Isolate } else { Wrap::None };
    let id = front.split('+').next().unwrap_or("");
    if front.ends_with("+srv") {
        return Some(eval_server_comp(id, front.contains("+ilt"), front.contains("+isolate"), front.contains("+user"), text));
    }
    if let Some((_, kind)) = front.split_once("+dict=") {
        return Some(eval_front_dict(id, front.contains("+ilt"), wrap_of(front), DictKind::from_tag(kind), text));
    }
    if front.contains("+ctor:") {
        let mut o = eval_constructors(text, 0);
        merge_out(&mut o, eval_default_document());
        return Some(o);
    }
    if let Some((_, ext)) = front.split_once("+byname:") {
        // the recorded text is the whole file
        let mut out = Out { k: vec![], fails: vec![], counts: vec![], monitors: vec![], nontrivial: None };
        let path = std::path::PathBuf::from(format!("/tmp/x.{}", ext));
        if let Some(p) = harper_comments::CommentParser::new_from_filename(&path, harper_core::parsers::MarkdownOptions::default()) {
            if let Ok(doc) = guarded(|| Document::new(text, &p, &FstDictionary::curated())) {
                check_source(front, text, doc.get_source(), &mut out);
                check_tokens(front, text, doc.get_source(), doc.get_tokens(), false, &mut out);
            }
        }
        return Some(out);
    }
    if let Some((_, ext)) = front.split_once("+cli:") {
        return Some(match w25_cli_bin() {
            Some(bin) => eval_cli_parse(&bin, &std::env::temp_dir().join(format!("hv-c02-cli-replay-{}", std::process::id())), 0, ext, text),
            None => Out { k: vec![], fails: vec![], counts: vec!["w25:cli:not-built(stream skipped)".into()], monitors: vec![], nontrivial: None },
        });
    }
    // a wrapped plain-English front-end of `eval_front` (the branch below would drop the wrapper)
    if front.starts_with("plaintext+") && (front.contains("+collapse") || front.contains("+isolate")) && !front.contains("(parser)") {
        return Some(eval_front("plaintext", front.contains("+ilt"), wrap_of(front), text));
    }
    None
}

fn merge_out(a: &mut Out, b: Out) {
    a.k.extend(b.k);
    a.fails.extend(b.fails);
    a.counts.extend(b.counts);
    a.monitors.extend(b.monitors);
    if a.nontrivial.is_none() {
        a.nontrivial = b.nontrivial;
    }
}

/// the real `harper-cli` executable, built from the repo into the harness's own target directory
/// (the same directory c13.rs uses, so the build is shared)
fn w25_cli_bin() -> Option<std::path::PathBuf> {
    let target = std::path::PathBuf::from(env!("CARGO_MANIFEST_DIR")).join("target").join("lsbin");
    let manifest = format!("{}/Cargo.toml", frontends_repo_root());
    let built = std::process::Command::new("cargo")
        .args(["build", "--offline", "--locked", "-p", "harper-cli", "--manifest-path", &manifest, "--target-dir"])
        .arg(&target)
        .env("CARGO_NET_OFFLINE", "true")
        .stdout(std::process::Stdio::null())
        .stderr(std::process::Stdio::null())
        .status()
        .map(|s| s.success())
        .unwrap_or(false);
    let bin = target.join("debug").join("harper-cli");
    (built && bin.exists()).then_some(bin)
}

/// root of the project copy the harness is compiled against (spelled literally, as in c13.rs and
/// frontends.rs, so that whoever relocates the tree rewrites it in the same way)
fn frontends_repo_root() -> String {
    "/repo".to_string()
}

/// O: `harper-cli parse <file>` — `load_file` picks the parser by extension, `Document::new`
/// with the curated dictionary, one JSON token per line. The printed tokens are read back
/// and the property's clauses are evaluated on them against the file's text.
pub fn eval_cli_parse(bin: &std::path::Path, dir: &std::path::Path, n: usize, ext: &str, file_text: &str) -> Out {
    let mut out = Out { k: vec![], fails: vec![], counts: vec![], monitors: vec![], nontrivial: None };
    let _ = std::fs::create_dir_all(dir);
    let file = dir.join(format!("in put é{}.{}", n, ext));
    if std::fs::write(&file, file_text).is_err() {
        return out;
    }
    let res = std::process::Command::new(bin)
        .arg("parse")
        .arg(&file)
        .output();
    let Ok(res) = res else { return out };
    let name = format!("{}+cli:{}", W25_EXTS.iter().find(|(e, _)| *e == ext).map(|x| x.1).unwrap_or("unknown"), ext);
    if !res.status.success() {
        // a panic of the pipeline is C01's business; anything else (unknown extension) is a monitor
        let err = String::from_utf8_lossy(&res.stderr).to_string();
        if err.contains("panicked") {
            out.counts.push("front-panicked(C01's business)".into());
        } else {
            out.monitors.push((format!("harper-cli parse accepts .{}", ext), false));
        }
        return out;
    }
    let mut toks: Vec<Token> = vec![];
    for line in String::from_utf8_lossy(&res.stdout).lines() {
        match serde_json::from_str::<Token>(line) {
            Ok(t) => toks.push(t),
            Err(_) => {
                out.monitors.push(("harper-cli parse prints one JSON token per line".into(), false));
                return out;
            }
        }
    }
    out.counts.push(format!("w25:cli:{}", ext));
    if toks.len() >= 3 {
        out.nontrivial = Some(format!("cli|{}|{}", ext, trunc(file_text, 60)));
    }
    let src: Vec<char> = file_text.chars().collect();
    check_tokens(&name, file_text, &src, &toks, false, &mut out);
    w25_md_reclass(&name, file_text, &mut out);
    out
}

/// The three recorded pulldown-cmark findings (wikilink events, tab expansion under a code block,
/// empty math) are recognised on the EVENT LIST of the text (c02md.rs:findings_and_monitors /
/// reclass). `eval_front` and the w25 streams had no such step; for front-ends that hand the
/// WHOLE text to `Markdown` (id `markdown`, the Markdown constructors, `harper-cli parse x.md`)
/// the same recognition applies unchanged.
fn w25_md_reclass(front: &str, text: &str, out: &mut Out) {
    if !front.starts_with("markdown") || out.fails.iter().all(|f| f.0.starts_with("c02-")) {
        return;
    }
    let Ok(evs) = guarded(|| crate::c02md::events_of(text)) else { return };
    let mut scratch = Out { k: vec![], fails: vec![], counts: vec![], monitors: vec![], nontrivial: None };
    let f = crate::c02md::findings_and_monitors(text, front.contains("+ilt"), &evs, &mut scratch);
    crate::c02md::reclass(&mut out.fails, &f);
}

/// Markdown inside comments / Literate Haskell / git-commit sees only parts of the text, so the
/// event-list recognition above is not available there: the random mixtures lose their tabs
/// (tab expansion under `:`/list markers is the recorded c02-md-synthetic-text)
fn w25_inner_markdown_id(id: &str) -> bool {
    !matches!(id, "markdown" | "mail" | "plaintext" | "text" | "html" | "typst")
}

/// `merge` + a tally of which w25 stream saw failures outside the recorded classes (attribution
/// when the 20 recorded failures per class were already taken by an earlier stream)
fn w25_merge(sess: &mut Session, stream: &str, o: Out) {
    for (class, _, _) in &o.fails {
        if !class.starts_with("c02-") {
            sess.count(&format!("w25:failures-seen-by:{}:{}", stream, class));
        }
    }
    merge(sess, o);
}

pub fn w25_streams(sess: &mut Session, ctx: &Ctx, rng: &mut Rng) {
    let thorough = ctx.tier == Tier::Thorough;
    // 1. text families, plain English: K (lex / lexfull / doc / docfull) + O
    let fam = w25_family_texts(rng, thorough);
    // (texts of more than 200 characters: O only — the compiled model's lexer is slow on long texts)
    let outs = par_map(fam.len(), 16, |i| {
        let mut o = eval_plain(&fam[i].1);
        if fam[i].1.chars().count() > 200 {
            o.k.clear();
        }
        o
    });
    for (i, o) in outs.into_iter().enumerate() {
        sess.count(&format!("w25:family:{}", fam[i].0));
        if o.k.is_empty() {
            sess.count("w25:family:oracle-only(long)");
        }
        w25_merge(sess, "family-plain", o);
    }
    // 2. the same families through every front-end (O), a rotating sample per id
    let ids: Vec<String> = frontends::language_ids().into_iter().filter(|id| frontends::parser_for(id, false).is_some()).collect();
    let mut jobs: Vec<(String, bool, Wrap, String)> = vec![];
    let short: Vec<&(&'static str, String)> = fam.iter().filter(|f| f.1.chars().count() <= 1500).collect();
    let per_id = if thorough { 600 } else { 120 };
    for (n, id) in ids.iter().enumerate() {
        for j in 0..per_id {
            let f = short[(n * 7919 + j * 104729 + (ctx.seed as usize) * 31) % short.len()];
            let body = if f.0 == "mix" && w25_inner_markdown_id(id) { f.1.replace('\t', " ") } else { f.1.clone() };
            let text = if j % 3 == 0 { body } else { frontends::embed(id, &body, j) };
            let wrap = match j % 5 { 3 => Wrap::Collapse, 4 => Wrap::Isolate, _ => Wrap::None };
            jobs.push((id.clone(), j % 2 == 1, wrap, text));
        }
    }
    // corpus: witnesses of the recorded finding c02-isolate-initialism-gap and its neighbours
    for (id, t) in [
        ("text", "A. der die das und.B."), ("text", "See A. der Hund und die Katze.B. said so."), ("dart", "/* N.S.A.\n\nN.S.A. */\nfn g() {}\n"), ("rust", "// N.S.A.\n//\n// N.S.A.\nfn g() {}\n"),
        ("text", "5 der die das und.th"), ("text", "a' der die das und.b"), ("text", ". der die das und.."), ("markdown", "A. der die das und.B."), ("text", "A. the dog and the cat.B."),
    ] {
        jobs.push((id.to_string(), false, Wrap::Isolate, t.to_string()));
    }
    let outs = par_map(jobs.len(), 16, |i| {
        let mut o = eval_front(&jobs[i].0, jobs[i].1, jobs[i].2, &jobs[i].3);
        w25_md_reclass(&format!("{}{}", jobs[i].0, if jobs[i].1 { "+ilt" } else { "" }), &jobs[i].3, &mut o);
        o
    });
    for o in outs {
        sess.count("w25:family-in-frontend");
        w25_merge(sess, "family-in-frontend", o);
    }
    // 3. dictionaries × front-ends × wrappers (O)
    let mut jobs: Vec<(String, bool, Wrap, DictKind, String)> = vec![];
    let per_id = if thorough { 300 } else { 54 };
    for id in &ids {
        for j in 0..per_id {
            let prose = { let p = textgen::prose(rng); if rng.chance(1, 3) { textgen::mutate(rng, &p) } else { p } };
            let text = if is_plain_id(id) || matches!(id.as_str(), "markdown" | "git-commit" | "gitcommit" | "html" | "typst") {
                let extra = *rng.pick::<&str>(&["snake_case", "kebab-case", "separated_identifier_token", "a-b_c", "foo__bar", "my_var-2", "O'Neil's", "x-ray", "é_ü", "well-known"]);
                frontends::embed(id, &format!("{} Use {} and {}_x, {}.", prose, extra, extra, extra.to_uppercase()), j)
            } else {
                embed_with_identifiers(id, &prose, j)
            };
            let wrap = match j % 3 { 0 => Wrap::Collapse, 1 => Wrap::Isolate, _ => Wrap::None };
            let kind = match (j / 3) % 3 { 0 => DictKind::UserMerged, 1 => DictKind::Empty, _ => DictKind::Ident };
            jobs.push((id.clone(), j % 2 == 1, wrap, kind, text));
        }
    }
    // plain English under every dictionary on the lexer corner cases (tiling demanded)
    for s in textgen::LEXER_CORNERS.iter().chain(textgen::SPICE.iter()) {
        for kind in [DictKind::UserMerged, DictKind::Empty, DictKind::Ident] {
            for wrap in [Wrap::None, Wrap::Collapse] {
                jobs.push(("plaintext".into(), false, wrap, kind, format!("snake_case {} kebab-case a_{}", s, s)));
            }
        }
    }
    let outs = par_map(jobs.len(), 16, |i| eval_front_dict(&jobs[i].0, jobs[i].1, jobs[i].2, jobs[i].3, &jobs[i].4));
    for (i, o) in outs.into_iter().enumerate() {
        if i % 211 == 0 {
            sess.sample(json!({"frontend": format!("{}+dict={}", jobs[i].0, jobs[i].3.tag()), "text": trunc(&jobs[i].4, 160)}));
        }
        w25_merge(sess, "dict", o);
    }
    // 4. the server's composition per language id (O)
    let mut jobs: Vec<(String, bool, bool, bool, String)> = vec![];
    let per_id = if thorough { 300 } else { 42 };
    for id in &ids {
        for j in 0..per_id {
            let prose = { let p = textgen::prose(rng); if rng.chance(1, 3) { textgen::mutate(rng, &p) } else { p } };
            let mut text = embed_with_identifiers(id, &prose, j);
            if rng.chance(1, 5) {
                text = textgen::mutate(rng, &text);
            }
            if j % 7 == 6 {
                text = text.replace('\n', "\r\n");
            }
            jobs.push((id.clone(), j % 2 == 1, j % 3 == 1, j % 4 >= 2, text));
        }
    }
    for (ext, content) in crate::corpus::fixtures() {
        if let Some((_, id)) = W25_EXTS.iter().find(|(e, _)| e == ext) {
            jobs.push((id.to_string(), false, false, true, content.clone()));
            jobs.push((id.to_string(), false, true, false, content.clone()));
        }
    }
    let outs = par_map(jobs.len(), 16, |i| eval_server_comp(&jobs[i].0, jobs[i].1, jobs[i].2, jobs[i].3, &jobs[i].4));
    for (i, o) in outs.into_iter().enumerate() {
        if i % 173 == 0 {
            sess.sample(json!({"frontend": format!("{}+srv", jobs[i].0), "text": trunc(&jobs[i].4, 200)}));
        }
        w25_merge(sess, "srv", o);
    }
    // 5. every constructor of Document, parse_str, CommentParser::new_from_filename (O)
    let mut texts: Vec<String> = vec![];
    for s in textgen::LEXER_CORNERS {
        texts.push(s.to_string());
    }
    for f in fam.iter().filter(|f| f.1.chars().count() <= 400).step_by(if thorough { 1 } else { 9 }) {
        texts.push(f.1.clone());
    }
    for _ in 0..(if thorough { 4000 } else { 500 }) {
        texts.push(textgen::text(rng));
    }
    let outs = par_map(texts.len(), 16, |i| eval_constructors(&texts[i], i));
    for o in outs {
        w25_merge(sess, "ctor", o);
    }
    merge(sess, eval_default_document());
    // 6. the real harper-cli executable: `parse <file>` per extension (O)
    match w25_cli_bin() {
        None => sess.count("w25:cli:not-built(stream skipped)"),
        Some(bin) => {
            sess.count("w25:cli:built");
            let dir = ctx.out.join("c02-cli");
            let mut files: Vec<(String, String)> = vec![];
            let rounds = if thorough { 6 } else { 1 };
            for r in 0..rounds {
                for (n, (ext, id)) in W25_EXTS.iter().enumerate() {
                    // quick tier: Markdown, Literate Haskell, Typst and a quarter of the comment
                    // languages, rotating with the seed (one start of the executable costs ~2 s of CPU)
                    if !thorough && n >= 3 && (n + ctx.seed as usize) % 4 != 0 {
                        continue;
                    }
                    let prose = match (n + r) % 4 {
                        0 => format!("{} See e.g. the 1st “quoted” N.S.A. case… don't 😀 et al. 0x1F", textgen::prose(rng)),
                        1 => { let p = textgen::prose(rng); textgen::mutate(rng, &p) }
                        2 => format!("é😀 １ｓｔ e\u{301}.g. \"a\" 'b' 1980s {}", textgen::sentence(rng)),
                        _ => textgen::prose(rng),
                    };
                    let mut text = embed_with_identifiers(id, &prose, n + r);
                    // every second file with CRLF line ends and an empty first line (a reader that
                    // normalises line ends shifts every token after the first line end)
                    if (n + r) % 2 == 1 {
                        text = format!("\n{}", text).replace('\n', "\r\n");
                    }
                    files.push((ext.to_string(), text));
                }
            }
            let outs = par_map(files.len(), 8, |i| eval_cli_parse(&bin, &dir, i, &files[i].0, &files[i].1));
            for (i, o) in outs.into_iter().enumerate() {
                if i % 11 == 0 {
                    sess.sample(json!({"frontend": format!("+cli:{}", files[i].0), "text": trunc(&files[i].1, 160)}));
                }
                w25_merge(sess, "cli", o);
            }
        }
    }
}
