//! C02 — tokens in bounds, ordered, disjoint, tiling in plain English, and shaped like their kind.
//! K: `PlainEnglish::parse` token-for-token against the Lean lexer model.
//! O: the property's clauses on the final `Document` tokens of every front-end.
use crate::common::*;
use crate::frontends::{self, Wrap};
use crate::textgen;
use crate::tokfmt::*;
use harper_core::parsers::{Parser, PlainEnglish};
use harper_core::{Document, FstDictionary, Punctuation, Token, TokenKind};
use serde_json::{Value, json};

pub struct Out {
    pub k: Vec<(String, String)>,
    pub fails: Vec<(String, String, Value)>,
    pub counts: Vec<String>,
    pub monitors: Vec<(String, bool)>,
    pub nontrivial: Option<String>,
}

fn text_of(src: &[char], t: &Token) -> Option<Vec<char>> {
    if t.span.start <= t.span.end && t.span.end <= src.len() {
        Some(src[t.span.start..t.span.end].to_vec())
    } else {
        None
    }
}

/// the property's clauses on a token list; `plain` additionally demands exact tiling
pub fn check_tokens(front: &str, text: &str, src: &[char], toks: &[Token], plain: bool, out: &mut Out) {
    let inp = || json!({"frontend": front, "text": text});
    let mut last_end = 0usize;
    let mut last_cov: Option<(usize, usize)> = None;
    let mut cursor = 0usize;
    for (i, t) in toks.iter().enumerate() {
        if t.span.start > t.span.end || t.span.end > src.len() {
            out.fails.push(("out-of-bounds".into(), format!("token {} {} outside text of length {}", i, tok_show(t), src.len()), inp()));
            return;
        }
        let zero = t.span.start == t.span.end;
        if zero {
            if !matches!(t.kind, TokenKind::ParagraphBreak | TokenKind::Newline(_)) {
                out.fails.push(("zero-width-nonstructural".into(), format!("zero-width token {} is not a structural break", tok_show(t)), inp()));
                return;
            }
            out.counts.push("zero-width-structural".into());
        } else {
            if t.span.start < last_end {
                // recorded finding: the Typst translator can translate one syntax node twice
                // (identical span) when a typst-syntax accessor falls back to the same child
                let dup = front.starts_with("typst") && last_cov == Some((t.span.start, t.span.end));
                let class = if dup { "c02-typst-duplicate-node" } else { "unordered-or-overlapping" };
                out.fails.push((class.into(), format!("token {} {} starts before the previous covering token ends ({})", i, tok_show(t), last_end), inp()));
                if !dup {
                    return;
                }
            }
            last_end = last_end.max(t.span.end);
            last_cov = Some((t.span.start, t.span.end));
        }
        if plain {
            if t.span.start != cursor || zero {
                out.fails.push(("not-tiling".into(), format!("plain English: token {} {} does not continue at {}", i, tok_show(t), cursor), inp()));
                return;
            }
            cursor = t.span.end;
        }
        let txt = text_of(src, t).unwrap();
        match &t.kind {
            TokenKind::Word(_) => {
                if txt.iter().any(|c| c.is_whitespace()) {
                    let low: String = txt.iter().collect::<String>().to_lowercase();
                    let is_et_al = {
                        let w: Vec<&str> = low.split_whitespace().collect();
                        w == ["et", "al."]
                    };
                    let class = if is_et_al { "c02-et-al" } else { "word-has-whitespace" };
                    out.fails.push((class.into(), format!("Word token {:?} contains whitespace", txt.iter().collect::<String>()), inp()));
                    if !is_et_al {
                        return;
                    }
                }
            }
            TokenKind::Space(n) => {
                if !zero {
                    let sp = txt.iter().filter(|c| **c == ' ').count();
                    let tb = txt.iter().filter(|c| **c == '\t').count();
                    // plain English: exactly blanks, counted (what the model proves);
                    // other front-ends may collapse runs of markup whitespace: only blanks.
                    let ok = if plain { sp + tb == txt.len() && *n == sp + 2 * tb } else { txt.iter().all(|c| c.is_whitespace()) };
                    if !ok {
                        out.fails.push(("space-shape".into(), format!("Space({}) over {:?}", n, txt.iter().collect::<String>()), inp()));
                        return;
                    }
                }
            }
            TokenKind::Newline(n) => {
                let ok = if plain { txt.iter().all(|c| *c == '\n') && *n == txt.len() } else { txt.iter().all(|c| c.is_whitespace()) };
                if !zero && !ok {
                    // recorded finding: Markdown's hard break `\`+newline is a Newline(2) of length 1 at
                    // the start of the event's range, i.e. over the backslash
                    let bs = !plain && (front.starts_with("markdown") || front.starts_with("typst")) && txt == ['\\'];
                    // the same reading in Typst: a forced line break `\` (Expr::Linebreak) is a Newline(1) over the backslash
                    let class = if bs && front.starts_with("typst") { "c02-typst-backslash-linebreak" } else if bs { "c02-md-backslash-hardbreak" } else { "newline-shape" };
                    out.fails.push((class.into(), format!("Newline({}) over {:?}", n, txt.iter().collect::<String>()), inp()));
                    if !bs {
                        return;
                    }
                }
            }
            TokenKind::Punctuation(Punctuation::Quote(q)) => {
                if let Some(tw) = q.twin_loc {
                    let ok = tw < toks.len()
                        && tw != i
                        && matches!(toks[tw].kind, TokenKind::Punctuation(Punctuation::Quote(q2)) if q2.twin_loc == Some(i));
                    if !ok {
                        out.fails.push(("quote-twin".into(), format!("quote token {} points at {} which does not point back", i, tw), inp()));
                        return;
                    }
                    out.counts.push("quote-paired".into());
                }
            }
            TokenKind::Punctuation(p) => {
                let ok = if txt.len() == 1 {
                    Punctuation::from_char(txt[0]) == Some(*p)
                } else {
                    *p == Punctuation::Ellipsis && txt.len() >= 2 && txt.iter().all(|c| *c == '.')
                };
                if !ok {
                    out.fails.push(("punct-shape".into(), format!("{:?} over {:?}", p, txt.iter().collect::<String>()), inp()));
                    return;
                }
            }
            TokenKind::Number(num) => {
                let s: String = txt.iter().collect();
                let lit = if num.suffix.is_some() && txt.len() >= 2 { txt[..txt.len() - 2].iter().collect::<String>() } else { s.clone() };
                if let Some(sfx) = num.suffix {
                    let tail: String = txt[txt.len().saturating_sub(2)..].iter().collect::<String>().to_lowercase();
                    let want: String = sfx.to_chars().iter().collect();
                    if tail != want {
                        out.fails.push(("number-suffix-shape".into(), format!("Number suffix {:?} over {:?}", sfx, s), inp()));
                        return;
                    }
                }
                let val = if num.radix == 16 {
                    lit.strip_prefix("0x").and_then(|h| u64::from_str_radix(h, 16).ok()).map(|v| v as f64)
                } else {
                    lit.parse::<f64>().ok()
                };
                match val {
                    Some(v) if v == num.value.0 || (v.is_nan() && num.value.0.is_nan()) => {}
                    _ => {
                        out.fails.push(("number-value".into(), format!("Number token text {:?} does not denote its value {}", s, num.value.0), inp()));
                        return;
                    }
                }
                out.counts.push("number-checked".into());
            }
            _ => {}
        }
    }
    if plain && cursor != src.len() {
        out.fails.push(("not-tiling".into(), format!("plain English: tokens end at {} of {}", cursor, src.len()), inp()));
    }
}

/// which condensing steps fired on this document (generator distribution)
fn doc_counts(src: &[char], toks: &[Token], out: &mut Out) {
    for t in toks {
        let len = t.span.end.saturating_sub(t.span.start);
        let txt: &[char] = if t.span.end <= src.len() && t.span.start <= t.span.end { &src[t.span.start..t.span.end] } else { &[] };
        match &t.kind {
            TokenKind::Word(_) => {
                if txt.contains(&'\'') || txt.contains(&'’') {
                    out.counts.push("doc:contraction".into());
                }
                if txt.len() >= 2 && txt.contains(&'.') && !txt.iter().any(|c| c.is_whitespace()) && txt.last() == Some(&'.') {
                    if txt.len() >= 4 && txt[1] == '.' { out.counts.push("doc:initialism".into()); } else { out.counts.push("doc:latin-or-short-initialism".into()); }
                }
                if txt.iter().any(|c| c.is_whitespace()) {
                    out.counts.push("doc:et-al".into());
                }
            }
            TokenKind::Punctuation(Punctuation::Ellipsis) if len >= 2 => out.counts.push("doc:ellipsis".into()),
            TokenKind::Punctuation(Punctuation::Quote(q)) => out.counts.push(if q.twin_loc.is_some() { "doc:quote-paired".into() } else { "doc:quote-unpaired".into() }),
            TokenKind::Number(n) if n.suffix.is_some() => out.counts.push("doc:number-suffix".into()),
            TokenKind::Space(n) if *n > len || txt.contains(&'\t') && txt.contains(&' ') => out.counts.push("doc:space-merged".into()),
            TokenKind::ParagraphBreak => out.counts.push("doc:parbreak".into()),
            _ => {}
        }
    }
}

/// K on the plain parser + O on the plain document
pub fn eval_plain(text: &str) -> Out {
    let mut out = Out { k: vec![], fails: vec![], counts: vec![], monitors: vec![], nontrivial: None };
    let src: Vec<char> = text.chars().collect();
    let r = guarded(|| PlainEnglish.parse(&src));
    let mut r_ext: Option<String> = None;
    match r {
        Err(_) => {
            out.k.push((format!("lex | {} | ", text_field(&src)), "panic".into()));
            out.k.push((format!("lexfull | {}", text_field(&src)), "panic".into()));
            out.fails.push(("panic".into(), "PlainEnglish::parse panicked".into(), json!({"frontend": "plaintext", "text": text})));
        }
        Ok(toks) => {
            r_ext = Some(ext_field(&toks));
            let op = format!("lex | {} | {}", text_field(&src), ext_field(&toks));
            let imp = format!("ok {}", toks_show(&toks)).trim_end().to_string();
            // assumption monitor: external lexers stay inside the text and consume ≥ 1 char
            for t in &toks {
                if matches!(t.kind, TokenKind::Url | TokenKind::EmailAddress | TokenKind::Hostname) {
                    out.monitors.push(("ExtOK(url/email/hostname lexers in bounds)".into(), t.span.start < t.span.end && t.span.end <= src.len()));
                }
            }
            let kinds: std::collections::BTreeSet<String> = toks.iter().map(|t| kind_tag(&t.kind).split(|c: char| c.is_ascii_digit() || c == ':' || c == '.').next().unwrap_or("").to_string()).collect();
            for k in &kinds {
                out.counts.push(format!("lexer:{}", k));
            }
            if kinds.len() >= 3 {
                out.nontrivial = Some(op.clone());
            }
            // the same token stream against the model with the url / e-mail / hostname lexers
            // computed by the model itself (no table handed over)
            out.k.push((format!("lexfull | {}", text_field(&src)), imp.clone()));
            for t in &toks {
                match t.kind {
                    TokenKind::Url => out.counts.push("ext:url".into()),
                    TokenKind::EmailAddress => out.counts.push("ext:email".into()),
                    TokenKind::Hostname => out.counts.push("ext:hostname".into()),
                    _ => {}
                }
            }
            out.k.push((op, imp));
            check_tokens("plaintext(parser)", text, &src, &toks, true, &mut out);
        }
    }
    // final Document tokens (after the condense passes): K against the model of `Document::parse`
    let dict = FstDictionary::curated();
    let ext = match &r_ext { Some(e) => e.clone(), None => String::new() };
    let dop = format!("doc | {} | {}", text_field(&src), ext);
    // the same pipeline with NOTHING handed over: the model's own url / e-mail / hostname lexers
    // compute the table (`documentFull`, the definition `documentFull_tiles` is about)
    let dfop = format!("docfull | {}", text_field(&src));
    match guarded(|| Document::new(text, &PlainEnglish, &dict)) {
        Ok(doc) => {
            let toks = doc.get_tokens();
            let dimp = format!("ok {}", toks_show(toks)).trim_end().to_string();
            out.k.push((dfop, dimp.clone()));
            for t in toks {
                match t.kind {
                    TokenKind::Url => out.counts.push("docfull:url".into()),
                    TokenKind::EmailAddress => out.counts.push("docfull:email".into()),
                    TokenKind::Hostname => out.counts.push("docfull:hostname".into()),
                    _ => {}
                }
            }
            out.k.push((dop, dimp));
            doc_counts(&src, toks, &mut out);
            check_tokens("plaintext", text, doc.get_source(), toks, true, &mut out);
        }
        Err(_) => {
            out.k.push((dfop, "panic".into()));
            out.k.push((dop, "panic".into()));
            out.fails.push(("panic".into(), "Document::new panicked".into(), json!({"frontend": "plaintext", "text": text})));
        }
    }
    out
}

/// O on one wrapped front-end
pub fn eval_front(id: &str, ilt: bool, wrap: Wrap, text: &str) -> Out {
    let mut out = Out { k: vec![], fails: vec![], counts: vec![], monitors: vec![], nontrivial: None };
    let Some(parser) = frontends::wrapped(id, ilt, wrap) else {
        out.monitors.push((format!("frontend-constructible:{}", id), false));
        return out;
    };
    let dict = FstDictionary::curated();
    let name = format!("{}{}{}", id, if ilt { "+ilt" } else { "" }, match wrap { Wrap::None => "", Wrap::Collapse => "+collapse", Wrap::Isolate => "+isolate" });
    match guarded(|| Document::new(text, &parser, &dict)) {
        Ok(doc) => {
            out.counts.push(format!("front:{}", id));
            check_tokens(&name, text, doc.get_source(), doc.get_tokens(), false, &mut out);
        }
        Err(_) => out.counts.push("front-panicked(C01's business)".into()),
    }
    out
}

/// alphabet of the second exhaustive stream (url / e-mail / hostname lexers)
pub const EXT_ALPHABET: [char; 14] = ['a', '1', '.', '-', '@', ':', '/', '%', '"', ' ', '+', '_', 'A', 'é'];

/// curated inputs for `lex_url`, `lex_email_address`, `lex_hostname_token`
pub fn ext_corpus() -> Vec<String> {
    let mut v: Vec<String> = [
        "http://a.b/c?d=e#f", "ftp://user:pw@host:80/x", "mailto:x@y.z", "a@b", "a.b.c@d.e", "\"quoted\"@x.y", "x@[1.2.3.4]", "a..b@c.d",
        "http://", "http:///", "http://a@", "://x", "a:b", "www.example.com.", "www.example.com", "-a.b", "a-.b", "a.b-", "a.b.", "a.b..", "a..b", "a.", ".a.b", "a.b",
        "%zz", "%41", "http://a.b/%zz", "http://a.b/%41", "http://a.b/%4", "http://a.b/%", "http://a.b/x%41y/%4g", "http://u%41@h.c/", "http://u%4@h.c/",
        "http://abc:80/x", "http://127.0.0.1:80/x", "http://127.0.0.1:80", "http://1:2", "http://12:", "http://a.b:", "http://a.b:/x", "http://u@a.b:80/x", "http://u@12:80/x",
        "http://u;p?q&r=s@h.c/x", "http://u:p@h.c/x", "http://u:@h.c/x", "http://:p@h.c/x", "http://@h.c/x", "http://u@/x", "http://u@", "http://u@-h", "http://u v@h.c",
        "http://a.b//c", "http://a.b/c//", "http://a.b/c d", "http://a.b/c\"d", "http://a.b/c/\"d", "http:///x", "http:////", "http://a.b/é", "http://é.b/x", "http://a.b/(x),y!z*'$_+",
        "h+t.p-1://a", "1://a", "+://a", "ht_tp://a.b", "ht tp://a.b", "http:/a.b", "http:a.b", "http//a.b", ":", "::", "://", ":///", "a:://b", "a://b://c", "x y://a.b",
        "\"\"@x.y", "\"@x.y", "\"a@x.y", "a\"@x.y", "\"a\"b\"@x.y", "\"a\\\"b\"@x.y", "\"a\\\"@x.y", "\"\\\"@x.y", "\"a b(),:;<>@[]\"@x.y", "\"a\tb\"@x.y", "\"é\"@x.y",
        "\"a\\\tb\"@x.y", "\"a\\\\\"@x.y", "\"a\\\\b\"@x.y", "\"\\\"\\\"\"@x.y", "\"a\\\"@x.y z", "\"\\\"@x.y", "\"\\a\\b\"@x.y", "\"a\\\n\"@x.y", "\"a\\\"\tb\"@x.y", "\"a\\\t\"b\"@x.y",
        ".a@b.c", "a.@b.c", "a.b@c", "é@b.c", "a@é.c", "a@b@c.d", "a b@c.d", "a@b c@d", "a@", "@b", "@", "@@", "a@@b", "a@-b", "a@b-", "a@b.", "a@b..c", "a@.b", "a@1", "a@b:80",
        "!#$%&'*+-/=?^_`{|}~@b.c", "a(b@c.d", "a,b@c.d", "mailhost!username@example.org", "user%example.com@example.org", "name/surname@example.com",
        "1.2.3.4", "1.2", "1.a", "a.1", "a-b.c-d", "a--b.c", "a_b.c", "A.B", "a.b/c", "a.b:c", "a.b@", "e.g.", "i.e.", "x.y.z.", "x.y.z-", "-.a", "a.-", "a.-.b",
    ]
    .iter()
    .map(|s| s.to_string())
    .collect();
    // long hosts / local parts (the 64-character limit of the local part, 300-character hosts)
    for n in [1usize, 2, 63, 64, 65, 66, 300] {
        let a = "a".repeat(n);
        v.push(format!("{}@b.c", a));
        v.push(format!("\"{}\"@b.c", a));
        v.push(format!("x@{}.{}", a, a));
        v.push(format!("{}.{}", a, a));
        v.push(format!("{}.{}.", a, a));
        v.push(format!("http://{}.{}/{}", a, a, a));
        v.push(format!("{}://{}", a, a));
    }
    let lbl = "ab-1".repeat(15);
    v.push(format!("{0}.{0}.{0}.{0}.{0}", lbl));
    v.push(format!("{0}.{0}.{0}.{0}.{0}.", lbl));
    v.push(format!("x@{0}.{0}.{0}.{0}.{0}", lbl));
    v
}

/// structured random look-alikes: pieces of urls / addresses / hosts glued with hostile separators
pub fn ext_text(rng: &mut Rng) -> String {
    const PIECES: &[&str] = &[
        "http", "https", "ftp", "mailto", "a", "b", "ab", "x1", "1", "12", "80", "127.0.0.1", "example", "com", "www", "user", "pw", "A", "Zz", "é", "ß", "中",
        "://", ":", "//", "/", "@", ".", "..", "-", "--", "+", "_", "%", "%41", "%4", "%zz", "%aF", "?", "=", "&", "#", ";", "\"", "\\", " ", " ", "\n", "\t",
        "(", ")", ",", "!", "*", "'", "$", "[", "]", "<", ">", "~", "`", "{", "}", "|", "^",
    ];
    const SHAPES: &[&str] = &[
        "S://H/P", "S://U@H/P", "S://U:W@H:N/P", "S://H:N/P", "S://N.N.N.N:N/P", "U@H", "\"Q\"@H", "U.U@H.H", "H.H.H", "H.H.", "H-.H", "S:P", "S://U@", "S:///P", "U@H U@H", "S://H U@H",
    ];
    let mut out = String::new();
    let nparts = rng.range(1, 3);
    for i in 0..nparts {
        if i > 0 {
            out.push_str(*rng.pick::<&str>(&[" ", " ", ", ", "\n", ".", ". ", ":", "@", "/", ""]));
        }
        if rng.chance(1, 3) {
            // free gluing of pieces
            let n = rng.range(1, 9);
            for _ in 0..n {
                out.push_str(*rng.pick::<&str>(PIECES));
            }
        } else {
            let word = |rng: &mut Rng, extra: &[&str]| -> String {
                let n = rng.range(0, 3);
                let mut w = String::new();
                for _ in 0..n {
                    if rng.chance(1, 4) && !extra.is_empty() {
                        w.push_str(*rng.pick::<&str>(extra));
                    } else {
                        w.push_str(*rng.pick::<&str>(&["a", "b", "ab", "x1", "1", "12", "A", "example", "www", "com", "e"]));
                    }
                }
                w
            };
            for c in rng.pick::<&str>(SHAPES).chars() {
                match c {
                    'S' => out.push_str(&word(rng, &["+", "-", ".", "_", " ", "é"])),
                    'H' => out.push_str(&word(rng, &["-", ".", "_", "é", ":"])),
                    'U' | 'W' => out.push_str(&word(rng, &[";", "?", "&", "=", "%41", "%4", "%", ".", "..", "!", "$", "é", " ", "\"", "+", "-", "_"])),
                    'Q' => out.push_str(&word(rng, &[" ", "\\", "\\\"", "\"", "(", ")", ",", ":", ";", "<", ">", "@", "[", "]", "é", "\t"])),
                    'N' => out.push_str(&word(rng, &["1", "80", "0", "a", ""])),
                    'P' => out.push_str(&word(rng, &["/", "//", "?", "=", "&", "#", "%41", "%4", "%zz", "%", "(", ")", ",", "!", "*", "'", "$", "_", "+", " ", "\"", "é", "<", "[", "~"])),
                    other => out.push(other),
                }
            }
        }
    }
    if rng.chance(1, 5) {
        // damage: drop or duplicate one character
        let mut cs: Vec<char> = out.chars().collect();
        if !cs.is_empty() {
            let at = rng.below(cs.len());
            if rng.chance(1, 2) {
                cs.remove(at);
            } else {
                let c = cs[at];
                cs.insert(at, c);
            }
        }
        out = cs.into_iter().collect();
    }
    out
}

/// K + O on the three lexers called directly on one slice (see `lexdirect.rs`)
pub fn eval_ext_slice(text: &str) -> Out {
    let mut out = Out { k: vec![], fails: vec![], counts: vec![], monitors: vec![], nontrivial: None };
    let src: Vec<char> = text.chars().collect();
    let op = format!("extlex | {}", chars_field(&src));
    let inp = json!({"ext_slice": text});
    match crate::lexdirect::extlex(&src) {
        Err(e) => {
            out.k.push((op, "panic".into()));
            out.fails.push(("ext-lexer-panic".into(), format!("url / e-mail / hostname lexer panicked on a slice: {}", e), inp));
        }
        Ok(r) => {
            let names = ["lex_url", "lex_email_address", "lex_hostname_token", "lex_hostname"];
            let mut fired = 0;
            for (i, x) in r.iter().enumerate() {
                if let Some(n) = x {
                    fired += 1;
                    out.counts.push(format!("direct:{}:some", names[i]));
                    if *n < 1 || *n > src.len() {
                        out.fails.push(("ext-lexer-out-of-bounds".into(), format!("{} returned {} on a slice of length {}", names[i], n, src.len()), inp.clone()));
                    }
                }
            }
            if fired >= 2 {
                out.nontrivial = Some(op.clone());
            }
            out.k.push((op, crate::lexdirect::extlex_show(&r)));
        }
    }
    out
}

pub fn merge(sess: &mut Session, o: Out) {
    let mut case = None;
    for (op, imp) in &o.k {
        case = Some(sess.k(op, imp));
    }
    if o.k.is_empty() {
        sess.o();
    }
    for c in &o.counts {
        sess.count(c);
    }
    for (m, held) in &o.monitors {
        sess.monitor(m, *held);
    }
    if let Some(n) = &o.nontrivial {
        sess.nontrivial(n);
    }
    for (class, desc, input) in o.fails {
        sess.fail(&class, desc, input, case);
    }
}

pub fn run(ctx: &Ctx) {
    let mut sess = Session::new(ctx);
    let mut rng = Rng::new(ctx.seed);
    if let Some(v) = replay_input(ctx) {
        let text = v["text"].as_str().unwrap_or("").to_string();
        let front = v["frontend"].as_str().unwrap_or("plaintext").to_string();
        let o = if let Some(sl) = v["ext_slice"].as_str() {
            eval_ext_slice(sl)
        } else if let Some(o) = crate::c02md::replay(&front, &text) {
            o
        } else if let Some(o) = crate::c02typst::replay(&front, &text) {
            o
        } else if front.starts_with("plaintext") {
            eval_plain(&text)
        } else {
            let id = front.split('+').next().unwrap().to_string();
            let wrap = if front.contains("+collapse") { Wrap::Collapse } else if front.contains("+isolate") { Wrap::Isolate } else { Wrap::None };
            eval_front(&id, front.contains("+ilt"), wrap, &text)
        };
        merge(&mut sess, o);
        sess.nontrivial("replay-a");
        sess.nontrivial("replay-b");
        sess.finish("replay of one recorded input", false, json!({}));
        return;
    }
    // --- inputs -------------------------------------------------------------------------
    let mut plain_inputs: Vec<String> = vec![];
    // 1. corpus: witnesses of past findings and lexer corner cases
    for s in [
        "See e.g.", "e.g. foo", "2stuff", "et al. said", "Et Al.", " \t ", "\t\t  \t", "1980st", "1980s.", "0x", "0x1G", "0xFFFFFFFFFFFFFFFFF",
        "et \n al.", "et\t al. ETC. vS. etc .", "a.b.c. d.e.", "a.b.c", "I.e.", "x. y.", "a'b'c'd'e", "a''b", "'a'b", "1st 2ND 3rd 4tH 5stx 0x1Fst 1.5th", "1 st", "....", ". .. ... a...b",
        " \t \t \t", "\t \t", "  \t\t  ", "\n \n\n \n", "\n\n\n\n", "\"a\" “b” \"c", "\"\"\"", "1st.2nd", "N.S.A. etc. et al. 1st... \"q\"",
        "1.14.4. and 5", "I have 5.\n\n3", "a's 5's O'Neil's", "[a-z0-9] [a-z [a-] [ab]", "a'b'c'd", "....", ". . ..", "\"a\" \"b", "1e999$",
        "http://a.b/c user@x.y www.a.b. a.b", "1000000000000011th", "12345678901234567890 123456789012345.678901234567890", "0.000000000000000000001e10 1e-320 9007199254740993", "x:y //", "٣1 ½ 1½", "1.e5 1e+5 1e 1.", "İstanbul ﬁ ß", "don’t", "\n\n\n", "", " ",
    ] {
        plain_inputs.push(s.to_string());
    }
    for s in textgen::SPICE {
        plain_inputs.push(s.to_string());
        plain_inputs.push(format!("a {} b", s));
    }
    // 1b. url / e-mail / hostname lexers: curated corner cases (each alone, inside a sentence,
    // and followed by a later `@` / `:` since the lexers scan the whole rest of the text)
    for s in ext_corpus() {
        plain_inputs.push(format!("see {} now", s));
        plain_inputs.push(format!("{} then x@y.z or b://c", s));
        plain_inputs.push(format!("({}).", s));
        plain_inputs.push(s);
    }
    // 2. exhaustive small scope: all strings of length ≤ 4 (quick) / ≤ 5 (thorough) over a hostile alphabet
    let alpha: Vec<char> = vec!['a', '1', '.', '\'', ' ', '\t', '\n', 's', '0', 'x', '[', ']', '-', 'e'];
    let maxlen = if ctx.tier == Tier::Thorough { 5 } else { 4 };
    let n = alpha.len();
    for len in 1..=maxlen {
        let total = n.pow(len as u32);
        for code in 0..total {
            let mut c = code;
            let mut s = String::new();
            for _ in 0..len {
                s.push(alpha[c % n]);
                c /= n;
            }
            plain_inputs.push(s);
        }
    }
    // 2b. second exhaustive scope, aimed at the url / e-mail / hostname lexers
    let alpha2: Vec<char> = EXT_ALPHABET.to_vec();
    let n2 = alpha2.len();
    for len in 1..=maxlen {
        let total = n2.pow(len as u32);
        for code in 0..total {
            let mut c = code;
            let mut s = String::new();
            for _ in 0..len {
                s.push(alpha2[c % n2]);
                c /= n2;
            }
            plain_inputs.push(s);
        }
    }
    // 2c. third exhaustive stream, for the condensing passes: all sequences of ≤ 4 (quick) / ≤ 5
    // (thorough) PIECES, so that initialisms `a.b.`, contractions `a'b'a`, `et al.`, `etc.`, `1st`,
    // `...`, merged blanks, paragraph breaks and quotes are all reached and combined
    let pieces: Vec<&str> = vec!["a", "b", ".", "'", " ", "\t", "\n", "et", "al", "etc", "Vs", "1", "st", "\"", "nD", "I"];
    let np = pieces.len();
    for len in 1..=maxlen {
        let total = np.pow(len as u32);
        for code in 0..total {
            let mut c = code;
            let mut s = String::new();
            for _ in 0..len {
                s.push_str(pieces[c % np]);
                c /= np;
            }
            plain_inputs.push(s);
        }
    }
    let n_exh = plain_inputs.len();
    // 3b. structured random url / e-mail / hostname look-alikes
    let next = if ctx.tier == Tier::Thorough { 40000 } else { 6000 };
    for _ in 0..next {
        plain_inputs.push(ext_text(&mut rng));
    }
    // 3. structured random + malformed
    let nrand = if ctx.tier == Tier::Thorough { 40000 } else { 6000 };
    for _ in 0..nrand {
        plain_inputs.push(textgen::text(&mut rng));
    }
    let outs = par_map(plain_inputs.len(), 16, |i| eval_plain(&plain_inputs[i]));
    for (i, o) in outs.into_iter().enumerate() {
        if i >= n_exh && i < n_exh + 3 {
            sess.sample(json!({"plain_text": trunc(&plain_inputs[i], 200)}));
        }
        merge(&mut sess, o);
    }
    // --- K + O on lex_url / lex_email_address / lex_hostname_token called directly -------
    // (arbitrary slices: also those that an earlier lexer of lex_token would take first)
    let mut slices: Vec<String> = vec![];
    for s in ext_corpus() {
        let cs: Vec<char> = s.chars().collect();
        for i in 0..cs.len() {
            if i < 12 || cs.len() - i < 12 {
                slices.push(cs[i..].iter().collect());
            }
        }
        slices.push(format!("{} x@y.z b://c", s));
    }
    for len in 1..=maxlen {
        let total = n2.pow(len as u32);
        for code in 0..total {
            let mut c = code;
            let mut s = String::new();
            for _ in 0..len {
                s.push(alpha2[c % n2]);
                c /= n2;
            }
            slices.push(s);
        }
    }
    let nslice = if ctx.tier == Tier::Thorough { 60000 } else { 10000 };
    for _ in 0..nslice {
        let t: Vec<char> = ext_text(&mut rng).chars().collect();
        let at = if rng.chance(1, 2) { 0 } else { rng.below(t.len() + 1) };
        slices.push(t[at..].iter().collect());
    }
    let outs = par_map(slices.len(), 16, |i| eval_ext_slice(&slices[i]));
    for (i, o) in outs.into_iter().enumerate() {
        if i % 9973 == 0 {
            sess.sample(json!({"ext_slice": trunc(&slices[i], 120)}));
        }
        merge(&mut sess, o);
    }
    // --- K: the f64 literal recogniser the number lexer relies on (`str::parse::<f64>`) ----
    {
        let alpha: Vec<char> = vec!['1', '0', '.', 'e', 'E', '+', '-', 'i', 'n', 'f', 'a', 'N', 't', 'y', ' '];
        let maxlen = if ctx.tier == Tier::Thorough { 5 } else { 4 };
        let n = alpha.len();
        let mut cands: Vec<String> = vec!["inf".into(), "Infinity".into(), "+infinity".into(), "-NaN".into(), "nan".into(), "infinit".into(), "1e+5".into(), "1.e-5".into(), ".e5".into(), "1e".into(), "++1".into(), "1_0".into(), "0x10".into(), "１".into(), "".into()];
        for len in 1..=maxlen {
            for code in 0..n.pow(len as u32) {
                let mut c = code;
                let mut s = String::new();
                for _ in 0..len {
                    s.push(alpha[c % n]);
                    c /= n;
                }
                cands.push(s);
            }
        }
        for s in cands {
            let cs: Vec<char> = s.chars().collect();
            let ok = s.parse::<f64>().is_ok();
            sess.k(&format!("f64 | {}", chars_field(&cs)), if ok { "ok 1" } else { "ok 0" });
            sess.count(if ok { "f64:accepted" } else { "f64:rejected" });
        }
    }
    // --- O on every front-end ------------------------------------------------------------
    let ids = frontends::language_ids();
    sess.add("frontends", ids.len() as u64);
    let per_front = if ctx.tier == Tier::Thorough { 400 } else { 60 };
    let mut jobs: Vec<(String, bool, Wrap, String)> = vec![];
    for id in &ids {
        if frontends::parser_for(id, false).is_none() {
            sess.monitor(&format!("frontend-known:{}", id), false);
            continue;
        }
        for j in 0..per_front {
            let prose = { let p = textgen::prose(&mut rng); if rng.chance(1, 2) { textgen::mutate(&mut rng, &p) } else { p } };
            let mut text = frontends::embed(id, &prose, j);
            if rng.chance(1, 4) {
                text = textgen::mutate(&mut rng, &text);
            }
            let wrap = match j % 6 { 4 => Wrap::Collapse, 5 => Wrap::Isolate, _ => Wrap::None };
            jobs.push((id.clone(), j % 2 == 1, wrap, text));
        }
        // corpus per front-end: the masked-markup condensation witness
        jobs.push((id.clone(), false, Wrap::None, frontends::embed(id, "Scott</p><b title=\"x\">'There is", 0)));
    }
    for (ext, content) in crate::corpus::fixtures() {
        let id = match ext.as_str() {
            "md" => "markdown", "rs" => "rust", "js" => "javascript", "ts" => "typescript", "tsx" => "typescriptreact", "jsx" => "javascriptreact",
            "c" | "h" => "c", "cpp" => "cpp", "cs" => "csharp", "go" => "go", "java" => "java", "lua" => "lua", "py" => "python", "rb" => "ruby",
            "sh" => "shellscript", "swift" => "swift", "toml" => "toml", "nix" => "nix", "php" => "php", "dart" => "dart", "scala" => "scala",
            "hs" => "haskell", "cmake" => "cmake", "html" => "html", "typ" => "typst", "lhs" => "lhaskell", _ => "plaintext",
        };
        jobs.push((id.to_string(), false, Wrap::None, content.clone()));
    }
    let outs = par_map(jobs.len(), 16, |i| eval_front(&jobs[i].0, jobs[i].1, jobs[i].2, &jobs[i].3));
    for (i, o) in outs.into_iter().enumerate() {
        if i % 397 == 0 {
            sess.sample(json!({"frontend": jobs[i].0, "text": trunc(&jobs[i].3, 160)}));
        }
        merge(&mut sess, o);
    }
    // --- K: the Markdown parser's own logic and the two wrapper parsers (c02md.rs) ---------
    crate::c02md::run_into(&mut sess, ctx, &mut rng);
    // --- K: the Typst translator's own logic and the HTML Space clamp (c02typst.rs) --------
    crate::c02typst::run_into(&mut sess, ctx, &mut rng);
    sess.finish(
        "K: PlainEnglish::parse vs the Lean lexer model, every text twice: op `lex` (url/e-mail/hostname tokens handed to the model as a table) and op `lexfull` (those three lexers computed by the model, nothing handed over), and Document::new(text, &PlainEnglish, dict).get_tokens() vs the Lean model of Document::parse (every text twice: op `doc` — all condensing passes, quote twins, number suffixes, the real lexers' url / e-mail / hostname tokens handed over as a table — and op `docfull` — the same pipeline with those three lexers computed by the model, nothing handed over: the definition `documentFull` of the theorems), on (1) corpus of lexer corner cases incl. curated url / e-mail / hostname corner cases alone and embedded, (2) ALL strings of length ≤4 (quick) / ≤5 (thorough) over the alphabet {a,1,.,',space,tab,newline,s,0,x,[,],-,e} and over the alphabet {a,1,.,-,@,:,/,%,\",space,+,_,A,é}, and ALL sequences of ≤4 / ≤5 pieces from {a,b,.,',space,tab,newline,et,al,etc,Vs,1,st,\",nD,I}, (3) structured random texts (rule-test sentences mutated by truncation, spice splices, delimiter drops, long words, glued digits), random code points, and random url / address / host look-alikes; op `extlex`: lex_url / lex_email_address / lex_hostname_token / lex_hostname compiled from /repo and called directly on arbitrary slices (suffixes of the curated cases, ALL strings of length ≤4/5 over the second alphabet, random look-alikes), result lengths against the model and against 1 ≤ n ≤ slice length. O: the property's clauses (bounds, order, disjointness, zero-width only structural, plain tiling, per-kind shape, quote twins) on the final Document tokens of plain English and of every language id of the server's table (prose embedded in language-appropriate syntax, plus the repo's fixtures), also wrapped in CollapseIdentifiers / IsolateEnglish. K (c02md.rs): op `mdparse` / `wikiclean` — pulldown-cmark's real events (variant, byte range, text length; same Options as markdown.rs) + the text → the Lean model of Markdown::parse (event loop, traversed_bytes/chars, tag stack, inner PlainEnglish parse computed by the model, trailing-break pop, remove_hidden_wikilink_tokens, remove_wikilink_brackets) vs the real Markdown::new(opts).parse, both ignore_link_title settings: corpus (the parser's tests, wikilink witnesses, repo fixtures), ALL concatenations of ≤4 (quick) / ≤5 (thorough) of 16 markup pieces {a, space, newline, *, `, [, ], (x), #, `- `, é, |, `> `, <b>, $, backslash} (option off; ≤3/≤4 with the option on), ALL concatenations of ≤6 of {[[, ]], |, a, space, backslash, [b](x)} (option off; ≤5/≤6 with the option on), random generated Markdown files / markup soup / wikilink soup with multi-byte text; the hypotheses of the Markdown theorems (EventsOK) are monitors on every event list. Ops `collapse`, `isolate`, `isolatev` — the real CollapseIdentifiers / IsolateEnglish over PlainEnglish and Markdown vs the model, the inner tokens and the dictionary's answers (resp. the real is_likely_english verdict per chunk) handed over: ALL concatenations of ≤5/≤6 of 9 identifier pieces, all chunks of ≤9 known/unknown words × 3 tails, random identifier and mixed-language texts. K (c02typst.rs): op `typst` — the real typst_syntax::Source of every Typst text serialised by calling exactly the accessors typst_translator.rs calls (per Expr / Pattern / Arg / Param / ArrayItem / DictItem / DestructuringItem variant: the match arm, the byte range doc.range(span) gives or `-` for a detached node, the node text where the translator reads it, the accessor results as subtrees) + the text → the Lean model of harper_typst::Typst.parse (convert_parbreaks, parse_expr / parse_pattern arm by arm, def_token! / merge! / get_text!, OffsetCursor, inner PlainEnglish parse computed by the model) vs the real parser; op `typok` — the harness's Rust mirror of TreeOK / NoAlias / InOrder vs the model's own definitions; monitors on every real tree: TreeOK, in-bounds-when-TreeOK, sorted-when-InOrder: corpus (the repo's Typst fixtures, the recorded findings' witnesses), ALL concatenations of ≤4 (quick) / ≤5 (thorough) of the 20 pieces {`#let `, x, ` = `, (, ), [, ], *a*, _b_, `= H`, newline, `- i`, $x$, \"s\", #f, `: `, `, `, .., space, é}, every prefix of four realistic documents and (every 7th / every) prefix of the fixtures, random Typst markup / code soup / spliced documents. Ops `htmlclamp` / `htmlclampt` — the Space clamp of HtmlParser::parse on the tokens of the inner Mask parse (random HTML with runs of blanks and tabs). Op `htmlparse` — the whole HtmlParser::parse: text + the mask the real TreeSitterMasker computes → the model's maskParse with its own PlainEnglish + clamp vs the real parser (HTML fixtures and corner cases, ALL concatenations of ≤4/≤5 of 11 HTML pieces, random HTML); `typok` carries a fourth field RangesSolid and is also run on synthetic trees (one range of a real tree emptied). Non-trivial = a plain text whose tokens have ≥3 distinct kinds; distinct by op line.",
        true,
        json!({"exhaustive_scope": format!("all strings of length ≤{} over each of two 14-character alphabets; all sequences of ≤{} pieces over 16 pieces", maxlen, maxlen), "language_ids": ids}),
    );
}
