//! Hand-written (`Linter`) rules, batch 2, against `lean/Harper/Model/Rules2.lean` (called from c01.rs, c03.rs, c12.rs).
//!
//! Each REAL rule struct is run ALONE on `Document::new(text, &PlainEnglish, curated)` (or the Markdown parser).
//! K: op `rule2 <Name> | text | ext | numbers | words | chars` (plain English: the model computes its own
//!    `document`) and `rule2toks <Name> | chars | tokens | …` (Markdown: the real tokens are data); lints are
//!    compared exactly (order, span, message code + argument, suggestions). Thirteen rules are modelled
//!    (`MODELLED`); the four `merge_linters!` rules of the batch get the oracles only.
//! O (all seventeen): no panic; every lint `start ≤ end ≤ len`; every suggestion applied by the real
//!    `Suggestion::apply` = the independent splice `text[..start] ++ new ++ text[end..]`; paragraph locality on
//!    (P, D) pairs, `lint(P+D) = lint(P) ++ shift(lint(D), |P|)`, exactly and in order.
//! Data handed to the model besides the text: per distinct Number text its `to_string()` and its value as
//! SpelledNumbers sees it; per distinct Word text (and per concatenation MergeWords looks up) twenty
//! metadata bits; per character its case data (monitor: functions of the TEXT).
use crate::common::*;
use crate::corpus;
use crate::tokfmt::*;
use harper_core::linting::{
    AdjectiveOfA, AvoidCurses, CapitalizePersonalPronouns, CommaFixes, CompoundNouns, HopHope, InflectedVerbAfterTo, LetsConfusion, Lint, LintKind, Linter, LinkingVerbs, MergeWords, NoOxfordComma, OxfordComma,
    PronounContraction, SpelledNumbers, Suggestion, TheHowWhy, WidelyAccepted, WordPressDotcom,
};
use harper_core::parsers::{Markdown, PlainEnglish};
use harper_core::{CharStringExt, Dictionary, Document, FstDictionary, Token, TokenKind};
use serde_json::{Value, json};
use std::cell::RefCell;
use std::collections::{BTreeMap, BTreeSet, HashMap};

/// (rule, source files or directories under harper-core/src/linting, modelled?)
pub const RULES2: [(&str, &str, bool); 17] = [
    ("SpelledNumbers", "spelled_numbers.rs", true),
    ("CapitalizePersonalPronouns", "capitalize_personal_pronouns.rs", true),
    ("AvoidCurses", "avoid_curses.rs", true),
    ("WordPressDotcom", "wordpress_dotcom.rs", true),
    ("LinkingVerbs", "linking_verbs.rs", true),
    ("CommaFixes", "comma_fixes.rs", true),
    ("MergeWords", "merge_words.rs", true),
    ("AdjectiveOfA", "adjective_of_a.rs", true),
    ("OxfordComma", "oxford_comma.rs", true),
    ("NoOxfordComma", "no_oxford_comma.rs", true),
    ("WidelyAccepted", "widely_accepted.rs", true),
    ("TheHowWhy", "the_how_why.rs", true),
    ("InflectedVerbAfterTo", "inflected_verb_after_to.rs", true),
    ("HopHope", "hop_hope", false),
    ("CompoundNouns", "compound_nouns", false),
    ("PronounContraction", "pronoun_contraction", false),
    ("LetsConfusion", "lets_confusion", false),
];

fn modelled(rule: &str) -> bool {
    RULES2.iter().any(|r| r.0 == rule && r.2)
}

thread_local! { static INST: RefCell<HashMap<&'static str, Box<dyn Linter>>> = RefCell::new(HashMap::new()); }

fn make(rule: &str) -> Box<dyn Linter> {
    match rule {
        "SpelledNumbers" => Box::new(SpelledNumbers),
        "CapitalizePersonalPronouns" => Box::new(CapitalizePersonalPronouns),
        "AvoidCurses" => Box::new(AvoidCurses),
        "WordPressDotcom" => Box::new(WordPressDotcom),
        "LinkingVerbs" => Box::new(LinkingVerbs),
        "CommaFixes" => Box::new(CommaFixes),
        "MergeWords" => Box::new(MergeWords::default()),
        "AdjectiveOfA" => Box::new(AdjectiveOfA),
        "OxfordComma" => Box::new(OxfordComma::default()),
        "NoOxfordComma" => Box::new(NoOxfordComma::default()),
        "WidelyAccepted" => Box::new(WidelyAccepted::default()),
        "TheHowWhy" => Box::new(TheHowWhy::default()),
        "InflectedVerbAfterTo" => Box::new(InflectedVerbAfterTo::new(dict(), harper_core::Dialect::American)),
        "HopHope" => Box::new(HopHope::default()),
        "CompoundNouns" => Box::new(CompoundNouns::default()),
        "PronounContraction" => Box::new(PronounContraction::default()),
        "LetsConfusion" => Box::new(LetsConfusion::default()),
        _ => panic!("unknown rule {}", rule),
    }
}

/// the real rule, alone (one long-lived instance per thread; none of these rules keeps state between calls)
pub fn run_rule(rule: &'static str, doc: &Document) -> Vec<Lint> {
    INST.with(|m| {
        let mut m = m.borrow_mut();
        let l = m.entry(rule).or_insert_with(|| make(rule));
        l.lint(doc)
    })
}

fn cps(cs: &[char]) -> String {
    if cs.is_empty() { "-".to_string() } else { cs.iter().map(|c| (*c as u32).to_string()).collect::<Vec<_>>().join(".") }
}

fn dict() -> std::sync::Arc<FstDictionary> {
    FstDictionary::curated()
}

const M_BEFORE: &str = "Don't use a space before a comma.";
const M_ASIAN: &str = "Avoid East Asian commas in English contexts.";
const M_AFTER: &str = "Use a space after a comma.";

/// message code + numeric argument; lint kind and priority are part of the code (0 = not a lint the model knows)
fn msg_code(l: &Lint, doc: &Document) -> (u32, u64) {
    let m = l.message.as_str();
    let (k, p) = (l.lint_kind, l.priority);
    let src = doc.get_source();
    let text_of = |s: usize, e: usize| -> String { if s <= e && e <= src.len() { src[s..e].iter().collect() } else { "\u{0}".to_string() } };
    if k == LintKind::Readability && p == 63 && m == "Try to spell out numbers less than ten." {
        return (21, 0);
    }
    if k == LintKind::Capitalization && p == 31 && m == "The first-person singular subject pronoun must be capitalized." {
        return (22, 0);
    }
    if k == LintKind::Miscellaneous && p == 63 && m == "Try to avoid offensive language." {
        return (23, 0);
    }
    if k == LintKind::Style && p == 31 && m == "The WordPress hosting provider should be stylized as `WordPress.com`" {
        return (24, 0);
    }
    if k == LintKind::Miscellaneous && p == 127 && m == format!("Linking verbs like “{}” must be preceded by a noun or pronoun.", text_of(l.span.start, l.span.end)) {
        return (25, 0);
    }
    if k == LintKind::Punctuation && p == 32 {
        for mask in 1..8u64 {
            let mut parts = vec![];
            if mask & 1 != 0 {
                parts.push(M_BEFORE);
            }
            if mask & 2 != 0 {
                parts.push(M_ASIAN);
            }
            if mask & 4 != 0 {
                parts.push(M_AFTER);
            }
            if m == parts.join(" ") {
                return (26, mask);
            }
        }
    }
    if k == LintKind::WordChoice && p == 63 && m == "It seems these words would go better together." {
        return (27, 0);
    }
    if k == LintKind::WordChoice && p == 63 && m == "It seems you intended to make this a contraction." {
        return (28, 0);
    }
    if k == LintKind::Style && p == 31 && m == "An Oxford comma is necessary here." {
        return (29, 0);
    }
    if k == LintKind::Style && p == 31 && m == "Remove the Oxford comma here." {
        return (30, 0);
    }
    if k == LintKind::Style && p == 63 && m == "The word `of` is not needed here." {
        return (31, 0);
    }
    if k == LintKind::Miscellaneous && p == 31 && m == "Use the adverb `widely` in this context. For example, `widely accepted` or `widely used` is standard usage." {
        return (32, 0);
    }
    if k == LintKind::Miscellaneous && p == 31 {
        // the "question word" is `matched_tokens[2]`: the token right after the two flagged ones (a blank
        // when the whitespace after `the` is made of two tokens)
        if let Some(q) = doc.get_tokens().iter().find(|t| t.span.start == l.span.end && t.span.end > t.span.start) {
            let qw = text_of(q.span.start, q.span.end);
            if m == format!("Remove `the` before `{}`. In most contexts, `{}` alone is clearer.", qw, qw) {
                return (33, 0);
            }
        }
    }
    if k == LintKind::WordChoice && p == 127 && m == "The base form of the verb is needed here." {
        return (34, 0);
    }
    (0, 0)
}

fn show_lint(l: &Lint, doc: &Document) -> String {
    let (code, arg) = msg_code(l, doc);
    let sg = if l.suggestions.is_empty() {
        "-".to_string()
    } else {
        l.suggestions
            .iter()
            .map(|s| match s {
                Suggestion::ReplaceWith(cs) => format!("R{}", cps(cs)),
                Suggestion::Remove => "X".to_string(),
                Suggestion::InsertAfter(cs) => format!("I{}", cps(cs)),
            })
            .collect::<Vec<_>>()
            .join(",")
    };
    format!("{}:{}:{}:{}:{}", l.span.start, l.span.end, code, arg, sg)
}

fn show_lints(ls: &[Lint], doc: &Document) -> String {
    let mut s = String::from("ok");
    for l in ls {
        s.push(' ');
        s.push_str(&show_lint(l, doc));
    }
    s
}

/// the twenty metadata bits of `Model/Rules2.lean` (0–17 as in leaves.rs) of a Word kind over `text`
fn kind_flags(k: &TokenKind, text: &[char], d: &FstDictionary) -> u32 {
    let b = |x: bool, i: u32| (x as u32) << i;
    let mut f = b(k.is_preposition(), 0)
        | b(k.is_conjunction(), 1)
        | b(k.is_likely_homograph(), 2)
        | b(k.is_adjective(), 3)
        | b(k.is_determiner(), 4)
        | b(k.is_proper_noun(), 5)
        | b(k.is_nominal(), 6)
        | b(k.is_verb(), 7)
        | b(k.is_noun(), 8)
        | b(k.is_possessive_nominal(), 9)
        | b(k.is_plural_nominal(), 10)
        | b(k.is_linking_verb(), 11)
        | b(k.is_pronoun(), 12)
        | b(k.is_adverb(), 13)
        | b(k.is_not_plural_nominal(), 14)
        | b(matches!(k, TokenKind::Word(Some(_))), 15)
        | b(k.is_swear(), 18)
        | b(d.contains_word(text), 19);
    if let TokenKind::Word(Some(md)) = k {
        let lower = text.to_lower();
        let merged = match d.get_word_metadata(&lower) {
            Some(ml) => md.clone().or(ml),
            None => md.clone(),
        };
        f |= b(merged.preposition, 16) | b(merged.determiner, 17);
    }
    f
}

/// the three data groups + whether the data were a function of the token text (monitor)
fn env_fields(doc: &Document) -> (String, bool) {
    let src = doc.get_source();
    let d = dict();
    let mut nums: BTreeMap<Vec<char>, String> = BTreeMap::new();
    let mut words: BTreeMap<Vec<char>, (u32, Option<Vec<char>>)> = BTreeMap::new();
    let mut chars: BTreeSet<char> = src.iter().copied().collect();
    chars.extend("WordPress.com'widely,I ".chars());
    let mut functional = true;
    let toks = doc.get_tokens();
    let text_at = |t: &Token| -> Option<Vec<char>> {
        let (s, e) = (t.span.start, t.span.end);
        if s <= e && e <= src.len() { Some(src[s..e].to_vec()) } else { None }
    };
    let mut add_word = |words: &mut BTreeMap<Vec<char>, (u32, Option<Vec<char>>)>, chars: &mut BTreeSet<char>, text: Vec<char>, kind: &TokenKind, functional: &mut bool| {
        let f = kind_flags(kind, &text, &d);
        if let Some(old) = words.get(&text) {
            if old.0 != f {
                *functional = false;
            }
        } else {
            let canon = d.get_correct_capitalization_of(&text).map(|c| c.to_vec());
            if let Some(c) = &canon {
                chars.extend(c.iter().copied());
            }
            words.insert(text, (f, canon));
        }
    };
    for (i, t) in toks.iter().enumerate() {
        let Some(text) = text_at(t) else { continue };
        match &t.kind {
            TokenKind::Number(n) => {
                let disp: Vec<char> = n.to_string().chars().collect();
                let v: f64 = n.value.into();
                // SpelledNumbers' integrality test, and `value as u64`
                let val = if (v - v.floor()).abs() < f64::EPSILON { format!("i{}", v as u64) } else { "x".to_string() };
                let entry = format!("{}/{}/{}", cps(&text), cps(&disp), val);
                if let Some(old) = nums.get(&text) {
                    if *old != entry {
                        functional = false;
                    }
                } else {
                    nums.insert(text, entry);
                }
            }
            TokenKind::Word(_) => {
                add_word(&mut words, &mut chars, text.clone(), &t.kind, &mut functional);
                // what InflectedVerbAfterTo looks up: the word without its last one / two characters
                if text.len() >= 4 && (text.ends_with(&['s']) || text.ends_with(&['e', 'd'])) {
                    for cut in [1, 2] {
                        let stem = text[..text.len() - cut].to_vec();
                        let md = d.get_word_metadata(&stem).cloned();
                        add_word(&mut words, &mut chars, stem, &TokenKind::Word(md), &mut functional);
                    }
                }
                // what MergeWords looks up: `a ++ b` and `a ++ "'" ++ b` for the windows (a, w, b)
                if i + 2 < toks.len() && toks[i + 1].kind.is_whitespace() && toks[i + 2].kind.is_word() {
                    if let Some(b) = text_at(&toks[i + 2]) {
                        for mid in [vec![], vec!['\'']] {
                            let mut both = text.clone();
                            both.extend(mid);
                            both.extend_from_slice(&b);
                            let md = d.get_word_metadata(&both).cloned();
                            add_word(&mut words, &mut chars, both, &TokenKind::Word(md), &mut functional);
                        }
                    }
                }
            }
            _ => {}
        }
    }
    let cf = chars
        .iter()
        .filter(|c| c.is_whitespace() || c.is_lowercase() || c.is_uppercase() || c.is_alphabetic() || c.is_alphanumeric() || c.to_lowercase().ne([**c]))
        .map(|c| {
            let mut f = String::new();
            if c.is_lowercase() {
                f.push('l');
            }
            if c.is_uppercase() {
                f.push('u');
            }
            if c.is_alphabetic() {
                f.push('a');
            }
            if c.is_alphanumeric() {
                f.push('n');
            }
            if c.is_whitespace() {
                f.push('w');
            }
            if f.is_empty() {
                f.push('-');
            }
            format!("{}/{}/{}", *c as u32, f, cps(&c.to_lowercase().collect::<Vec<_>>()))
        })
        .collect::<Vec<_>>()
        .join(" ");
    let wf = words
        .iter()
        .filter(|(_, f)| f.0 != 0 || f.1.is_some())
        .map(|(t, f)| match &f.1 {
            Some(c) => format!("{}/{}/{}", cps(t), f.0, cps(c)),
            None => format!("{}/{}", cps(t), f.0),
        })
        .collect::<Vec<_>>()
        .join(" ");
    (format!("{} | {} | {}", nums.values().cloned().collect::<Vec<_>>().join(" "), wf, cf), functional)
}

pub struct RuleOut {
    k: Vec<(String, String)>,
    fails: Vec<(String, String, Value)>,
    counts: Vec<String>,
    monitors: Vec<(String, bool)>,
    nontrivial: bool,
}

impl RuleOut {
    fn new() -> Self {
        RuleOut { k: vec![], fails: vec![], counts: vec![], monitors: vec![], nontrivial: false }
    }
}

const FUNCTIONAL: &str = "rules2: number display/value and word metadata are functions of the token's text (same text, same data within a document)";
const CONJ: &str = "rules2: every word WordSet[and, or, nor] accepts is a conjunction for the dictionary (premise of oxfordComma_total)";

/// the oracle on one real lint: in range, and every suggestion is the splice
fn check_lint(rule: &str, l: &Lint, src: &[char], kind: &str, text: &str, out: &mut RuleOut) {
    let input = json!({"kind": kind, "rule": rule, "text": text});
    if !(l.span.start <= l.span.end && l.span.end <= src.len()) {
        out.fails.push((
            format!("rule2-span-out-of-range-{}", rule),
            format!("{} alone reports span {}..{} on a text of {} characters", rule, l.span.start, l.span.end, src.len()),
            input,
        ));
        return;
    }
    for s in &l.suggestions {
        let mut v = src.to_vec();
        let sp = l.span;
        let r = guarded(|| {
            s.apply(sp, &mut v);
            v
        });
        let new: Vec<char> = match s {
            Suggestion::ReplaceWith(cs) => cs.clone(),
            Suggestion::Remove => vec![],
            Suggestion::InsertAfter(cs) => src[sp.start..sp.end].iter().copied().chain(cs.iter().copied()).collect(),
        };
        let want: Vec<char> = src[..sp.start].iter().copied().chain(new.into_iter()).chain(src[sp.end..].iter().copied()).collect();
        match r {
            Ok(got) if got == want => {}
            Ok(_) => out.fails.push((format!("rule2-suggestion-not-local-{}", rule), format!("{}: applying {:?} at {}..{} is not the splice", rule, s, sp.start, sp.end), input.clone())),
            Err(e) => out.fails.push((format!("rule2-suggestion-panics-{}", rule), format!("{}: applying {:?} at {}..{} panics: {}", rule, s, sp.start, sp.end, e), input.clone())),
        }
    }
    out.counts.push("rules2:suggestions-applied".into());
}

/// premise of `oxfordComma_total`, evaluated on every word of the document
fn conj_monitor(doc: &Document, out: &mut RuleOut) {
    let src = doc.get_source();
    for t in doc.get_tokens() {
        if !t.kind.is_word() || t.span.end > src.len() {
            continue;
        }
        let w: String = src[t.span.start..t.span.end].iter().collect();
        if ["and", "or", "nor"].iter().any(|c| w.len() == c.len() && w.eq_ignore_ascii_case(c)) {
            out.monitors.push((CONJ.into(), t.kind.is_conjunction()));
        }
    }
}

/// one text × the given rules
pub fn eval_text(text: &str, rules: &[&'static str], md: bool, out: &mut RuleOut) {
    let built = if md { guarded(|| Document::new(text, &Markdown::default(), &dict())) } else { guarded(|| Document::new(text, &PlainEnglish, &dict())) };
    let Ok(doc) = built else {
        out.counts.push("rules2:document-panicked(C01's business)".into());
        return;
    };
    let src: Vec<char> = text.chars().collect();
    let (ef, functional) = env_fields(&doc);
    out.monitors.push((FUNCTIONAL.into(), functional));
    conj_monitor(&doc, out);
    let (op, kind) = if md { ("rule2toks", "rule2-md") } else { ("rule2", "rule2") };
    let head = if md { format!("| {} | {} | {}", chars_field(&src), toks_show(doc.get_tokens()), ef) } else { format!("| {} | {} | {}", text_field(&src), ext_field(doc.get_tokens()), ef) };
    if md && doc.get_tokens().iter().any(|t| t.span.start == t.span.end) {
        out.counts.push("rules2:markdown-with-zero-width-token".into());
    }
    for r in rules {
        let res = guarded(|| run_rule(r, &doc));
        match &res {
            Ok(ls) => {
                if modelled(r) {
                    out.k.push((format!("{} {} {}", op, r, head), show_lints(ls, &doc)));
                }
                if !ls.is_empty() {
                    out.nontrivial = true;
                    out.counts.push(format!("rules2:{}lints:{}", if md { "markdown-" } else { "" }, r));
                }
                for l in ls {
                    check_lint(r, l, &src, kind, text, out);
                    if modelled(r) && msg_code(l, &doc).0 == 0 {
                        out.counts.push(format!("rules2:unknown-message:{}", r));
                    }
                }
            }
            Err(e) => {
                if modelled(r) {
                    out.k.push((format!("{} {} {}", op, r, head), "panic".to_string()));
                }
                out.nontrivial = true;
                out.fails.push((format!("rule2-panic-{}", r), format!("{} alone panics on {}: {}", r, if md { "a Markdown document" } else { "plain English" }, e), json!({"kind": kind, "rule": r, "text": text})));
            }
        }
    }
}

type LKey = (usize, usize, String);

fn lkey(l: &Lint, by: usize) -> LKey {
    (l.span.start + by, l.span.end + by, format!("{:?}|{}|{:?}|{}", l.lint_kind, l.message, l.suggestions, l.priority))
}

/// paragraph locality of each rule alone on (P, D), exactly and in order
pub fn eval_pair(p: &str, d: &str, rules: &[&'static str], out: &mut RuleOut) {
    let whole = format!("{}{}", p, d);
    let plen = p.chars().count();
    let docs: Vec<Option<Document>> = [p, d, whole.as_str()].iter().map(|t| guarded(|| Document::new(t, &PlainEnglish, &dict())).ok()).collect();
    let (Some(dp), Some(dd), Some(dw)) = (&docs[0], &docs[1], &docs[2]) else { return };
    for r in rules {
        let (Ok(lp), Ok(ld), Ok(lw)) = (guarded(|| run_rule(r, dp)), guarded(|| run_rule(r, dd)), guarded(|| run_rule(r, dw))) else {
            continue; // reported by eval_text
        };
        let want: Vec<LKey> = lp.iter().map(|l| lkey(l, 0)).chain(ld.iter().map(|l| lkey(l, plen))).collect();
        let got: Vec<LKey> = lw.iter().map(|l| lkey(l, 0)).collect();
        if !lp.is_empty() && !ld.is_empty() {
            out.counts.push(format!("rules2:pair-with-lints-in-both:{}", r));
        }
        if want != got {
            out.fails.push((
                format!("c12-rule2-{}", r),
                format!(
                    "{} alone: lint(P+D) ≠ lint(P) ++ shift(lint(D)): got {:?}, want {:?}",
                    r,
                    got.iter().filter(|k| !want.contains(k)).take(3).collect::<Vec<_>>(),
                    want.iter().filter(|k| !got.contains(k)).take(3).collect::<Vec<_>>()
                ),
                json!({"kind": "rule2-pair", "rule": r, "P": p, "D": d}),
            ));
        }
    }
}

fn merge(sess: &mut Session, o: RuleOut, key: &str) {
    let mut case = None;
    for (op, imp) in &o.k {
        case = Some(sess.k(op, imp));
    }
    sess.o();
    for c in &o.counts {
        sess.count(c);
    }
    for (m, held) in &o.monitors {
        sess.monitor(m, *held);
    }
    if o.nontrivial {
        sess.nontrivial(key);
    }
    for (class, desc, input) in o.fails {
        sess.fail(&class, desc, input, case);
    }
}

/// all concatenations of 0..=n pieces
fn concats(pieces: &[&str], n: usize) -> Vec<String> {
    let mut out = vec![String::new()];
    let mut layer = vec![String::new()];
    for _ in 0..n {
        let mut next = Vec::with_capacity(layer.len() * pieces.len());
        for s in &layer {
            for p in pieces {
                next.push(format!("{}{}", s, p));
            }
        }
        out.extend(next.iter().cloned());
        layer = next;
    }
    out.sort();
    out.dedup();
    out
}

/// the rule's own unit-test strings (every string literal of its source file, or of every file of its directory)
fn harvest(path: &str) -> Vec<String> {
    let base = format!("/repo/harper-core/src/linting/{}", path);
    let mut files = vec![];
    if path.ends_with(".rs") {
        files.push(std::path::PathBuf::from(base));
    } else if let Ok(rd) = std::fs::read_dir(&base) {
        let mut es: Vec<_> = rd.flatten().map(|e| e.path()).filter(|p| p.extension().is_some_and(|e| e == "rs")).collect();
        es.sort();
        files = es;
    }
    let mut v: Vec<String> = vec![];
    for f in files {
        let Ok(src) = std::fs::read_to_string(f) else { continue };
        v.extend(corpus::string_literals(&src).into_iter().filter(|s| !s.is_empty() && s.len() < 400 && !s.contains('{')));
    }
    v.sort();
    v.dedup();
    v
}

/// case / blank / punctuation variants of a test sentence
fn variants(s: &str) -> Vec<String> {
    let mut v = vec![s.to_uppercase(), s.to_lowercase(), s.replace(' ', "  "), s.replacen(' ', "\n", 1), s.replace(", ", " , "), s.replace(", ", ","), s.replace(',', "，"), format!("{} ", s), format!(" {}", s), format!("{}!", s), format!("({})", s)];
    if let Some(i) = s.rfind(' ') {
        v.push(format!("{}\n\n{}", &s[..i], &s[i + 1..]));
        v.push(format!("{},{}", &s[..i], &s[i..]));
    }
    let mut cs: Vec<char> = s.chars().collect();
    if let Some(c) = cs.first_mut() {
        *c = if c.is_uppercase() { c.to_lowercase().next().unwrap() } else { c.to_uppercase().next().unwrap() };
    }
    v.push(cs.into_iter().collect());
    v
}

pub const TRIGGERS2: &[&str] = &[
    "i am", "i'm", "9 pigs", "3 of 4", "0.5", "shit", "wordpress.com", "WORDPRESS.COM", "working is", "quickly is", "foo ,bar", "foo，bar", "foo , bar", "foo,bar", "a、 b", "The refore", "that s", "her etofore",
    "big of a", "large of an", "apples, pears and grapes", "apples, pears, and grapes", "the cat, a dog or the bird", "wide accepted", "Wide used", "the how", "the why it", "The who", "the how to",
    "to existed", "To seems", "your the best", "let's us", "lets go", "hope on a bus", "web cam",
];

fn inject(rng: &mut Rng, text: &str, item: &str) -> String {
    let cs: Vec<char> = text.chars().collect();
    let spaces: Vec<usize> = cs.iter().enumerate().filter(|(_, c)| **c == ' ').map(|(i, _)| i).collect();
    if spaces.is_empty() {
        return format!("{} {}", item, text);
    }
    let at = spaces[rng.below(spaces.len())];
    let mut out: String = cs[..at].iter().collect();
    out.push(' ');
    out.push_str(item);
    out.extend(cs[at..].iter());
    out
}

enum Job {
    Md(String, Vec<&'static str>),
    Text(String, Vec<&'static str>),
    /// (P, D, rules for K on P+D)
    Pair(String, String, Vec<&'static str>),
}

fn all_rules() -> Vec<&'static str> {
    RULES2.iter().map(|r| r.0).collect()
}

fn run_jobs(sess: &mut Session, jobs: Vec<Job>, origin: &str) {
    let all = all_rules();
    let outs = par_map(jobs.len(), 16, |i| {
        let mut o = RuleOut::new();
        match &jobs[i] {
            Job::Md(t, rs) => eval_text(t, rs, true, &mut o),
            Job::Text(t, rs) => eval_text(t, rs, false, &mut o),
            Job::Pair(p, d, krules) => {
                eval_pair(p, d, &all, &mut o);
                eval_text(&format!("{}{}", p, d), krules, false, &mut o);
            }
        }
        o
    });
    for (i, o) in outs.into_iter().enumerate() {
        sess.count(&format!("rules2:origin:{}", origin));
        let key = match &jobs[i] {
            Job::Text(t, rs) => format!("rules2\u{0}{}\u{0}{}", rs.first().copied().unwrap_or(""), t),
            Job::Md(t, _) => format!("rule2md\u{0}{}", t),
            Job::Pair(p, d, _) => format!("rules2-pair\u{0}{}\u{0}{}", p, d),
        };
        merge(sess, o, &key);
    }
}

pub fn replay(sess: &mut Session, v: &Value) -> bool {
    let all = all_rules();
    let rule = v["rule"].as_str().unwrap_or("");
    let rules: Vec<&'static str> = all.iter().copied().filter(|r| *r == rule).collect();
    match v["kind"].as_str().unwrap_or("") {
        "rule2" | "rule2-md" => {
            let mut o = RuleOut::new();
            eval_text(v["text"].as_str().unwrap_or(""), &rules, v["kind"] == "rule2-md", &mut o);
            merge(sess, o, "replay");
            true
        }
        "rule2-pair" => {
            let mut o = RuleOut::new();
            let (p, d) = (v["P"].as_str().unwrap_or(""), v["D"].as_str().unwrap_or(""));
            eval_pair(p, d, &rules, &mut o);
            eval_text(&format!("{}{}", p, d), &rules, false, &mut o);
            merge(sess, o, "replay");
            true
        }
        _ => false,
    }
}

pub const RULE: &str = "RULES, BATCH 2 (each real struct rule ALONE; model: Harper.Rules2 for thirteen of seventeen — InflectedVerbAfterTo (registered with out.add), SpelledNumbers, CapitalizePersonalPronouns, AvoidCurses, WordPressDotcom, LinkingVerbs, CommaFixes, MergeWords, AdjectiveOfA, OxfordComma, NoOxfordComma, WidelyAccepted, TheHowWhy; oracles only for HopHope, CompoundNouns, PronounContraction, LetsConfusion): corpus = every string literal of each rule's source file(s) × all sixteen rules, with upper / lower / swapped-initial case, doubled blanks, newline for blank, blank before comma, no blank after comma, full-width commas, paragraph break before the last word, brackets; hand-written witnesses; EXHAUSTIVE per rule: all concatenations of ≤4 (≤5 for AdjectiveOfA) pieces of a rule-specific list of 6–8 pieces (numbers with and without suffix; i / I / i'm; swear words; five spellings of wordpress.com; linking verbs after nominals, adverbs, unknown words; words, blanks, the three commas, a digit, a CJK character; the halves of `therefore`, `that's`, one-letter capitals; `big of a` with one and two blanks, false positives, comparatives; `wide accepted`; `the how / who / why / to / 's`), list templates item{sep}item{ws}conj{ws}item[…] for the two Oxford-comma rules over 4 items × 3 separators × 4 conjunctions × 3 openings × 2 endings; MARKDOWN: every trigger and test sentence in six templates, the real Markdown tokens handed to the model as data (op `rule2toks`); RANDOM: (P, D) pairs of rule-test sentences with a trigger construct injected into BOTH paragraphs, and a grid of paragraph endings × openings that the whole-document rules (CommaFixes, MergeWords, AdjectiveOfA, InflectedVerbAfterTo) could reach across. O on the real rule: no panic, spans in range, every suggestion applied = the splice, per-rule paragraph locality exactly and in order.";

pub fn run_into(sess: &mut Session, ctx: &Ctx, rng: &mut Rng) {
    let thorough = ctx.tier == Tier::Thorough;
    let all = all_rules();
    // ---- 1. corpus: the rules' own test sentences, variants, witnesses ---------------------------------
    let mut jobs = vec![];
    let mut tests: Vec<String> = vec![];
    for (_, file, _) in RULES2 {
        tests.extend(harvest(file));
    }
    tests.sort();
    tests.dedup();
    for (i, s) in tests.iter().enumerate() {
        jobs.push(Job::Text(s.clone(), all.clone()));
        if s.split_whitespace().count() >= 2 {
            // quick: four of the fourteen variants per sentence, rotating
            for (j, v) in variants(s).into_iter().enumerate() {
                if thorough || (i + j) % 7 < 2 {
                    jobs.push(Job::Text(v, all.clone()));
                }
            }
        }
    }
    for t in [
        "", " ", "\n\n", ",", "，", "、", ", ", " ,", "a,", ",a", "a ,", "a , b", "a ,b", "a，b", "a ， b", "a 、b", "1,2", "1 , 2", "严，b", "a，严", "严 ， b", "a,\n\nb", "a\n\n,b", "a \n\n, b", "foo\n\n， bar",
        "9", "9.0", "9.5", "10", "0", "007", "1e0", "1e-17", "0x9", "9th", "9 th", "3.0", "1.", "²", "9999999999999999999999",
        "i", "I", "i'm", "i'd", "i'll", "i've", "i's", "i're", "i'd've", "i'M", "i 'm", "i'd\\ve", "I'm", "i’m", "hi i am", "İ",
        "shit", "Shit happens", "fuck", "damn", "ass",
        "wordpress.com", "WordPress.com", "WORDPRESS.COM", "wordpress.org", "Wordpress.Com.", "see wordpress.com/x", "ẅordpress.com",
        "working is", "is", "Is it", "Dora is", "quickly are", "xyzzy is", "the is", "run, is", "he and is",
        "The refore", "the refore", "that s", "a s", "S k", "I s", "note book", "note\nbook", "note  book", "note\n\nbook", "her etofore", "can not", "a lot", "in to", "Th e",
        "big of a", "big of an", "big  of a", "big of  a", "big of\na", "Big Of A", "kind of a", "bigger of a", "best of a", "amazing of a", "big of the", "big of", "big", "big of a big of a", "big\n\nof a", "big of\n\na",
        "apples, pears and grapes", "apples, pears, and grapes", "apples, pears and", "In time, apples, pears and grapes.", "the cat, a dog or the bird", "a, b and c", "Tom, Dick, and Harry", "so, but and or", "and, or and nor", "but, cat and dog", "But, cat AND dog", "yet, so nor but",
        "wide accepted", "Wide Accepted", "WIDE USED", "wide  acceptable", "wide\naccepted", "wide, accepted", "widely accepted",
        "to ams", "to bes", "to iss", "to bees", "to ised", "to as", "to s", "to existed", "To seems", "to agreed", "to  arrives", "to\nenjoyed", "to existed to seems", "went to\n\nexisted", "to walked", "To walks", "to  hoped", "to\nwatches", "to passes", "to beliefs", "to bed", "to checked", "to used.", "went to\n\nwalked", "to", "to ", "to walked to walks", "to, walked", "TO walked", "to liked",
        "the how", "the how to", "the how  to", "The Who", "the who's who", "the who 's who", "the why", "the when.", "the what,", "the how\n", "the\nhow", "the how ", "the how to.", "see the how",
    ] {
        jobs.push(Job::Text(t.to_string(), all.clone()));
    }
    run_jobs(sess, std::mem::take(&mut jobs), "corpus");
    // ---- Markdown: the real Markdown parser's tokens handed to the model as data -----------------------
    let md_templates: [&dyn Fn(&str) -> String; 6] = [
        &|t| t.to_string(),
        &|t| format!("# {}\n\n{}\n", t, t),
        &|t| format!("- {}\n- {}\n", t, t),
        &|t| format!("First. *{}* and **{}**\n", t, t),
        &|t| format!("> {}\n\n`code` {} [{}](http://x.y)\n", t, t, t),
        &|t| format!("a\n{}\n| x | {} |\n", t, t),
    ];
    let mut md_items: Vec<String> = TRIGGERS2.iter().map(|s| s.to_string()).collect();
    let ntests = if thorough { tests.len() } else { tests.len().min(40) };
    for _ in 0..ntests {
        md_items.push(tests[rng.below(tests.len())].clone());
    }
    for it in &md_items {
        for f in md_templates.iter() {
            jobs.push(Job::Md(f(it), all.clone()));
        }
    }
    run_jobs(sess, std::mem::take(&mut jobs), "markdown");
    // ---- 2. exhaustive small scope -----------------------------------------------------------------------
    let ex = |jobs: &mut Vec<Job>, rules: &[&'static str], pieces: &[&str], n: usize| {
        for t in concats(pieces, n) {
            jobs.push(Job::Text(t, rules.to_vec()));
        }
    };
    let d = if thorough { 1 } else { 0 };
    ex(&mut jobs, &["SpelledNumbers"], &["1", "9", "10", ".5", " ", "a", "st"], 4 + d);
    ex(&mut jobs, &["CapitalizePersonalPronouns"], &["i", "I", "'m", "'d", " ", "a"], 4 + d);
    ex(&mut jobs, &["CapitalizePersonalPronouns"], &["i", "'s", "'ve", "'ll", "'re", "'d\\ve", "'d've", " ", "."], 3 + d);
    ex(&mut jobs, &["AvoidCurses"], &["shit", "Shit", "damn", "a", " ", ".", "-"], 3 + d);
    ex(&mut jobs, &["WordPressDotcom"], &["wordpress.com", "WordPress.com", "WORDPRESS", ".com", "wordpress", " ", "a."], 3 + d);
    ex(&mut jobs, &["LinkingVerbs"], &["working", "is", "Dora", "quickly", "xyzzy", " ", ", "], 4 + d);
    ex(&mut jobs, &["CommaFixes"], &["foo", " ", ",", "，", "、", "1", "严", "."], 4);
    ex(&mut jobs, &["CommaFixes"], &["a", " ", ",", "，", "\n\n", "b"], 4 + 2 * d);
    ex(&mut jobs, &["MergeWords"], &["The", "refore", "that", "s", " ", "a", "S"], 4 + d);
    ex(&mut jobs, &["MergeWords"], &["note", "book", " ", "\n", "\n\n", "."], 4 + d);
    ex(&mut jobs, &["AdjectiveOfA"], &["big", " ", "of", "a", "\n\n"], 5 + d);
    ex(&mut jobs, &["AdjectiveOfA"], &["bigger", "big", "  ", " ", "of", "an", "kind"], 3 + 2 * d);
    for adj in ["big", "bigger", "kind", "running", "Big", "BIG", "best", "amazing", "xyzzy"] {
        for ws1 in [" ", "  ", "\n"] {
            for of in ["of", "Of", "off"] {
                for ws2 in [" ", "  ", "\n"] {
                    for a in ["a", "an", "the", "A"] {
                        jobs.push(Job::Text(format!("{}{}{}{}{} dog", adj, ws1, of, ws2, a), vec!["AdjectiveOfA"]));
                    }
                }
            }
        }
    }
    ex(&mut jobs, &["InflectedVerbAfterTo"], &["to", "To", "existed", "seems", "passes", " ", "\n\n", "bed"], 4);
    ex(&mut jobs, &["InflectedVerbAfterTo"], &["to", "ams", "bes", "bees", "iss", "ised", " ", "s"], 3 + d);
    ex(&mut jobs, &["WidelyAccepted"], &["wide", "Wide", "accepted", "used", " ", ","], 4 + d);
    ex(&mut jobs, &["TheHowWhy"], &["the", "The", "how", "to", " ", "why", ","], 4 + d);
    ex(&mut jobs, &["TheHowWhy"], &["the", " ", "who", "'s", "how", "\n"], 4 + 2 * d);
    ex(&mut jobs, &["OxfordComma", "NoOxfordComma"], &["apples", "the", ",", " ", "and", "pears"], 4 + 2 * d);
    let prefixes: &[&str] = if thorough { &["", "In time, ", "I like "] } else { &["", "In time, "] };
    let items: &[&str] = if thorough { &["apples", "the pears", "Tom", "quickly"] } else { &["apples", "the pears", "quickly"] };
    for prefix in prefixes {
        for i1 in items {
            for i2 in items {
                for i3 in ["grapes", "a dog", "but"] {
                    for sep in [", ", ",", " , "] {
                        for conj in ["and", "or", "NOR", "but"] {
                            for suffix in ["", " too."] {
                                jobs.push(Job::Text(format!("{}{}{}{} {} {}{}", prefix, i1, sep, i2, conj, i3, suffix), vec!["OxfordComma", "NoOxfordComma"]));
                                jobs.push(Job::Text(format!("{}{}{}{}{}{} {}{}", prefix, i1, sep, i2, sep, conj, i3, suffix), vec!["OxfordComma", "NoOxfordComma"]));
                                if sep == ", " {
                                    jobs.push(Job::Text(format!("{}{}, {}, x, {} {} {}{}", prefix, i1, i2, i3, conj, i1, suffix), vec!["OxfordComma", "NoOxfordComma"]));
                                }
                            }
                        }
                    }
                }
            }
        }
    }
    run_jobs(sess, std::mem::take(&mut jobs), "small-scope");
    // ---- 3. structured random: (P, D) pairs with triggers in both paragraphs ----------------------------
    let pool: Vec<&String> = corpus::sentences()
        .iter()
        .filter(|s| !s.chars().any(|c| ['"', '“', '”'].contains(&c)) && s.trim_end().ends_with(['.', '!', '?']) && s.trim_end().len() == s.len())
        .collect();
    let seps = ["\n\n", "\n\n\n", " \n\n", "\t\n\n", "\n\n\n\n"];
    let npairs = if thorough { 6000 } else { 400 };
    for i in 0..npairs {
        let mut p = pool[rng.below(pool.len())].clone();
        let mut dd = crate::textgen::sentence(rng);
        let a = *rng.pick(TRIGGERS2);
        let b = if rng.chance(1, 2) { a } else { *rng.pick(TRIGGERS2) };
        p = inject(rng, &p, a);
        dd = match i % 4 {
            0 => format!("{} {}", b, dd),
            1 => format!("{}{}", b, dd),
            _ => inject(rng, &dd, b),
        };
        jobs.push(Job::Pair(format!("{}{}", p, seps[rng.below(seps.len())]), dd, all.clone()));
    }
    // paragraph endings × openings that the whole-document rules index across
    for pe in ["foo", "foo ", "foo,", "foo ,", "foo，", "foo.", "note", "The", "that", "big", "big of", "big of ", "very big of a", "wide", "the", "apples, pears", "apples, pears and", "working", "9", "i", "to", "went to "] {
        for sep in ["\n\n", " \n\n"] {
            for op in [",bar", ", bar", " ,bar", "，bar", "、 bar", "bar", "book", "refore", "s", "of a dog", " of a dog", "a dog", "accepted", "how", "and grapes", "grapes", "is", "pigs", "am", "existed", " seems"] {
                jobs.push(Job::Pair(format!("{}{}", pe, sep), op.to_string(), vec!["CommaFixes", "MergeWords", "AdjectiveOfA", "InflectedVerbAfterTo"]));
            }
        }
    }
    run_jobs(sess, std::mem::take(&mut jobs), "random-pairs");
}

/// stand-alone entry (`hv RULES2`): the streams of this module only
pub fn run(ctx: &Ctx) {
    let mut sess = Session::new(ctx);
    let mut rng = Rng::new(ctx.seed);
    if let Some(v) = replay_input(ctx) {
        replay(&mut sess, &v);
        sess.nontrivial("replay-a");
        sess.nontrivial("replay-b");
        sess.finish("replay of one recorded batch-2 rule input", false, json!({}));
        return;
    }
    run_into(&mut sess, ctx, &mut rng);
    sess.finish(RULE, true, json!({}));
}
