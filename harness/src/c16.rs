//! C16 — the JavaScript-facing linter object (`harper_wasm::Linter`, built natively as an rlib).
//!
//! K: whole call sequences on ONE real `Linter` against the Lean state machine
//! (`Harper/Model/Wasm.lean`). The model is fed with what the real rule set returns
//! (`LintGroup::lint`, obtained independently with a `LintGroup` configured like the Linter's:
//! curated dictionary + the user words, curated config overlaid with `get_lint_config_as_json()`)
//! and the real tokens — once per candidate user dictionary (every word list `export_words()` has
//! returned so far in the sequence); the model decides which dictionary is in force.
//!
//! O: the property on the real API, for every call of every sequence, independent of the model
//! (a second real Linter that never ignores anything is the reference for the ignore clause; a
//! fresh real Linter per sequence is the reference for export → import).
use crate::common::*;
use harper_core::linting::{Lint, LintGroup, LintGroupConfig, Linter as _, Suggestion};
use harper_core::parsers::{Markdown, PlainEnglish};
use harper_core::{
    Dictionary, Document, FatToken, FstDictionary, Lrc, MergedDictionary, MutableDictionary, Punctuation, Quote, Token,
    TokenKind, WordId, WordMetadata, remove_overlaps,
};
use harper_wasm::{Dialect as WDialect, Language, Lint as WLint, Linter as WLinter, Span as WSpan, Suggestion as WSuggestion, SuggestionKind};
use serde_json::{Value, json};
use std::cell::RefCell;
use std::collections::{BTreeMap, BTreeSet, HashMap, HashSet};
use std::sync::Arc;

/// recorded finding: `import_words` re-synchronises only when the number of entries grew, and the
/// entries are keyed case-insensitively
const CLASS_STALE: &str = "c16-words-case-only-reimport-stale";
/// candidate finding: the ignore context hashes the neighbouring words' dictionary metadata
const CLASS_IGNORE_DICT: &str = "c16-ignored-lint-returns-after-import-words";

/// recorded finding (w25): two custom words that tie as suggestions for a misspelling come out in the
/// iteration order of the user dictionary's `hashbrown::HashMap`, which differs from one linter object
/// to the next (and after a rehash)
const CLASS_TIE: &str = "c16-user-words-tie-suggestion-order-per-linter";

const DIALECTS: [&str; 4] = ["American", "British", "Australian", "Canadian"];

fn wdialect(d: &str) -> WDialect {
    match d {
        "British" => WDialect::British,
        "Australian" => WDialect::Australian,
        "Canadian" => WDialect::Canadian,
        _ => WDialect::American,
    }
}
fn cdialect(d: &str) -> harper_core::Dialect {
    match d {
        "British" => harper_core::Dialect::British,
        "Australian" => harper_core::Dialect::Australian,
        "Canadian" => harper_core::Dialect::Canadian,
        _ => harper_core::Dialect::American,
    }
}
fn lang(md: bool) -> Language {
    if md { Language::Markdown } else { Language::Plain }
}

// ---------------------------------------------------------------------------------------------
// the rule set outside the Linter: `LintGroup::lint` for a stated user dictionary and config
// ---------------------------------------------------------------------------------------------

struct Shadow {
    groups: HashMap<(String, Vec<String>), (Arc<MergedDictionary>, LintGroup)>,
}

thread_local! { static SHADOW: RefCell<Shadow> = RefCell::new(Shadow { groups: HashMap::new() }); }

impl Shadow {
    fn entry(&mut self, dialect: &str, words: &[String]) -> &mut (Arc<MergedDictionary>, LintGroup) {
        if self.groups.len() > 48 {
            self.groups.clear();
        }
        self.groups.entry((dialect.to_string(), words.to_vec())).or_insert_with(|| {
            let mut user = MutableDictionary::new();
            user.extend_words(words.iter().map(|w| (w.chars().collect::<Vec<char>>(), WordMetadata::default())));
            let mut merged = MergedDictionary::new();
            merged.add_dictionary(FstDictionary::curated());
            merged.add_dictionary(Arc::new(user));
            let merged = Arc::new(merged);
            let group = LintGroup::new_curated_empty_config(merged.clone(), cdialect(dialect));
            (merged, group)
        })
    }
}

fn parse_doc(text: &str, md: bool, dict: &MergedDictionary) -> Document {
    let src: Vec<char> = text.chars().collect();
    if md { Document::new_from_vec(Lrc::new(src), &Markdown::default(), dict) } else { Document::new_from_vec(Lrc::new(src), &PlainEnglish, dict) }
}

/// (document, raw lints) of `text` for the user dictionary `words` and the Linter's config
fn shadow_lint(dialect: &str, words: &[String], cfg_json: &str, text: &str, md: bool) -> Result<(Document, Vec<Lint>), String> {
    SHADOW.with(|s| {
        let mut s = s.borrow_mut();
        let (dict, group) = s.entry(dialect, words);
        let dict = dict.clone();
        guarded(|| {
            let mut cfg: LintGroupConfig = serde_json::from_str(cfg_json).unwrap_or_default();
            cfg.fill_with_curated();
            group.config = cfg;
            let doc = parse_doc(text, md, &dict);
            let lints = group.lint(&doc);
            (doc, lints)
        })
    })
}

fn shadow_doc(dialect: &str, words: &[String], text: &str, md: bool) -> Result<Document, String> {
    SHADOW.with(|s| {
        let mut s = s.borrow_mut();
        let dict = s.entry(dialect, words).0.clone();
        guarded(|| parse_doc(text, md, &dict))
    })
}

// ---------------------------------------------------------------------------------------------
// encoding for the model (interners are per sequence: one sequence = one op line)
// ---------------------------------------------------------------------------------------------

#[derive(Default)]
struct Enc {
    kinds: HashMap<TokenKind, usize>,
    strs: HashMap<String, usize>,
    rules: HashMap<String, usize>,
    wkeys: HashMap<WordId, usize>,
    /// monitor: `WordId` ↔ normalised lower-case spelling
    wkey_lower: HashMap<WordId, String>,
}

fn commas(v: &[usize]) -> String {
    if v.is_empty() { "-".to_string() } else { v.iter().map(|x| x.to_string()).collect::<Vec<_>>().join(",") }
}

impl Enc {
    fn s(&mut self, s: &str) -> usize {
        let n = self.strs.len();
        *self.strs.entry(s.to_string()).or_insert(n)
    }
    fn rule(&mut self, s: &str) -> usize {
        let n = self.rules.len();
        *self.rules.entry(s.to_string()).or_insert(n)
    }
    /// as in c14.rs: injective on what the derived `Hash` of `TokenKind` sees
    fn kind(&mut self, k: &TokenKind) -> Vec<usize> {
        let code = match k {
            TokenKind::Word(_) => 0,
            TokenKind::Punctuation(_) => 1,
            TokenKind::Decade => 2,
            TokenKind::Number(_) => 3,
            TokenKind::Space(_) => 4,
            TokenKind::Newline(_) => 5,
            TokenKind::EmailAddress => 6,
            TokenKind::Url => 7,
            TokenKind::Hostname => 8,
            TokenKind::Unlintable => 9,
            TokenKind::ParagraphBreak => 10,
            TokenKind::Regexish => 11,
        };
        match k {
            TokenKind::Punctuation(Punctuation::Quote(Quote { twin_loc })) => match twin_loc {
                Some(l) => vec![1, 0, 1, *l],
                None => vec![1, 0, 0],
            },
            TokenKind::Word(None) => vec![0, 0],
            TokenKind::Space(n) => vec![4, *n],
            TokenKind::Newline(n) => vec![5, *n],
            TokenKind::Word(Some(_)) | TokenKind::Punctuation(_) | TokenKind::Number(_) => {
                let n = self.kinds.len();
                let id = *self.kinds.entry(k.clone()).or_insert(n);
                vec![code, 1 + id]
            }
            _ => vec![code],
        }
    }
    /// `start:stop:K:C`, the content interned (the model only compares it)
    fn tokens(&mut self, doc: &Document) -> String {
        let src = doc.get_source();
        let mut out = vec![];
        for t in doc.get_tokens() {
            let k = self.kind(&t.kind);
            let content: String = t.span.get_content(src).iter().collect();
            let c = self.s(&content);
            out.push(format!("{}:{}:{}:{}", t.span.start, t.span.end, commas(&k), c));
        }
        out.join(" ")
    }
    /// the payload tag of a lint (what the wrapper prints as `id`)
    fn pid(&mut self, l: &Lint) -> usize {
        self.s(&format!("P|{}|{}|{}|{:?}", l.lint_kind as usize, l.priority, l.message, l.suggestions))
    }
    /// `id:start:stop:kind:priority:M:S` with message and suggestion list interned
    fn lint(&mut self, l: &Lint) -> String {
        let id = self.pid(l);
        let m = self.s(&format!("M|{}", l.message));
        let sg = self.s(&format!("S|{:?}", l.suggestions));
        format!("{}:{}:{}:{}:{}:{}:{}", id, l.span.start, l.span.end, l.lint_kind as usize, l.priority, m, sg)
    }
    fn lints(&mut self, ls: &[Lint]) -> String {
        ls.iter().map(|l| self.lint(l)).collect::<Vec<_>>().join(" ")
    }
    fn dict(&self, words: &[String]) -> String {
        words.iter().map(|w| commas(&w.chars().map(|c| c as usize).collect::<Vec<_>>())).collect::<Vec<_>>().join(" ")
    }
    fn word(&mut self, w: &str, mons: &mut Vec<(String, bool)>) -> String {
        let cs: Vec<char> = w.chars().collect();
        let id = WordId::from_word_chars(&cs);
        let lower: String = w.to_lowercase();
        let same = self.wkey_lower.entry(id).or_insert(lower.clone()) == &lower;
        // only a monitor of the harness's reading of `WordId` (lower-cased spelling); not used by the model
        mons.push(("wordid-is-lowercased-spelling".into(), same || w.chars().any(|c| !c.is_ascii())));
        let n = self.wkeys.len();
        let k = *self.wkeys.entry(id).or_insert(n);
        format!("{}:{}", k, commas(&cs.iter().map(|c| *c as usize).collect::<Vec<_>>()))
    }
}

fn cps(text: &str) -> String {
    text.chars().map(|c| (c as u32).to_string()).collect::<Vec<_>>().join(" ")
}

// ---------------------------------------------------------------------------------------------
// the oracle's own notion of "that lint": kind, message, suggestions, priority, neighbouring tokens
// ---------------------------------------------------------------------------------------------

fn tok_key(t: &FatToken) -> String {
    match &t.kind {
        // the characters identify the word; its dictionary metadata is not part of "the token"
        TokenKind::Word(_) => format!("W{:?}", t.content),
        k => format!("{:?}{:?}", k, t.content),
    }
}

fn okey(doc: &Document, l: &Lint) -> String {
    let src = doc.get_source();
    let inter = |a: usize, b: usize| -> Vec<String> {
        doc.get_tokens().iter().filter(|t: &&Token| t.span.start < b && a < t.span.end).map(|t| tok_key(&t.to_fat(src))).collect()
    };
    let s = l.span.start;
    let pre = if s >= 2 { inter(s - 2, s) } else { vec![] };
    format!("{:?}|{}|{:?}|{}|{:?}|{:?}|{:?}", l.lint_kind, l.message, l.suggestions, l.priority, pre, inter(s, l.span.end), inter(s + 2, s + 4))
}

/// lower-cased spellings of the word tokens in the three context windows of `l`
fn window_words(doc: &Document, l: &Lint) -> Vec<String> {
    let src = doc.get_source();
    let s = l.span.start;
    let mut wins = vec![(s, l.span.end), (s + 2, s + 4)];
    if s >= 2 {
        wins.push((s - 2, s));
    }
    doc.get_tokens()
        .iter()
        .filter(|t| t.kind.is_word() && wins.iter().any(|(a, b)| t.span.start < *b && *a < t.span.end))
        .map(|t| t.span.get_content(src).iter().collect::<String>().to_lowercase())
        .collect()
}

fn hashes_of_export(json: &str) -> Vec<u64> {
    let v: Value = serde_json::from_str(json).unwrap_or(Value::Null);
    let mut hs: Vec<u64> = v["context_hashes"].as_array().map(|a| a.iter().filter_map(|x| x.as_u64()).collect()).unwrap_or_default();
    hs.sort();
    hs
}

// ---------------------------------------------------------------------------------------------
// calls
// ---------------------------------------------------------------------------------------------

#[derive(Clone, Debug)]
enum Call {
    Lint { text: String, md: bool },
    /// apply suggestion `sugg` of lint `lint` of the result of call `from`, to `text` (default: that call's text)
    Apply { from: usize, lint: usize, sugg: usize, text: Option<String> },
    /// ignore lint `lint` of the result of call `from`, in `text` (default: that call's text)
    Ignore { from: usize, lint: usize, text: Option<String> },
    ExportIgnored,
    ImportIgnored { k: usize },
    ClearIgnored,
    ImportWords(Vec<String>),
    ExportWords,
    SetConfig(Vec<(String, Option<bool>)>),
    GetConfig,
    Stats,
}

impl Call {
    fn to_json(&self) -> Value {
        match self {
            Call::Lint { text, md } => json!({"op": "lint", "text": text, "md": md}),
            Call::Apply { from, lint, sugg, text } => json!({"op": "apply", "from": from, "lint": lint, "sugg": sugg, "text": text}),
            Call::Ignore { from, lint, text } => json!({"op": "ignore", "from": from, "lint": lint, "text": text}),
            Call::ExportIgnored => json!({"op": "export_ignored"}),
            Call::ImportIgnored { k } => json!({"op": "import_ignored", "k": k}),
            Call::ClearIgnored => json!({"op": "clear_ignored"}),
            Call::ImportWords(ws) => json!({"op": "import_words", "words": ws}),
            Call::ExportWords => json!({"op": "export_words"}),
            Call::SetConfig(es) => json!({"op": "set_config", "entries": es.iter().map(|(k, v)| json!([k, v])).collect::<Vec<_>>()}),
            Call::GetConfig => json!({"op": "get_config"}),
            Call::Stats => json!({"op": "stats"}),
        }
    }
    fn from_json(v: &Value) -> Option<Call> {
        let u = |k: &str| v[k].as_u64().unwrap_or(0) as usize;
        let t = |k: &str| v[k].as_str().map(|s| s.to_string());
        Some(match v["op"].as_str()? {
            "lint" => Call::Lint { text: t("text")?, md: v["md"].as_bool().unwrap_or(false) },
            "apply" => Call::Apply { from: u("from"), lint: u("lint"), sugg: u("sugg"), text: t("text") },
            "ignore" => Call::Ignore { from: u("from"), lint: u("lint"), text: t("text") },
            "export_ignored" => Call::ExportIgnored,
            "import_ignored" => Call::ImportIgnored { k: u("k") },
            "clear_ignored" => Call::ClearIgnored,
            "import_words" => Call::ImportWords(v["words"].as_array()?.iter().filter_map(|x| x.as_str().map(|s| s.to_string())).collect()),
            "export_words" => Call::ExportWords,
            "set_config" => Call::SetConfig(
                v["entries"].as_array()?.iter().filter_map(|e| Some((e[0].as_str()?.to_string(), e[1].as_bool()))).collect(),
            ),
            "get_config" => Call::GetConfig,
            "stats" => Call::Stats,
            _ => return None,
        })
    }
}

fn input_json(dialect: &str, calls: &[Call]) -> Value {
    json!({"dialect": dialect, "calls": calls.iter().map(|c| c.to_json()).collect::<Vec<_>>()})
}

/// what one sequence produced (evaluated on worker threads, merged into the session afterwards)
#[derive(Default)]
struct Outcome {
    op: String,
    imp: String,
    fails: Vec<(String, String)>,
    counts: Vec<String>,
    monitors: Vec<(String, bool)>,
    nontrivial: Vec<String>,
    o_cases: usize,
    samples: Vec<Value>,
}

/// a returned lint, seen through the public API only
struct Returned {
    json: String,
    core: Lint,
    problem_text: String,
}

struct LintResult {
    text: String,
    md: bool,
    lints: Vec<Returned>,
}

fn same_lint(a: &Lint, b: &Lint) -> bool {
    a.span == b.span && a.lint_kind == b.lint_kind && a.message == b.message && a.suggestions == b.suggestions && a.priority == b.priority
}

fn splice(text: &[char], s: usize, e: usize, sg: &Suggestion) -> Vec<char> {
    let mut out: Vec<char> = text[..s].to_vec();
    match sg {
        Suggestion::ReplaceWith(r) => out.extend(r.iter()),
        Suggestion::InsertAfter(r) => {
            out.extend(text[s..e].iter());
            out.extend(r.iter());
        }
        Suggestion::Remove => {}
    }
    out.extend(text[e..].iter());
    out
}

fn wrap(l: WLint) -> Option<Returned> {
    let json = l.to_json();
    let v: Value = serde_json::from_str(&json).ok()?;
    let core: Lint = serde_json::from_value(v["inner"].clone()).ok()?;
    Some(Returned { json, core, problem_text: l.get_problem_text() })
}

/// O on one returned list: in range, sorted and pairwise disjoint, problem text, accessors, JSON
fn check_returned(out: &mut Outcome, text: &str, md: bool, real: &[WLint]) {
    let cs: Vec<char> = text.chars().collect();
    let mut prev_end = 0usize;
    for (i, l) in real.iter().enumerate() {
        let sp = l.span();
        if !(sp.start <= sp.end && sp.end <= cs.len()) {
            out.fails.push(("out-of-range".into(), format!("lint {} span {}..{} does not lie inside the text of {} chars", i, sp.start, sp.end, cs.len())));
            return;
        }
        if i > 0 && sp.start < prev_end {
            out.fails.push(("overlap".into(), format!("lint {} ({}..{}) starts before the previous lint ends ({})", i, sp.start, sp.end, prev_end)));
            return;
        }
        prev_end = sp.end;
        let want: String = cs[sp.start..sp.end].iter().collect();
        if l.get_problem_text() != want {
            out.fails.push(("problem-text".into(), format!("lint {} problem_text {:?} but the text at {}..{} is {:?}", i, l.get_problem_text(), sp.start, sp.end, want)));
            return;
        }
        // JSON round trips (serde derives: monitored, and a failure is a failure of the property)
        let j = l.to_json();
        match WLint::from_json(j.clone()) {
            Ok(back) => {
                let ok = back.to_json() == j
                    && back.span().start == sp.start
                    && back.span().end == sp.end
                    && back.message() == l.message()
                    && back.get_problem_text() == l.get_problem_text()
                    && back.lint_kind() == l.lint_kind()
                    && back.suggestion_count() == l.suggestion_count();
                if !ok {
                    out.fails.push(("json-lint".into(), format!("Lint JSON round trip changed lint {}: {}", i, trunc(&j, 200))));
                    return;
                }
            }
            Err(e) => {
                out.fails.push(("json-lint".into(), format!("Lint::from_json rejects Lint::to_json: {} ({})", trunc(&j, 200), e)));
                return;
            }
        }
        let sj = sp.to_json();
        match WSpan::from_json(sj.clone()) {
            Ok(b) if b.start == sp.start && b.end == sp.end && b.len() == sp.end - sp.start && b.is_empty() == (sp.start == sp.end) => {}
            _ => {
                out.fails.push(("json-span".into(), format!("Span JSON round trip changed {}", sj)));
                return;
            }
        }
        if l.suggestions().len() != l.suggestion_count() {
            out.fails.push(("accessors".into(), "suggestions().len() != suggestion_count()".into()));
            return;
        }
        for s in l.suggestions() {
            let j = s.to_json();
            match WSuggestion::from_json(j.clone()) {
                Ok(b) if b.to_json() == j && b.get_replacement_text() == s.get_replacement_text() && (b.kind() as u8) == (s.kind() as u8) => {}
                _ => {
                    out.fails.push(("json-suggestion".into(), format!("Suggestion JSON round trip changed {}", trunc(&j, 200))));
                    return;
                }
            }
        }
        out.o_cases += 1;
    }
    let _ = md;
}

fn sugg_of(s: &WSuggestion) -> Suggestion {
    let cs: Vec<char> = s.get_replacement_text().chars().collect();
    match s.kind() {
        SuggestionKind::Replace => Suggestion::ReplaceWith(cs),
        SuggestionKind::Remove => Suggestion::Remove,
        SuggestionKind::InsertAfter => Suggestion::InsertAfter(cs),
    }
}

fn sugg_word(s: &Suggestion) -> String {
    let mut v = vec![];
    match s {
        Suggestion::ReplaceWith(cs) => {
            v.push(0);
            v.extend(cs.iter().map(|c| *c as usize));
        }
        Suggestion::InsertAfter(cs) => {
            v.push(1);
            v.extend(cs.iter().map(|c| *c as usize));
        }
        Suggestion::Remove => v.push(2),
    }
    commas(&v)
}

fn sorted_words(mut ws: Vec<String>) -> Vec<String> {
    ws.sort_by(|a, b| a.chars().map(|c| c as u32).collect::<Vec<_>>().cmp(&b.chars().map(|c| c as u32).collect::<Vec<_>>()));
    ws
}

fn cfg_some(json: &str) -> BTreeMap<String, bool> {
    let v: BTreeMap<String, Option<bool>> = serde_json::from_str(json).unwrap_or_default();
    v.into_iter().filter_map(|(k, v)| v.map(|b| (k, b))).collect()
}

/// One sequence on one real Linter: the K line, and the property on the real outputs.
fn eval(dialect: &str, calls: &[Call], origin: &str) -> Outcome {
    let mut out = Outcome::default();
    let mut enc = Enc::default();
    let mut real = WLinter::new(wdialect(dialect));
    // the reference for the ignore clause: same words and config, never ignores
    let mut refl = WLinter::new(wdialect(dialect));
    let mut hist: Vec<Vec<String>> = vec![vec![]];
    let mut results: Vec<Option<LintResult>> = vec![];
    let mut exports: Vec<String> = vec![];
    let mut snaps: Vec<HashSet<String>> = vec![];
    let mut ignored_keys: HashSet<String> = HashSet::new();
    let mut hash_no: HashMap<u64, usize> = HashMap::new();
    let mut ops: Vec<String> = vec![];
    let mut imps: Vec<String> = vec![];
    let mut applied = 0usize;
    // bookkeeping for the classification of the two dictionary findings
    let mut stale = false; // export_words() changed without growing: case-only re-import
    let mut imported_after_ignore: Vec<String> = vec![];
    let mut any_ignore = false;
    let mut lint_texts: Vec<(String, bool)> = vec![];
    out.counts.push(format!("origin:{}", origin));
    out.counts.push(format!("dialect:{}", dialect));
    out.counts.push(format!("calls:{}", calls.len().min(12)));

    'seq: for call in calls {
        let cur_words = hist.last().unwrap().clone();
        match call {
            Call::Lint { text, md } => {
                let cfg = real.get_lint_config_as_json();
                let mut groups = vec![];
                let mut cur_doc = None;
                let mut cur_raw = vec![];
                for ws in hist.clone().iter() {
                    match shadow_lint(dialect, ws, &cfg, text, *md) {
                        Ok((doc, raw)) => {
                            groups.push(format!("{} | {} | {}", enc.dict(ws), enc.lints(&raw), enc.tokens(&doc)));
                            if *ws == cur_words {
                                cur_raw = raw;
                                cur_doc = Some(doc);
                            }
                        }
                        Err(_) => {
                            // the rule set itself panics on this text: C01's business
                            out.counts.push("pipeline-panic".into());
                            results.push(None);
                            break 'seq;
                        }
                    }
                }
                let cur_doc = cur_doc.unwrap();
                ops.push(format!("L {} | {} | {}", *md as u8, cps(text), groups.join(" | ")));
                let r = guarded(|| real.lint(text.clone(), lang(*md)));
                let rl = match r {
                    Ok(v) => v,
                    Err(m) => {
                        imps.push("P".into());
                        out.fails.push(("panic".into(), format!("Linter::lint panicked although LintGroup::lint on the same document does not: {}", trunc(&m, 160))));
                        results.push(None);
                        break 'seq;
                    }
                };
                check_returned(&mut out, text, *md, &rl);
                // linting overlays the curated config and must put the user's config back
                if real.get_lint_config_as_json() != cfg {
                    out.fails.push(("lint-changes-config".into(), "get_lint_config_as_json() differs before and after lint()".into()));
                }
                let ret: Vec<Returned> = rl.into_iter().filter_map(wrap).collect();
                imps.push(
                    format!(
                        "L {}",
                        ret.iter()
                            .map(|r| {
                                let pt: Vec<usize> = r.problem_text.chars().map(|c| c as usize).collect();
                                format!("{}:{}:{}:{}", r.core.span.start, r.core.span.end, enc.pid(&r.core), commas(&pt))
                            })
                            .collect::<Vec<_>>()
                            .join(" ")
                    )
                    .trim_end()
                    .to_string(),
                );
                // how interesting is this text for the overlap clause
                let mut dd = cur_raw.clone();
                remove_overlaps(&mut dd);
                if dd.len() < cur_raw.len() {
                    out.counts.push("lint:raw-lints-overlap".into());
                }
                out.counts.push(format!("lint:returned:{}", ret.len().min(6)));
                out.counts.push(format!("lint:{}", if *md { "markdown" } else { "plain" }));
                // nothing invented: every returned lint is a raw lint of the rule set
                for r in &ret {
                    if !cur_raw.iter().any(|x| same_lint(x, &r.core)) && !stale {
                        out.fails.push(("invented".into(), format!("returned lint {}..{} {:?} is not among the rule set's lints for this document", r.core.span.start, r.core.span.end, r.core.message)));
                    }
                }
                // the ignore clause: exactly the reference result minus the ignored contexts
                match guarded(|| refl.lint(text.clone(), lang(*md))) {
                    Ok(rf) => {
                        let rf: Vec<Returned> = rf.into_iter().filter_map(wrap).collect();
                        let expect: Vec<&Returned> = rf.iter().filter(|r| !ignored_keys.contains(&okey(&cur_doc, &r.core))).collect();
                        let same = expect.len() == ret.len() && expect.iter().zip(ret.iter()).all(|(a, b)| same_lint(&a.core, &b.core) && a.problem_text == b.problem_text);
                        if any_ignore {
                            out.o_cases += 1;
                            if expect.len() < rf.len() && !expect.is_empty() {
                                out.nontrivial.push(format!("ign|{}|{}|{:?}", text, md, ignored_keys.len()));
                            }
                        }
                        if !same {
                            let show = |v: &[&Returned]| v.iter().map(|r| format!("{}..{} {:?}", r.core.span.start, r.core.span.end, r.core.message)).collect::<Vec<_>>();
                            let got: Vec<&Returned> = ret.iter().collect();
                            let desc = format!(
                                "lint({:?}) returns {:?}; a linter with the same words and config that never ignored anything returns {:?}, of which the ignored contexts leave {:?}",
                                trunc(text, 80),
                                show(&got),
                                show(&rf.iter().collect::<Vec<_>>()),
                                show(&expect)
                            );
                            // narrow matcher of the recorded finding: the only difference is that ignored
                            // lints are back, and each of them has, in one of its three context windows, a
                            // word that import_words added to the dictionary after an ignore
                            let only_returns = got.len() > expect.len()
                                && expect.iter().all(|e| got.iter().any(|g| same_lint(&g.core, &e.core)))
                                && got.iter().all(|g| rf.iter().any(|r| same_lint(&r.core, &g.core)));
                            let back: Vec<&&Returned> = got.iter().filter(|g| !expect.iter().any(|e| same_lint(&g.core, &e.core))).collect();
                            let all_explained = back.iter().all(|g| window_words(&cur_doc, &g.core).iter().any(|w| imported_after_ignore.contains(w)));
                            if only_returns && all_explained {
                                out.fails.push((CLASS_IGNORE_DICT.into(), desc));
                            } else {
                                out.fails.push(("ignore-not-exact".into(), desc));
                            }
                        }
                    }
                    Err(_) => out.counts.push("reference-panic".into()),
                }
                lint_texts.push((text.clone(), *md));
                results.push(Some(LintResult { text: text.clone(), md: *md, lints: ret }));
                continue;
            }
            Call::Apply { from, lint, sugg, text } => {
                let Some(Some(res)) = results.get(*from) else {
                    results.push(None);
                    continue;
                };
                if res.lints.is_empty() {
                    results.push(None);
                    continue;
                }
                let r = &res.lints[*lint % res.lints.len()];
                let wl = match WLint::from_json(r.json.clone()) {
                    Ok(l) => l,
                    Err(_) => {
                        results.push(None);
                        continue;
                    }
                };
                let suggs = wl.suggestions();
                if suggs.is_empty() {
                    results.push(None);
                    continue;
                }
                let ws = &suggs[*sugg % suggs.len()];
                let sg = sugg_of(ws);
                let text = text.clone().unwrap_or(res.text.clone());
                let (s, e) = (r.core.span.start, r.core.span.end);
                ops.push(format!("A | {} | {} {} | {}", cps(&text), s, e, sugg_word(&sg)));
                let got = guarded(|| real.apply_suggestion(text.clone(), &wl, ws));
                let cs: Vec<char> = text.chars().collect();
                match got {
                    Ok(Ok(t)) => {
                        applied += 1;
                        imps.push(format!("T {}", cps(&t)).trim_end().to_string());
                        if s <= e && e <= cs.len() {
                            out.o_cases += 1;
                            let want: String = splice(&cs, s, e, &sg).into_iter().collect();
                            if want != t {
                                out.fails.push(("apply-not-local".into(), format!("apply_suggestion({:?}, {}..{}, {:?}) = {:?}, the splice is {:?}", trunc(&text, 80), s, e, sg, trunc(&t, 80), trunc(&want, 80))));
                            }
                            out.counts.push("apply:in-range".into());
                        } else {
                            out.counts.push("apply:span-outside-text".into());
                        }
                    }
                    Ok(Err(m)) => {
                        imps.push("E".into());
                        out.fails.push(("apply-error".into(), format!("apply_suggestion returned Err({})", m)));
                    }
                    Err(m) => {
                        applied += 1; // the record is pushed before the edit
                        imps.push("P".into());
                        if s <= e && e <= cs.len() {
                            out.fails.push(("panic".into(), format!("apply_suggestion panicked on a span inside the text: {}", trunc(&m, 160))));
                        }
                        out.counts.push("apply:panic".into());
                        results.push(None);
                        break 'seq;
                    }
                }
            }
            Call::Ignore { from, lint, text } => {
                let Some(Some(res)) = results.get(*from) else {
                    results.push(None);
                    continue;
                };
                if res.lints.is_empty() {
                    results.push(None);
                    continue;
                }
                let r = &res.lints[*lint % res.lints.len()];
                let Ok(wl) = WLint::from_json(r.json.clone()) else {
                    results.push(None);
                    continue;
                };
                let md = res.md;
                let text = text.clone().unwrap_or(res.text.clone());
                let mut groups = vec![];
                let mut cur_doc = None;
                for ws in hist.clone().iter() {
                    match shadow_doc(dialect, ws, &text, md) {
                        Ok(doc) => {
                            groups.push(format!("{} | {}", enc.dict(ws), enc.tokens(&doc)));
                            if *ws == cur_words {
                                cur_doc = Some(doc);
                            }
                        }
                        Err(_) => {
                            out.counts.push("pipeline-panic".into());
                            results.push(None);
                            break 'seq;
                        }
                    }
                }
                ops.push(format!("I {} | {}", enc.lint(&r.core), groups.join(" | ")));
                let before = hashes_of_export(&real.export_ignored_lints());
                if let Err(m) = guarded(|| real.ignore_lint(text.clone(), wl)) {
                    imps.push("P".into());
                    out.fails.push(("panic".into(), format!("ignore_lint panicked: {}", trunc(&m, 160))));
                    results.push(None);
                    break 'seq;
                }
                imps.push("U".into());
                let after = hashes_of_export(&real.export_ignored_lints());
                for h in after.iter().filter(|h| !before.contains(h)) {
                    let n = hash_no.len();
                    hash_no.entry(*h).or_insert(n);
                }
                if after.len() > before.len() + 1 || after.len() < before.len() {
                    out.fails.push(("ignore-set-size".into(), "ignore_lint changed the ignore list by other than at most one entry".into()));
                }
                ignored_keys.insert(okey(&cur_doc.unwrap(), &r.core));
                any_ignore = true;
                out.counts.push(if res.text == text { "ignore:same-text".into() } else { "ignore:other-text".into() });
            }
            Call::ExportIgnored => {
                ops.push("XI".into());
                let s = real.export_ignored_lints();
                let hs = hashes_of_export(&s);
                let mut nos: Vec<String> = vec![];
                let mut ns: Vec<usize> = hs.iter().map(|h| hash_no.get(h).copied().unwrap_or(usize::MAX)).collect();
                ns.sort();
                for n in ns {
                    nos.push(if n == usize::MAX { "?".into() } else { n.to_string() });
                }
                imps.push(format!("X {}", nos.join(" ")).trim_end().to_string());
                exports.push(s);
                snaps.push(ignored_keys.clone());
            }
            Call::ImportIgnored { k } => {
                if exports.is_empty() {
                    results.push(None);
                    continue;
                }
                let k = *k % exports.len();
                ops.push(format!("II {}", k));
                match real.import_ignored_lints(exports[k].clone()) {
                    Ok(()) => imps.push("U".into()),
                    Err(e) => {
                        imps.push("E".into());
                        out.fails.push(("import-rejects-export".into(), format!("import_ignored_lints rejects export_ignored_lints's output: {}", e)));
                    }
                }
                ignored_keys.extend(snaps[k].iter().cloned());
                if !snaps[k].is_empty() {
                    any_ignore = true;
                }
            }
            Call::ClearIgnored => {
                ops.push("CI".into());
                real.clear_ignored_lints();
                imps.push("U".into());
                ignored_keys.clear();
            }
            Call::ImportWords(ws) => {
                let words: Vec<String> = ws.iter().map(|w| enc.word(w, &mut out.monitors)).collect();
                ops.push(format!("IW {}", words.join(" ")).trim_end().to_string());
                let before = sorted_words(real.export_words());
                real.import_words(ws.clone());
                refl.import_words(ws.clone());
                imps.push("U".into());
                let now = sorted_words(real.export_words());
                // O: every imported word is exported (in the spelling imported last for its WordId)
                let mut last: HashMap<WordId, &String> = HashMap::new();
                for w in ws {
                    last.insert(WordId::from_word_chars(w.chars().collect::<Vec<char>>()), w);
                }
                out.o_cases += 1;
                for w in last.values() {
                    if !now.contains(w) {
                        out.fails.push(("word-not-exported".into(), format!("import_words([.., {:?}, ..]) but export_words() = {:?}", w, now)));
                    }
                }
                if now != before {
                    if now.len() == before.len() {
                        stale = true;
                        out.counts.push("words:case-only-reimport".into());
                    }
                    if any_ignore {
                        imported_after_ignore.extend(ws.iter().map(|w| w.to_lowercase()));
                    }
                    if !hist.contains(&now) {
                        hist.push(now);
                    } else {
                        // keep "current = last"
                        let p = hist.iter().position(|h| *h == now).unwrap();
                        let h = hist.remove(p);
                        hist.push(h);
                    }
                }
            }
            Call::ExportWords => {
                ops.push("XW".into());
                let ws = sorted_words(real.export_words());
                imps.push(format!("W {}", ws.iter().map(|w| commas(&w.chars().map(|c| c as usize).collect::<Vec<_>>())).collect::<Vec<_>>().join(" ")).trim_end().to_string());
            }
            Call::SetConfig(es) => {
                let mut m = serde_json::Map::new();
                for (k, v) in es {
                    m.insert(k.clone(), match v {
                        Some(b) => Value::Bool(*b),
                        None => Value::Null,
                    });
                }
                // a JSON object: one entry per key, in key order
                let entries: Vec<String> = m
                    .iter()
                    .map(|(k, v)| format!("{}:{}", enc.rule(k), match v.as_bool() {
                        Some(true) => "1",
                        Some(false) => "0",
                        None => "n",
                    }))
                    .collect();
                ops.push(format!("SC {}", entries.join(" ")).trim_end().to_string());
                let j = Value::Object(m).to_string();
                let j2 = j.clone();
                let before = cfg_some(&real.get_lint_config_as_json());
                match real.set_lint_config_from_json(j.clone()) {
                    Ok(()) => imps.push("U".into()),
                    Err(e) => {
                        imps.push("E".into());
                        out.fails.push(("set-config-error".into(), format!("set_lint_config_from_json({}) = Err({})", trunc(&j, 100), e)));
                    }
                }
                let _ = refl.set_lint_config_from_json(j);
                // O: exactly the non-null entries are set, nothing else changes
                let after = cfg_some(&real.get_lint_config_as_json());
                let mut want = before.clone();
                let sent: BTreeMap<String, Option<bool>> = serde_json::from_str(&j2).unwrap_or_default();
                for (k, v) in &sent {
                    if let Some(b) = v {
                        want.insert(k.clone(), *b);
                    }
                }
                out.o_cases += 1;
                if want != after {
                    out.fails.push(("set-config-effect".into(), "set_lint_config_from_json did not set exactly the non-null entries".into()));
                }
            }
            Call::GetConfig => {
                ops.push("GC".into());
                let c = cfg_some(&real.get_lint_config_as_json());
                let mut es: Vec<(usize, bool)> = c.iter().map(|(k, v)| (enc.rule(k), *v)).collect();
                es.sort();
                imps.push(format!("C {}", es.iter().map(|(k, v)| format!("{}:{}", k, *v as u8)).collect::<Vec<_>>().join(" ")).trim_end().to_string());
            }
            Call::Stats => {
                ops.push("ST".into());
                let n = real.generate_stats_file().lines().count();
                imps.push(format!("N {}", n));
                out.o_cases += 1;
                if n != applied {
                    out.fails.push(("stats-count".into(), format!("{} suggestions applied, {} records in the stats file", applied, n)));
                }
            }
        }
        results.push(None);
    }

    // ---- export → import into a FRESH linter restores the behaviour (ignore list, words, config) ----
    if !lint_texts.is_empty() {
        let r = guarded(|| {
            let mut fresh = WLinter::new(wdialect(dialect));
            fresh.import_words(real.export_words());
            let cfg = real.get_lint_config_as_json();
            let cfg_ok = fresh.set_lint_config_from_json(cfg.clone()).is_ok() && fresh.get_lint_config_as_json() == cfg;
            let ig = real.export_ignored_lints();
            let ig_ok = fresh.import_ignored_lints(ig.clone()).is_ok() && hashes_of_export(&fresh.export_ignored_lints()) == hashes_of_export(&ig);
            let words_ok = sorted_words(fresh.export_words()) == sorted_words(real.export_words());
            let mut diffs = vec![];
            for (t, md) in lint_texts.iter().rev().take(3) {
                let a: Vec<Returned> = real.lint(t.clone(), lang(*md)).into_iter().filter_map(wrap).collect();
                let b: Vec<Returned> = fresh.lint(t.clone(), lang(*md)).into_iter().filter_map(wrap).collect();
                let same = a.len() == b.len() && a.iter().zip(b.iter()).all(|(x, y)| same_lint(&x.core, &y.core) && x.problem_text == y.problem_text);
                if !same {
                    let show = |v: &[Returned]| v.iter().map(|r| format!("{}..{} {:?}", r.core.span.start, r.core.span.end, r.core.message)).collect::<Vec<_>>();
                    diffs.push(format!("lint({:?}): original {:?}, fresh linter after import {:?}", trunc(t, 80), show(&a), show(&b)));
                }
            }
            (cfg_ok, ig_ok, words_ok, diffs)
        });
        match r {
            Ok((cfg_ok, ig_ok, words_ok, diffs)) => {
                out.o_cases += 1;
                if !cfg_ok {
                    out.fails.push(("config-roundtrip".into(), "get_lint_config_as_json → set_lint_config_from_json on a fresh linter → get differs".into()));
                }
                if !ig_ok {
                    out.fails.push(("ignored-roundtrip".into(), "export_ignored_lints → import_ignored_lints on a fresh linter → export differs".into()));
                }
                if !words_ok {
                    out.fails.push(("words-roundtrip".into(), "export_words → import_words on a fresh linter → export_words differs".into()));
                }
                if let Some(d) = diffs.first() {
                    let desc = format!("after exporting words, config and ignore list into a fresh linter: {}", d);
                    // narrow matcher: the sequence re-imported a word in another capitalisation without
                    // adding a word (export_words() changed, its length did not)
                    if stale {
                        out.fails.push((CLASS_STALE.into(), desc));
                    } else {
                        out.fails.push(("export-import-differs".into(), desc));
                    }
                }
                if !ignored_keys.is_empty() || hist.len() > 1 {
                    out.nontrivial.push(format!("x|{:?}|{}|{:?}", lint_texts.last(), ignored_keys.len(), hist.last()));
                }
            }
            Err(_) => out.counts.push("fresh-linter-panic".into()),
        }
    }
    out.op = format!("wasm {}", ops.join(" ;; "));
    out.imp = format!("ok {}", imps.join(" ;; "));
    if ops.is_empty() {
        out.op.clear();
    }
    out
}

fn merge(sess: &mut Session, dialect: &str, calls: &[Call], o: Outcome) {
    let case = if o.op.is_empty() { None } else { Some(sess.k(&o.op, &o.imp)) };
    for c in &o.counts {
        sess.count(c);
    }
    for (k, held) in &o.monitors {
        sess.monitor(k, *held);
    }
    for k in &o.nontrivial {
        sess.nontrivial(k);
    }
    for _ in 0..o.o_cases {
        sess.o();
    }
    for v in o.samples {
        sess.sample(v);
    }
    let input = input_json(dialect, calls);
    for (class, desc) in o.fails {
        sess.fail(&class, desc, input.clone(), case);
    }
}

// ---------------------------------------------------------------------------------------------
// generation
// ---------------------------------------------------------------------------------------------

const NONWORDS: &[&str] = &["zqxv", "Zqxv", "ZQXV", "blorft", "Blorft", "problm", "Problm", "scond", "qwertz", "naïvety", "zqxw"];
const RULES: &[&str] = &["SpellCheck", "AnA", "SentenceCapitalization", "RepeatedWords", "LongSentences", "UnclosedQuotes", "Spaces", "Matcher", "SpelledNumbers", "NoSuchRule"];

fn gen_text(rng: &mut Rng, sents: &[String], overlapping: &[String]) -> String {
    let mut t = match rng.below(10) {
        0..=2 if !overlapping.is_empty() => rng.pick(overlapping).clone(),
        3 => {
            let s = rng.pick(sents).clone();
            format!("{} {}", s, s)
        }
        4 => format!("\"{}\" she said.", rng.pick(sents)),
        5 => format!("There is an {} in this text. I saw a elephant.", rng.pick(NONWORDS)),
        6 => format!("{} {}", rng.pick(NONWORDS), rng.pick(sents)),
        _ => crate::textgen::prose(rng),
    };
    if rng.chance(1, 5) {
        t = crate::textgen::mutate(rng, &t);
    }
    if rng.chance(1, 6) {
        // a non-word next to the start, so that imported words sit in other lints' windows
        let cs: Vec<char> = t.chars().collect();
        let spaces: Vec<usize> = cs.iter().enumerate().filter(|(_, c)| **c == ' ').map(|(i, _)| i).collect();
        if !spaces.is_empty() {
            let at = *rng.pick(&spaces);
            let mut v: Vec<char> = cs[..at].to_vec();
            v.push(' ');
            v.extend(rng.pick(NONWORDS).chars());
            v.extend(cs[at..].iter());
            t = v.into_iter().collect();
        }
    }
    let n = t.chars().count();
    if n > 400 { t.chars().take(400).collect() } else { t }
}

fn gen_seq(rng: &mut Rng, sents: &[String], overlapping: &[String]) -> Vec<Call> {
    let n = rng.range(3, 12);
    let mut calls: Vec<Call> = vec![];
    let mut lint_calls: Vec<usize> = vec![];
    let mut texts: Vec<(String, bool)> = vec![];
    let mut n_exports = 0;
    let t0 = gen_text(rng, sents, overlapping);
    let md0 = rng.chance(1, 3);
    texts.push((t0, md0));
    for i in 0..n {
        let c = if lint_calls.is_empty() || i == n - 1 {
            let (t, md) = rng.pick(&texts).clone();
            Call::Lint { text: t, md }
        } else {
            match rng.below(20) {
                0..=4 => {
                    let (t, md) = if rng.chance(2, 3) {
                        rng.pick(&texts).clone()
                    } else {
                        let t = (gen_text(rng, sents, overlapping), rng.chance(1, 3));
                        texts.push(t.clone());
                        t
                    };
                    // now and then the same text in the other language
                    let md = if rng.chance(1, 8) { !md } else { md };
                    Call::Lint { text: t, md }
                }
                5..=8 => Call::Ignore {
                    from: *rng.pick(&lint_calls),
                    lint: rng.below(8),
                    text: if rng.chance(1, 10) { Some(rng.pick(&texts).0.clone()) } else { None },
                },
                9..=10 => Call::Apply {
                    from: *rng.pick(&lint_calls),
                    lint: rng.below(8),
                    sugg: rng.below(4),
                    text: if rng.chance(1, 12) { Some(rng.pick(&texts).0.chars().take(rng.below(30)).collect()) } else { None },
                },
                11 => {
                    n_exports += 1;
                    Call::ExportIgnored
                }
                12 => {
                    if n_exports > 0 {
                        Call::ImportIgnored { k: rng.below(n_exports) }
                    } else {
                        n_exports += 1;
                        Call::ExportIgnored
                    }
                }
                13 => Call::ClearIgnored,
                14..=15 => {
                    let k = rng.range(1, 2);
                    let mut ws = vec![];
                    for _ in 0..k {
                        if rng.chance(2, 3) {
                            ws.push(rng.pick(NONWORDS).to_string());
                        } else {
                            // a word of one of the texts (often a neighbour of some lint)
                            let t = &rng.pick(&texts).0;
                            let words: Vec<&str> = t.split(|c: char| !c.is_alphanumeric()).filter(|w| !w.is_empty()).collect();
                            if !words.is_empty() {
                                ws.push(rng.pick(&words).to_string());
                            } else {
                                ws.push("zqxv".to_string());
                            }
                        }
                    }
                    Call::ImportWords(ws)
                }
                16 => Call::ExportWords,
                17 => {
                    let k = rng.range(1, 3);
                    let es = (0..k)
                        .map(|_| {
                            (rng.pick(RULES).to_string(), match rng.below(5) {
                                0 => None,
                                1 | 2 => Some(true),
                                _ => Some(false),
                            })
                        })
                        .collect();
                    Call::SetConfig(es)
                }
                18 => Call::GetConfig,
                _ => Call::Stats,
            }
        };
        if let Call::Lint { .. } = c {
            lint_calls.push(calls.len());
        }
        calls.push(c);
    }
    calls
}

/// sentences whose raw lints overlap (remove_overlaps drops something), found with the real rules
fn find_overlapping(sents: &[String], max: usize) -> Vec<String> {
    let mut out = vec![];
    let cfg = "{}";
    for s in sents.iter() {
        if let Ok((_, raw)) = shadow_lint("American", &[], cfg, s, false) {
            let mut dd = raw.clone();
            remove_overlaps(&mut dd);
            if dd.len() < raw.len() && !dd.is_empty() {
                out.push(s.clone());
                if out.len() >= max {
                    break;
                }
            }
        }
    }
    out
}

/// O only: single-word custom dictionary behaviour on separate linters
fn words_oracle(sess: &mut Session, rng: &mut Rng) {
    for d in DIALECTS {
        let mut l = WLinter::new(wdialect(d));
        for w in ["zqxv", "blorft", "Qwertz", "naïvety", "xkcdish"] {
            sess.o();
            let text = format!("The {} is here.", w);
            let flagged = |l: &mut WLinter| l.lint(text.clone(), Language::Plain).iter().any(|x| x.lint_kind() == "Spelling" && x.get_problem_text() == w);
            let before = flagged(&mut l);
            l.import_words(vec![w.to_string()]);
            let after = flagged(&mut l);
            let exported = l.export_words().contains(&w.to_string());
            sess.count(if before { "words:flagged-before-import" } else { "words:not-flagged-before-import" });
            if after || !exported {
                sess.fail(
                    "imported-word-flagged",
                    format!("after import_words([{:?}]): flagged = {}, export_words contains it = {}", w, after, exported),
                    json!({"dialect": d, "calls": [{"op": "import_words", "words": [w]}, {"op": "lint", "text": text, "md": false}]}),
                    None,
                );
            }
        }
        let _ = rng.next();
    }
    // module-level JSON helpers are well-formed and agree on the rule names
    sess.o();
    let l = WLinter::new(WDialect::American);
    let cfg: Result<BTreeMap<String, Option<bool>>, _> = serde_json::from_str(&l.get_lint_config_as_json());
    let def: Result<BTreeMap<String, Option<bool>>, _> = serde_json::from_str(&harper_wasm::get_default_lint_config_as_json());
    let desc: Result<BTreeMap<String, String>, _> = serde_json::from_str(&l.get_lint_descriptions_as_json());
    match (cfg, def, desc) {
        (Ok(c), Ok(d), Ok(ds)) => {
            let kc: BTreeSet<&String> = c.keys().collect();
            let kd: BTreeSet<&String> = d.keys().collect();
            let ks: BTreeSet<&String> = ds.keys().collect();
            if kc != kd || kc != ks || c.values().any(|v| v.is_some()) || d.values().any(|v| v.is_none()) {
                sess.fail("config-helpers", "config / default config / descriptions disagree on the rule names, or a fresh config is not all-null".into(), json!({"calls": []}), None);
            }
        }
        _ => sess.fail("config-helpers", "a JSON helper returns something that is not a JSON map".into(), json!({"calls": []}), None),
    }
    // invalid input is rejected with Err, not a panic, and changes nothing
    sess.o();
    let mut l = WLinter::new(WDialect::American);
    let c0 = l.get_lint_config_as_json();
    let i0 = l.export_ignored_lints();
    let r = guarded(|| (l.set_lint_config_from_json("{not json".into()).is_err(), l.import_ignored_lints("[1,2".into()).is_err(), WLint::from_json("{}".into()).is_err()));
    if r != Ok((true, true, true)) || l.get_lint_config_as_json() != c0 || l.export_ignored_lints() != i0 {
        sess.fail("invalid-json", "malformed JSON is not rejected cleanly".into(), json!({"calls": []}), None);
    }
}

// ---------------------------------------------------------------------------------------------
// w25: input families the quantifier names and the generators above do not write (Markdown with
// real markup, non-ASCII in front of the lints, CRLF / lone CR, empty and whitespace-only texts,
// long documents, the same construct several times, lints at offsets 0..3 followed by the same
// text shifted, dialect spellings, hostile custom words, whole-config switches, long-lived
// linters), and the public entry points no stream called (is_likely_english, isolate_english,
// import_stats_file, get_dialect, lint_kind_pretty, to_title_case; the original Lint / Suggestion
// objects instead of their JSON copies)
// ---------------------------------------------------------------------------------------------

const W25_ERR: &[&str] = &[
    "There is an problm in this text.",
    "I saw a elephant and an zqxv.",
    "This is the the test of an harness.",
    "A problm is here.",
    "We bought an blorft for teh house.",
    "Their is a mistaek in in this sentence.",
    "an zqxv is an problm.",
];
const W25_PREFIX: &[&str] = &["😀 ", "👨\u{200d}👩\u{200d}👧 ", "e\u{301}e\u{301} ", "ＡＢＣ ", "中文。", "ß İ ﬁ ", "\u{200b}", "\u{feff}", "“” — ", "𝒜𝒷 ", "한국어 ", "٣ ½ "];
/// lints at character offsets 0, 1, 2, 3 (the context's before-window starts to exist at offset 2)
const W25_SMALL_OFFSET: &[&str] = &["problm is here.", " problm is here.", "A problm is here.", "I zqxv it.", "My problm is here.", "an problm", "a apple", "I a apple saw.", "Is an problm here?", "\nA problm."];
const W25_SHIFT_PRE: &[&str] = &["Hello there. ", "This is fine.\n\n", "😀 ", "Yes, ", "A", "\n"];
const W25_SHIFT_SUF: &[&str] = &[" Thanks.", "\n\nAnother paragraph is here.", " ", "!", "\r\n"];
/// custom words: apostrophes, non-ASCII, a space inside, digits, case variants of one another and of
/// curated words. No two of them (with different `WordId`s) are within edit distance 4 of a common
/// misspelling of the texts: two user words that tie as suggestions are the recorded finding
/// `CLASS_TIE` (their order differs from one linter object to the next) and have their own stream.
const W25_WORDS: &[&str] = &[
    "O'Neil", "naïveté", "Straße", "İstanbul", "ﬁxup", "ice cream", "qwertz2", "GitHub", "github", "GITHUB", "colour", "Colour", "zqxv", "Zqxv", "ZQXV",
    "中文字幕", "e\u{301}tude", "problm", "PROBLM", "Problm", "supercalifragilistic-expialidocious",
];

fn w25_err(rng: &mut Rng, sents: &[String]) -> String {
    if rng.chance(2, 3) { rng.pick(W25_ERR).to_string() } else { rng.pick(sents).clone() }
}

fn w25_long_word(rng: &mut Rng) -> String {
    let n = rng.range(60, 400);
    (0..n).map(|_| (b'a' + rng.below(26) as u8) as char).collect()
}

/// one Markdown document with real markup around sentences that carry lints
fn w25_markdown(rng: &mut Rng, sents: &[String]) -> String {
    let mut out = String::new();
    let blocks = rng.range(1, 4);
    for _ in 0..blocks {
        let a = w25_err(rng, sents);
        let b = w25_err(rng, sents);
        let block = match rng.below(18) {
            0 => format!("# {}\n\n", a),
            1 => format!("- {}\n- {}\n  - {}\n\n", a, b, a),
            2 => format!("1. {}\n2. {}\n\n", a, b),
            3 => format!("> {}\n> {}\n\n", a, b),
            4 => format!("*{}* **{}** `code problm` [{}](http://example.com/x_y) _{}_\n\n", a, b, a, b),
            5 => format!("{}\n\n```rust\nlet problm = 1; // an problm\n```\n\n{}\n\n", a, b),
            6 => format!("| a | b |\n|---|---|\n| {} | problm |\n| an apple | {} |\n\n", a, b),
            7 => format!("<b>{}</b><i>{}</i>\n\n", a, b),
            8 => format!("{}  \n{}\\\n{}\n\n", a, b, a),
            9 => format!("![an image of a elephant](x.png) {}\n\n", a),
            10 => format!("Term[^1] {}\n\n[^1]: {}\n\n", a, b),
            11 => format!("* [ ] {}\n* [x] {}\n\n", a, b),
            12 => format!("{}\n=====\n\n{}\n-----\n\n", a, b),
            13 => format!("&amp; {} &copy; an&nbsp;problm\n\n", a),
            14 => format!("~~{}~~<http://example.com>***{}***\n\n", a, b),
            // single flagged words inside markup: the Markdown tokens next to them are not the plain-text tokens
            15 | 16 => format!("There is an **problm** here, a *elephant* too, [teh](http://a.b/c) link and <b>zqxv</b> with `code`mistaek. {}\n\n", a),
            _ => format!("    indented an problm\n\n{}\n\n---\n\n{}\n\n", a, b),
        };
        out.push_str(&block);
    }
    out
}

const W25_FAMILIES: usize = 10;

/// (text, markdown?, family)
pub(crate) fn w25_text(rng: &mut Rng, sents: &[String], fam: usize) -> (String, bool, &'static str) {
    match fam % W25_FAMILIES {
        0 => (w25_markdown(rng, sents), true, "md-markup"),
        1 => (w25_markdown(rng, sents), false, "md-markup-as-plain"),
        2 => {
            // non-ASCII (astral, ZWJ, combining, fullwidth, CJK, ligatures) in front of and between the lints
            let mut t = String::new();
            for _ in 0..rng.range(1, 3) {
                t.push_str(*rng.pick(W25_PREFIX));
            }
            t.push_str(&w25_err(rng, sents));
            t.push(' ');
            t.push_str(*rng.pick(W25_PREFIX));
            t.push_str(&w25_err(rng, sents));
            (t, rng.chance(1, 3), "nonascii")
        }
        3 => {
            let sep = *rng.pick(&["\r\n", "\r", "\r\n\r\n", "\n\r", " \r\n "]);
            let n = rng.range(2, 4);
            let t = (0..n).map(|_| w25_err(rng, sents)).collect::<Vec<_>>().join(sep);
            (t, rng.chance(1, 2), "crlf")
        }
        4 => (rng.pick(&["", " ", "\n", "\n\n", "\t", "\r\n", "   \n  ", "\u{a0}", ".", "#", "- ", "> ", "``", "😀"]).to_string(), rng.chance(1, 2), "empty-or-blank"),
        5 => {
            // long: many sentences, a very long word, a sentence of more than 40 words
            let n = rng.range(8, 14);
            let mut t = (0..n).map(|_| w25_err(rng, sents)).collect::<Vec<_>>().join(if rng.chance(1, 2) { " " } else { "\n\n" });
            t.push_str(" The ");
            t.push_str(&w25_long_word(rng));
            t.push_str(" is an problm and ");
            t.push_str(&vec!["the big word"; 20].join(" "));
            t.push_str(" ends a elephant here.");
            (t, rng.chance(1, 3), "long")
        }
        6 => {
            let s = w25_err(rng, sents);
            let n = rng.range(3, 5);
            (vec![s; n].join(*rng.pick(&[" ", "\n", "\n\n"])), rng.chance(1, 3), "repeated-construct")
        }
        7 => (rng.pick(W25_SMALL_OFFSET).to_string(), rng.chance(1, 4), "small-offset"),
        8 => (
            rng.pick(&[
                "The colour of my neighbour's centre is grey, but the color of the neighbor's center is gray.",
                "We realise that an problm was organised; they realize it was organized.",
                "I travelled to the theatre, and an zqxv traveled to the theater.",
            ])
            .to_string(),
            rng.chance(1, 3),
            "dialect-spellings",
        ),
        _ => {
            // the user's own (hostile) words next to lints
            let (a, b) = (rng.pick(W25_WORDS), rng.pick(W25_WORDS));
            (format!("The {} is here and an {} too. I saw a elephant with {}.", a, b, a), rng.chance(1, 3), "user-words-in-text")
        }
    }
}

fn w25_all_rules() -> Vec<String> {
    let m: BTreeMap<String, Option<bool>> = serde_json::from_str(&harper_wasm::get_default_lint_config_as_json()).unwrap_or_default();
    m.into_iter().map(|(k, _)| k).collect()
}

fn w25_words(rng: &mut Rng) -> Vec<String> {
    let k = rng.range(1, 4);
    let mut ws: Vec<String> = (0..k).map(|_| rng.pick(W25_WORDS).to_string()).collect();
    if rng.chance(1, 6) {
        ws.push(w25_long_word(rng));
    }
    if rng.chance(1, 5) {
        // the same word twice in one call
        let w = ws[0].clone();
        ws.push(w);
    }
    ws
}

/// the templates: every returned lint ignored in turn with export → clear → import; the same text
/// shifted by a prefix / suffix after an ignore; hostile custom words; whole-config switches
fn w25_templates(rng: &mut Rng, sents: &[String], rules: &[String], fam: usize) -> Vec<Call> {
    let (t, md, _) = w25_text(rng, sents, fam);
    let lint = |t: &str| Call::Lint { text: t.to_string(), md };
    let ign = |from: usize, l: usize| Call::Ignore { from, lint: l, text: None };
    match rng.below(4) {
        0 => vec![
            lint(&t), ign(0, 0), lint(&t), Call::Apply { from: 0, lint: 0, sugg: 0, text: None }, ign(0, 1), lint(&t), ign(0, 2), ign(0, 3), lint(&t), ign(0, 4), ign(0, 5), lint(&t),
            Call::ExportIgnored, Call::ClearIgnored, lint(&t), Call::ImportIgnored { k: 0 }, lint(&t), Call::Apply { from: 2, lint: 1, sugg: 1, text: None },
            Call::Apply { from: 0, lint: 2, sugg: 2, text: None }, Call::Stats,
        ],
        1 => {
            let pre = *rng.pick(W25_SHIFT_PRE);
            let suf = *rng.pick(W25_SHIFT_SUF);
            let i = rng.below(4);
            vec![
                lint(&t), ign(0, i), lint(&format!("{}{}", pre, t)), lint(&format!("{}{}", t, suf)), lint(&format!("{}{}{}", pre, t, suf)), Call::ExportIgnored, Call::ClearIgnored,
                Call::ImportIgnored { k: 0 }, lint(&format!("{}{}", pre, t)), lint(&t),
            ]
        }
        2 => {
            let ws1 = w25_words(rng);
            let ws2 = w25_words(rng);
            let t2 = format!("The {} is here and an {} too. {}", ws1[0], ws2[0], t);
            vec![Call::ImportWords(ws1), Call::ExportWords, lint(&t2), ign(2, rng.below(4)), lint(&t2), Call::ImportWords(ws2), Call::ExportWords, lint(&t2), lint(&t)]
        }
        _ => {
            let all = |v: Option<bool>| Call::SetConfig(rules.iter().map(|r| (r.clone(), v)).collect());
            let some: Vec<(String, Option<bool>)> = rules.iter().map(|r| (r.clone(), if rng.chance(1, 2) { Some(rng.chance(1, 2)) } else { None })).collect();
            vec![
                all(Some(true)), lint(&t), ign(1, rng.below(6)), ign(1, rng.below(6)), lint(&t), Call::GetConfig, all(Some(false)), lint(&t), all(None), lint(&t), Call::SetConfig(some), lint(&t),
                Call::GetConfig, Call::ImportWords(vec!["problm".into()]), lint(&t), Call::GetConfig,
            ]
        }
    }
}

/// a random sequence of `n` calls over the w25 text families (as `gen_seq`, with hostile words and longer lives)
fn w25_gen_seq(rng: &mut Rng, sents: &[String], rules: &[String], n: usize) -> Vec<Call> {
    let mut calls: Vec<Call> = vec![];
    let mut lint_calls: Vec<usize> = vec![];
    let mut texts: Vec<(String, bool)> = vec![];
    let mut n_exports = 0;
    let fam = rng.below(W25_FAMILIES);
    let (t0, md0, _) = w25_text(rng, sents, fam);
    texts.push((t0, md0));
    for i in 0..n {
        let c = if lint_calls.is_empty() || i == n - 1 {
            let (t, md) = rng.pick(&texts).clone();
            Call::Lint { text: t, md }
        } else {
            match rng.below(20) {
                0..=4 => {
                    let (t, md) = match rng.below(6) {
                        0 | 1 => rng.pick(&texts).clone(),
                        2 => {
                            // an earlier text shifted
                            let (t, md) = rng.pick(&texts).clone();
                            let t = if rng.chance(1, 2) { format!("{}{}", rng.pick(W25_SHIFT_PRE), t) } else { format!("{}{}", t, rng.pick(W25_SHIFT_SUF)) };
                            texts.push((t.clone(), md));
                            (t, md)
                        }
                        _ => {
                            let f = rng.below(W25_FAMILIES);
                            let (t, md, _) = w25_text(rng, sents, f);
                            texts.push((t.clone(), md));
                            (t, md)
                        }
                    };
                    let md = if rng.chance(1, 8) { !md } else { md };
                    Call::Lint { text: t, md }
                }
                5..=8 => Call::Ignore { from: *rng.pick(&lint_calls), lint: rng.below(8), text: None },
                9..=10 => Call::Apply { from: *rng.pick(&lint_calls), lint: rng.below(8), sugg: rng.below(4), text: None },
                11 => {
                    n_exports += 1;
                    Call::ExportIgnored
                }
                12 => {
                    if n_exports > 0 {
                        Call::ImportIgnored { k: rng.below(n_exports) }
                    } else {
                        n_exports += 1;
                        Call::ExportIgnored
                    }
                }
                13 => Call::ClearIgnored,
                14..=15 => Call::ImportWords(w25_words(rng)),
                16 => Call::ExportWords,
                17 => match rng.below(4) {
                    0 => Call::SetConfig(rules.iter().map(|r| (r.clone(), Some(true))).collect()),
                    1 => Call::SetConfig(rules.iter().map(|r| (r.clone(), Some(false))).collect()),
                    2 => Call::SetConfig(rules.iter().map(|r| (r.clone(), None)).collect()),
                    _ => Call::SetConfig((0..rng.range(1, 6)).map(|_| (rng.pick(rules).clone(), if rng.chance(1, 4) { None } else { Some(rng.chance(1, 2)) })).collect()),
                },
                18 => Call::GetConfig,
                _ => Call::Stats,
            }
        };
        if let Call::Lint { .. } = c {
            lint_calls.push(calls.len());
        }
        calls.push(c);
    }
    calls
}

/// O only, on ONE text: the original `Lint` / `Suggestion` objects (every other stream passes their
/// JSON copies) and the entry points that take no part in linting.
///  * every suggestion of every returned lint, applied: the text with only that span edited; the
///    JSON copy of (lint, suggestion) applied gives the same text
///  * `ignore_lint` with the original object and with its JSON copy store the same entry; the lint
///    is gone afterwards and every lint that differs from it in kind, message, suggestions or
///    flagged text is still there
///  * a second linter on which `is_likely_english`, `isolate_english`, `get_dialect`,
///    `get_lint_descriptions_as_json`, `import_stats_file(generate_stats_file())` and
///    `to_title_case` are called around every step returns the same lints
fn w25_direct(sess: &mut Session, dialect: &str, text: &str, md: bool, fam: &str) {
    let input = json!({"w25": "direct", "dialect": dialect, "text": text, "md": md, "calls": [{"op": "lint", "text": text, "md": md}]});
    let cs: Vec<char> = text.chars().collect();
    let mut a = WLinter::new(wdialect(dialect));
    let Ok(first) = guarded(|| a.lint(text.to_string(), lang(md))) else {
        sess.count("w25:direct:lint-panic");
        return;
    };
    sess.count(&format!("w25:direct:{}", fam));
    let mut out = Outcome::default();
    check_returned(&mut out, text, md, &first);
    for _ in 0..out.o_cases {
        sess.o();
    }
    if !out.fails.is_empty() {
        for (class, desc) in out.fails {
            sess.fail(&class, desc, input.clone(), None);
        }
        return;
    }
    let show = |v: &[WLint]| v.iter().map(|l| format!("{}..{} {:?}", l.span().start, l.span().end, l.message())).collect::<Vec<_>>();
    let same_w = |x: &WLint, y: &WLint| x.to_json() == y.to_json();
    // (1) apply, original objects and JSON copies
    for (i, l) in first.iter().enumerate() {
        let sp = l.span();
        sess.monitor("w25: lint_kind_pretty() is not empty", !l.lint_kind_pretty().is_empty());
        for (j, s) in l.suggestions().iter().enumerate() {
            let want: String = splice(&cs, sp.start, sp.end, &sugg_of(s)).into_iter().collect();
            let direct = guarded(|| a.apply_suggestion(text.to_string(), l, s));
            sess.o();
            match &direct {
                Ok(Ok(t)) if *t == want => {}
                other => {
                    sess.fail("apply-not-local", format!("apply_suggestion(lint {} = {}..{}, suggestion {} = {:?}) = {:?}, the splice is {:?}", i, sp.start, sp.end, j, sugg_of(s), other.as_ref().map(|r| r.as_ref().map(|t| trunc(t, 80))), trunc(&want, 80)), input.clone(), None);
                    return;
                }
            }
            let copy = guarded(|| {
                let l2 = WLint::from_json(l.to_json())?;
                let s2 = WSuggestion::from_json(s.to_json())?;
                a.apply_suggestion(text.to_string(), &l2, &s2)
            });
            if copy != direct {
                sess.fail("json-copy-behaves-differently", format!("apply_suggestion with the JSON copies of lint {} / suggestion {} = {:?}, with the originals {:?}", i, j, copy, direct), input.clone(), None);
                return;
            }
            sess.count("w25:direct:applied");
        }
    }
    // (2) ignore, original object and JSON copy
    for i in 0..first.len().min(4) {
        let Ok(again) = guarded(|| a.lint(text.to_string(), lang(md))) else { return };
        if again.len() != first.len() || !again.iter().zip(first.iter()).all(|(x, y)| same_w(x, y)) {
            sess.fail("lint-not-repeatable", format!("lint() on the same text after clear_ignored_lints(): {:?}, at first {:?}", show(&again), show(&first)), input.clone(), None);
            return;
        }
        let Ok(copy) = WLint::from_json(again[i].to_json()) else { return };
        let target = again.into_iter().nth(i).unwrap();
        if guarded(|| a.ignore_lint(text.to_string(), copy)).is_err() {
            sess.fail("panic", "ignore_lint panicked on a lint lint() returned for this text".into(), input.clone(), None);
            return;
        }
        let h_copy = hashes_of_export(&a.export_ignored_lints());
        a.clear_ignored_lints();
        if guarded(|| a.ignore_lint(text.to_string(), target)).is_err() {
            sess.fail("panic", "ignore_lint panicked on a lint lint() returned for this text".into(), input.clone(), None);
            return;
        }
        let h_direct = hashes_of_export(&a.export_ignored_lints());
        sess.o();
        if h_copy != h_direct || h_direct.len() != 1 {
            sess.fail("json-copy-behaves-differently", format!("ignore_lint with lint {} stores {:?}, with its JSON copy {:?}", i, h_direct, h_copy), input.clone(), None);
            return;
        }
        let Ok(second) = guarded(|| a.lint(text.to_string(), lang(md))) else { return };
        let t = &first[i];
        let differs = |x: &WLint| x.lint_kind() != t.lint_kind() || x.message() != t.message() || x.get_problem_text() != t.get_problem_text() || serde_json::from_str::<Value>(&x.to_json()).ok().map(|v| v["inner"]["suggestions"].clone()) != serde_json::from_str::<Value>(&t.to_json()).ok().map(|v| v["inner"]["suggestions"].clone());
        let gone = !second.iter().any(|x| same_w(x, t));
        let others_stay = first.iter().filter(|x| differs(x)).all(|x| second.iter().any(|y| same_w(x, y)));
        let nothing_new = second.iter().all(|y| first.iter().any(|x| same_w(x, y)));
        sess.o();
        if !(gone && others_stay && nothing_new) {
            sess.fail("ignore-not-exact", format!("ignore_lint(lint {}): lint() went from {:?} to {:?}", i, show(&first), show(&second)), input.clone(), None);
            return;
        }
        if second.len() + 1 == first.len() && !second.is_empty() {
            sess.nontrivial(&format!("w25d|{}|{}|{}", text, md, i));
        }
        a.clear_ignored_lints();
    }
    // (3) the entry points that take no part in linting, around every step on a second linter
    let mut b = WLinter::new(wdialect(dialect));
    let neutral = |b: &mut WLinter| {
        guarded(|| {
            let _ = b.is_likely_english(text.to_string());
            let _ = b.isolate_english(text.to_string());
            let _ = b.get_lint_descriptions_as_json();
            let _ = harper_wasm::to_title_case(text.to_string());
            let f = b.generate_stats_file();
            let r = b.import_stats_file(f);
            (b.get_dialect() as u8, r.is_ok())
        })
    };
    let n0 = neutral(&mut b);
    sess.monitor("w25: get_dialect() is the dialect of new()", n0.as_ref().map(|x| x.0).ok() == Some(wdialect(dialect) as u8) || n0.is_err());
    sess.monitor("w25: import_stats_file accepts generate_stats_file()", n0.as_ref().map(|x| x.1).unwrap_or(true));
    if n0.is_err() {
        sess.count("w25:direct:neutral-call-panics");
    }
    let Ok(bl) = guarded(|| b.lint(text.to_string(), lang(md))) else { return };
    let _ = neutral(&mut b);
    sess.o();
    if bl.len() != first.len() || !bl.iter().zip(first.iter()).all(|(x, y)| same_w(x, y)) {
        sess.fail("neutral-calls-change-lints", format!("after is_likely_english / isolate_english / get_lint_descriptions_as_json / import_stats_file / get_dialect: lint() = {:?}, without them {:?}", show(&bl), show(&first)), input.clone(), None);
        return;
    }
    if let Some(l0) = first.first() {
        let (Ok(ca), Ok(cb)) = (WLint::from_json(l0.to_json()), WLint::from_json(l0.to_json())) else { return };
        let r = guarded(|| {
            a.ignore_lint(text.to_string(), ca);
            b.ignore_lint(text.to_string(), cb);
        });
        let _ = neutral(&mut b);
        if r.is_err() {
            return;
        }
        let (Ok(ra), Ok(rb)) = (guarded(|| a.lint(text.to_string(), lang(md))), guarded(|| b.lint(text.to_string(), lang(md)))) else { return };
        sess.o();
        if ra.len() != rb.len() || !ra.iter().zip(rb.iter()).all(|(x, y)| same_w(x, y)) || hashes_of_export(&a.export_ignored_lints()) != hashes_of_export(&b.export_ignored_lints()) {
            sess.fail("neutral-calls-change-lints", format!("after an ignore, with the neutral calls around it: lint() = {:?}, without them {:?}", show(&rb), show(&ra)), input, None);
        }
    }
}

/// O only, the witness of `CLASS_TIE`: the same calls on several linter objects. `export_words()` of the
/// first imported into a fresh linter is exactly what every further object is, so by the export → import
/// clause all of them must return the same lints; and an ignore list exported from the first must hide
/// the same lint on the others.
fn w25_tie_order(sess: &mut Session, n: usize) {
    let words: Vec<String> = vec!["2zqxv".into(), "Zqxv".into()];
    let text = "We saw zqxv here.";
    let input = json!({"w25": "tie", "dialect": "American", "calls": [{"op": "import_words", "words": words}, {"op": "lint", "text": text, "md": false}]});
    let mk = |ws: Vec<String>| {
        let mut l = WLinter::new(WDialect::American);
        l.import_words(ws);
        l
    };
    let mut first = mk(words.clone());
    let Ok(base) = guarded(|| first.lint(text.to_string(), Language::Plain)) else { return };
    let base: Vec<Returned> = base.into_iter().filter_map(wrap).collect();
    let Some(target) = base.iter().position(|r| r.core.lint_kind.is_spelling() && r.problem_text == "zqxv") else {
        sess.count("w25:tie:witness-lint-missing");
        return;
    };
    let Ok(tl) = WLint::from_json(base[target].json.clone()) else { return };
    first.ignore_lint(text.to_string(), tl);
    let exported_ignores = first.export_ignored_lints();
    let exported_words = first.export_words();
    let mut differing = 0;
    let mut ignored_returns = 0;
    let mut other = None;
    for _ in 0..n {
        let mut l = mk(exported_words.clone());
        let Ok(r) = guarded(|| l.lint(text.to_string(), Language::Plain)) else { return };
        let r: Vec<Returned> = r.into_iter().filter_map(wrap).collect();
        sess.o();
        let same = r.len() == base.len() && r.iter().zip(base.iter()).all(|(x, y)| same_lint(&x.core, &y.core));
        if same {
            continue;
        }
        // narrow matcher: the results differ ONLY in the order of the suggestions of the spelling lint, and the
        // suggestions that changed places are words the sequence imported
        let only_order = r.len() == base.len()
            && r.iter().zip(base.iter()).enumerate().all(|(i, (x, y))| {
                if same_lint(&x.core, &y.core) {
                    return true;
                }
                let (mut a, mut b) = (x.core.suggestions.clone(), y.core.suggestions.clone());
                let moved: Vec<String> = a.iter().zip(b.iter()).filter(|(p, q)| p != q).map(|(p, _)| match p {
                    Suggestion::ReplaceWith(cs) => cs.iter().collect(),
                    _ => String::new(),
                }).collect();
                a.sort_by_key(|s| format!("{:?}", s));
                b.sort_by_key(|s| format!("{:?}", s));
                i == target && a == b && x.core.span == y.core.span && x.core.message == y.core.message && x.core.lint_kind == y.core.lint_kind && x.core.priority == y.core.priority && moved.iter().all(|w| exported_words.contains(w))
            });
        if !only_order {
            sess.fail("export-import-differs", format!("a fresh linter with the exported words returns {:?}, the first {:?}", r.iter().map(|x| &x.core).collect::<Vec<_>>(), base.iter().map(|x| &x.core).collect::<Vec<_>>()), input.clone(), None);
            return;
        }
        differing += 1;
        other = Some(format!("{:?}", r[target].core.suggestions));
        // the consequence for the ignore list
        if l.import_ignored_lints(exported_ignores.clone()).is_ok() {
            if let Ok(r2) = guarded(|| l.lint(text.to_string(), Language::Plain)) {
                if r2.iter().any(|x| x.lint_kind() == "Spelling" && x.get_problem_text() == "zqxv") {
                    ignored_returns += 1;
                }
            }
        }
    }
    sess.add("w25:tie:linters", n as u64);
    sess.add("w25:tie:linters-with-other-order", differing);
    sess.add("w25:tie:ignored-lint-reported-there", ignored_returns);
    if differing > 0 {
        sess.fail(
            CLASS_TIE,
            format!(
                "import_words({:?}); lint({:?}): the spelling lint on `zqxv` suggests {:?} on one linter object and {} on {} of {} further objects that imported the first one's export_words() (same process, same calls); the ignore list exported after ignoring that lint on the first object left it reported on {} of them",
                words, text, base[target].core.suggestions, other.unwrap_or_default(), differing, n, ignored_returns
            ),
            input,
            None,
        );
    }
}

/// O only: one odd custom word at a time (never two: see `CLASS_TIE`) — it is exported, lint results stay
/// well-formed, and a fresh linter that imports the export returns the same lints
fn w25_odd_words(sess: &mut Session) {
    let texts = ["The  is here. I saw a elephant.", "an problm, a b and 😀 are 'here'.", ""];
    for (i, w) in ["", " ", "a b", "\n", "😀", "'", "’", "x", "é", "-", "1", "e\u{301}", "O’Neil"].iter().enumerate() {
        let d = DIALECTS[i % 4];
        let input = |t: &str| json!({"w25": "odd-word", "dialect": d, "calls": [{"op": "import_words", "words": [w]}, {"op": "lint", "text": t, "md": false}]});
        let mut a = WLinter::new(wdialect(d));
        if guarded(|| a.import_words(vec![w.to_string()])).is_err() {
            sess.fail("panic", format!("import_words([{:?}]) panicked", w), input(""), None);
            continue;
        }
        let ex = a.export_words();
        sess.o();
        if ex != vec![w.to_string()] {
            sess.fail("word-not-exported", format!("import_words([{:?}]) but export_words() = {:?}", w, ex), input(""), None);
            continue;
        }
        let mut b = WLinter::new(wdialect(d));
        b.import_words(ex);
        for t in texts {
            for md in [false, true] {
                let (Ok(ra), Ok(rb)) = (guarded(|| a.lint(t.to_string(), lang(md))), guarded(|| b.lint(t.to_string(), lang(md)))) else {
                    sess.count("w25:odd-word:lint-panic");
                    continue;
                };
                let mut out = Outcome::default();
                check_returned(&mut out, t, md, &ra);
                for (class, desc) in out.fails {
                    sess.fail(&class, desc, input(t), None);
                }
                sess.o();
                if ra.len() != rb.len() || !ra.iter().zip(rb.iter()).all(|(x, y)| x.to_json() == y.to_json()) {
                    sess.fail("export-import-differs", format!("custom word {:?}: lint({:?}) differs on a fresh linter that imported export_words()", w, t), input(t), None);
                }
                sess.count("w25:odd-word");
            }
        }
    }
}

/// the w25 streams: templates and random sequences through `eval` (K + O), and `w25_direct` (O)
fn w25_streams(sess: &mut Session, ctx: &Ctx, rng: &mut Rng, sents: &[String], threads: usize) {
    let t_start = std::time::Instant::now();
    let rules = w25_all_rules();
    let thorough = ctx.tier == Tier::Thorough;
    let mut seqs: Vec<(String, Vec<Call>, &'static str)> = vec![];
    // every small-offset text × every shift, deterministically (the before-window boundary)
    for (n, t) in W25_SMALL_OFFSET.iter().enumerate() {
        let lint = |t: &str| Call::Lint { text: t.to_string(), md: false };
        for (m, pre) in W25_SHIFT_PRE.iter().enumerate() {
            if !thorough && (n + m) % 2 == 1 {
                continue;
            }
            let calls = vec![lint(t), Call::Ignore { from: 0, lint: 0, text: None }, lint(&format!("{}{}", pre, t)), lint(t), Call::Ignore { from: 2, lint: 1, text: None }, lint(&format!("{}{}", pre, t)), lint(t)];
            seqs.push((DIALECTS[(n + m) % 4].to_string(), calls, "w25-small-offset-shift"));
        }
    }
    let ntempl = if thorough { 600 } else { 60 };
    for i in 0..ntempl {
        seqs.push((DIALECTS[rng.below(4)].to_string(), w25_templates(rng, sents, &rules, i), "w25-template"));
    }
    let nrand = if thorough { 600 } else { 50 };
    for _ in 0..nrand {
        let n = rng.range(3, 12);
        seqs.push((DIALECTS[rng.below(4)].to_string(), w25_gen_seq(rng, sents, &rules, n), "w25-random"));
    }
    // long-lived linters: one object, many texts and calls
    let nlong = if thorough { 20 } else { 2 };
    for _ in 0..nlong {
        let n = rng.range(30, 40);
        seqs.push((DIALECTS[rng.below(4)].to_string(), w25_gen_seq(rng, sents, &rules, n), "w25-long-lived"));
    }
    let outs = par_map(seqs.len(), threads, |i| eval(&seqs[i].0, &seqs[i].1, seqs[i].2));
    for ((d, calls, _), o) in seqs.iter().zip(outs) {
        for c in calls {
            if let Call::Lint { text, .. } = c {
                let n = text.chars().count();
                sess.count(&format!("w25:text-chars:{}", if n == 0 { "0" } else if n <= 400 { "1-400" } else if n <= 1500 { "401-1500" } else { ">1500" }));
                if text.chars().any(|c| (c as u32) > 0xFFFF) {
                    sess.count("w25:text-has-astral");
                } else if !text.is_ascii() {
                    sess.count("w25:text-has-non-ascii");
                }
                if text.contains('\r') {
                    sess.count("w25:text-has-cr");
                }
            }
            if let Call::ImportWords(ws) = c {
                for w in ws {
                    sess.count(if w.is_empty() { "w25:word:empty" } else if !w.is_ascii() { "w25:word:non-ascii" } else if w.contains('\'') { "w25:word:apostrophe" } else if w.contains(' ') { "w25:word:with-space" } else if w.len() > 40 { "w25:word:long" } else { "w25:word:plain" });
                }
            }
            if let Call::SetConfig(es) = c {
                if es.len() > 20 {
                    sess.count("w25:set-config:whole");
                }
            }
        }
        merge(sess, d, calls, o);
    }
    sess.add("w25:wall-ms:sequences", t_start.elapsed().as_millis() as u64);
    // the original objects and the remaining entry points, per family
    let ndirect = if thorough { 300 } else { 40 };
    for i in 0..ndirect {
        let (t, md, fam) = w25_text(rng, sents, i);
        w25_direct(sess, DIALECTS[i % 4], &t, md, fam);
    }
    for (i, t) in W25_ERR.iter().enumerate() {
        w25_direct(sess, DIALECTS[i % 4], t, i % 2 == 1, "corpus");
    }
    sess.add("w25:wall-ms:sequences+direct", t_start.elapsed().as_millis() as u64);
    w25_odd_words(sess);
    w25_tie_order(sess, if thorough { 24 } else { 10 });
    sess.add("w25:wall-ms", t_start.elapsed().as_millis() as u64);
}

pub fn run(ctx: &Ctx) {
    let mut sess = Session::new(ctx);
    let mut rng = Rng::new(ctx.seed);
    if let Some(v) = replay_input(ctx) {
        let dialect = v["dialect"].as_str().unwrap_or("American").to_string();
        if v["w25"] == "tie" || v["w25"] == "odd-word" {
            if v["w25"] == "tie" { w25_tie_order(&mut sess, 16) } else { w25_odd_words(&mut sess) }
            sess.nontrivial("replay-a");
            sess.nontrivial("replay-b");
            sess.finish("replay of the custom-word witnesses", false, json!({}));
            return;
        }
        if v["w25"] == "direct" {
            w25_direct(&mut sess, &dialect, v["text"].as_str().unwrap_or(""), v["md"].as_bool().unwrap_or(false), "replay");
            sess.nontrivial("replay-a");
            sess.nontrivial("replay-b");
            sess.finish("replay of one recorded text (original objects, neutral entry points)", false, json!({}));
            return;
        }
        let calls: Vec<Call> = v["calls"].as_array().map(|a| a.iter().filter_map(Call::from_json).collect()).unwrap_or_default();
        let o = eval(&dialect, &calls, "replay");
        merge(&mut sess, &dialect, &calls, o);
        sess.nontrivial("replay-a");
        sess.nontrivial("replay-b");
        sess.finish("replay of one recorded call sequence", false, json!({}));
        return;
    }
    let sents = crate::corpus::sentences().clone();
    let overlapping = find_overlapping(&sents, 60);
    sess.add("texts-with-overlapping-raw-lints-found", overlapping.len() as u64);

    let lint = |t: &str| Call::Lint { text: t.to_string(), md: false };
    let ign = |from: usize, l: usize| Call::Ignore { from, lint: l, text: None };
    let iw = |w: &str| Call::ImportWords(vec![w.to_string()]);

    // 1. corpus: the witnesses first
    let mut corpus: Vec<(String, Vec<Call>)> = vec![];
    // the recorded finding: case-only re-import leaves the dictionary in force stale
    corpus.push(("American".into(), vec![iw("zqxv"), iw("Zqxv"), Call::ExportWords, lint("zqxv"), lint("The zqxv and the Zqxv and the ZQXV.")]));
    corpus.push(("British".into(), vec![iw("Zqxv"), iw("zqxv"), Call::ExportWords, lint("The zqxv and the Zqxv and the ZQXV.")]));
    corpus.push(("American".into(), vec![iw("zqxv"), iw("Zqxv"), iw("blorft"), Call::ExportWords, lint("The zqxv and the Zqxv and the ZQXV.")]));
    // an ignored lint whose window holds a word that is then added to the dictionary
    corpus.push(("American".into(), vec![lint("an zqxw here"), ign(0, 0), lint("an zqxw here"), iw("zqxw"), lint("an zqxw here")]));
    corpus.push(("American".into(), vec![lint("We saw an zqxw here."), ign(0, 0), ign(0, 1), lint("We saw an zqxw here."), iw("zqxw"), lint("We saw an zqxw here."), iw("saw"), lint("We saw an zqxw here.")]));
    // overlapping raw lints: ignore each returned lint in turn; nothing may be resurrected
    for (i, t) in overlapping.iter().take(12).enumerate() {
        let d = DIALECTS[i % 4];
        corpus.push((d.into(), vec![lint(t), ign(0, 0), lint(t), Call::ExportIgnored, ign(0, 1), lint(t), Call::ClearIgnored, lint(t), Call::ImportIgnored { k: 0 }, lint(t)]));
        corpus.push((d.into(), vec![Call::Lint { text: t.clone(), md: true }, ign(0, 1), Call::Lint { text: t.clone(), md: true }, ign(0, 0), Call::Lint { text: t.clone(), md: true }]));
    }
    // twin contexts, quotes, apply, config
    for t in [
        "There is a problm in this text. There is a problm in this text.",
        "There is a problm in this text. There is a problm of this text.",
        "Well, \"Ths\" is bad. He said \"an apple\" and \"an banana\".",
        "I saw a elephant and a elephant saw me.",
        "There is an problem in this text. Here is an second one.",
        "This is an test of the the harness.",
    ] {
        corpus.push(("American".into(), vec![
            lint(t), Call::Apply { from: 0, lint: 0, sugg: 0, text: None }, ign(0, 0), lint(t), Call::ExportIgnored, Call::ClearIgnored, lint(t),
            Call::ImportIgnored { k: 0 }, lint(t), Call::Apply { from: 3, lint: 0, sugg: 1, text: None }, Call::Stats,
        ]));
        corpus.push(("Australian".into(), vec![
            lint(t), Call::SetConfig(vec![("SpellCheck".into(), Some(false)), ("AnA".into(), None)]), lint(t), Call::GetConfig,
            Call::SetConfig(vec![("AnA".into(), Some(false)), ("NoSuchRule".into(), Some(true))]), lint(t), Call::GetConfig, iw("problm"), lint(t), Call::GetConfig,
        ]));
    }
    // a lint of one text ignored "in" another text; a span outside the text applied
    corpus.push(("Canadian".into(), vec![
        lint("I saw a elephant."), Call::Ignore { from: 0, lint: 0, text: Some("A elephant.".into()) }, lint("I saw a elephant."), lint("A elephant."),
        Call::Apply { from: 0, lint: 0, sugg: 0, text: Some("I saw".into()) },
    ]));
    for (d, calls) in &corpus {
        let o = eval(d, calls, "corpus");
        merge(&mut sess, d, calls, o);
    }

    // 2. exhaustive small scope: every sequence of ≤ 3 (thorough: ≤ 4) calls over a 7-call alphabet,
    //    each followed by a final `lint`
    let t_small = "an zqxv is an problm.";
    let alphabet: Vec<Call> = vec![
        lint(t_small),
        Call::Ignore { from: 0, lint: 0, text: Some(t_small.into()) },
        Call::Ignore { from: 0, lint: 1, text: Some(t_small.into()) },
        Call::ExportIgnored,
        Call::ImportIgnored { k: 0 },
        Call::ClearIgnored,
        iw("zqxv"),
    ];
    let maxlen = if ctx.tier == Tier::Thorough { 4 } else { 3 };
    let mut small: Vec<Vec<Call>> = vec![];
    for len in 0..=maxlen {
        let total = alphabet.len().pow(len as u32);
        for code in 0..total {
            let mut c = code;
            let mut calls = vec![lint(t_small)];
            for _ in 0..len {
                calls.push(alphabet[c % alphabet.len()].clone());
                c /= alphabet.len();
            }
            calls.push(lint(t_small));
            small.push(calls);
        }
    }
    let threads = std::thread::available_parallelism().map(|n| n.get()).unwrap_or(4).min(12);
    let outs = par_map(small.len(), threads, |i| {
        eval("American", &small[i], "exhaustive")
    });
    for (calls, o) in small.iter().zip(outs) {
        merge(&mut sess, "American", calls, o);
    }

    // 3. structured random
    let nseq = if ctx.tier == Tier::Thorough { 12000 } else { 1200 };
    let seqs: Vec<(String, Vec<Call>)> = (0..nseq)
        .map(|_| {
            let d = DIALECTS[rng.below(4)].to_string();
            (d, gen_seq(&mut rng, &sents, &overlapping))
        })
        .collect();
    let outs = par_map(seqs.len(), threads, |i| {
        eval(&seqs[i].0, &seqs[i].1, "random")
    });
    for ((d, calls), o) in seqs.iter().zip(outs) {
        merge(&mut sess, d, calls, o);
    }

    words_oracle(&mut sess, &mut rng);

    // 4. w25: the families and entry points listed at `w25_streams`
    w25_streams(&mut sess, ctx, &mut rng, &sents, threads);

    sess.finish(
        "corpus (case-only re-import of a custom word; an ignored lint whose window holds a word added later; texts whose raw lints overlap, each returned lint ignored in turn; twin contexts; quotes; config switches; a lint ignored in another text; a span outside the text); every sequence of ≤3 (quick) / ≤4 (thorough) calls over {lint, ignore lint 0, ignore lint 1, export, import, clear, import_words} between two lint calls, exhaustively; random sequences of 3–12 calls (lint in both languages, ignore, apply, export/import/clear ignored, import/export words, set/get config, stats) on all four dialects over rule-test sentences (1–3, mutated, non-words inserted, sentences with overlapping raw lints preferred). One K case = one whole sequence. Non-trivial = a lint call after an ignore where the reference returns more lints than remain and something remains, or an export→import check with a non-empty ignore list or custom words; distinct by (text, language, ignore-list size).",
        true,
        json!({"exhaustive_scope": format!("all sequences of ≤{} calls over a 7-call alphabet on the text {:?}, between two lint calls", maxlen, t_small)}),
    );
}
